"""C04 gstuff encoders: frame grammar, escape completeness, worst-case size,
escape-table agreement with the decoders, marker alphabets."""
import copy
from common import *
from absval import IntVal, PtrVal
from lin import Lin

CTX = StructSpec('struct.gstuff_context', inv=[])
FIELDS = ['GSTUFF_START', 'GSTUFF_STOP', 'GSTUFF_STUB', 'GSTUFF_STUB_START', 'GSTUFF_STUB_STOP', 'GSTUFF_STUB_STUB']


class FrameMonitor:
    """ghost automaton over the bytes stored through the output pointer:
       0 -START-> 1 ; 1 -data(!=START,STOP,STUB)-> 1 ; 1 -STUB-> 2 ; 2 -code-> 1 ; 1 -STOP-> 3
    A stored value counts as a marker/escape code only if it *is* that
    constant (same abstract value); as data only if it is provably different
    from every marker on the path that reaches the store."""

    def __init__(self, out_name, markers=None):
        self.out_name = out_name
        self.out_obj = None
        self.m = markers          # name -> Lin (filled by setup for ctx based codecs)
        self.crc_objs = set()

    def setup(self, run, st, env, names, args, sps):
        self.out_obj = args[names.index(self.out_name)].obj
        for sp in sps:
            if sp[2] is not None and sp[2].name == 'struct.gstuff_context':
                self.m = {k: sp[3][k] for k in FIELDS}
        st.ghost['frame'] = 0

    def neq(self, st, a, b):
        return st.known_diseq(a, b) or st.cons.entails_lt(a, b) or st.cons.entails_lt(b, a)

    def hook(self, interp, st, inst, p, v):
        if not isinstance(p, PtrVal):
            return
        o = st.objs.get(p.obj)
        if o is not None and o.kind == 'alloca' and (inst.fn.insts[inst.ops[1].id].name if inst.ops[1].k == 'inst' else '') == 'crc' \
                and 'crcseed' not in st.ghost and isinstance(v, IntVal) and v.const() is not None:
            st.ghost['crcseed'] = v.const()
        if p.obj != self.out_obj or not isinstance(v, IntVal):
            return
        vs = st.force_s(v)
        m = self.m
        state = st.ghost.get('frame', 0)
        tok = [k for k in FIELDS if k in m and m[k] == vs]
        isdata = all(self.neq(st, vs, m[k]) for k in ('GSTUFF_START', 'GSTUFF_STOP', 'GSTUFF_STUB') if k in m)
        ok = True
        why = None
        nxt = state
        if state == 0:
            ok = 'GSTUFF_START' in tok
            nxt = 1
            why = 'the first byte of a frame must be the start marker'
        elif state == 1:
            if 'GSTUFF_STUB' in tok:
                nxt = 2
            elif 'GSTUFF_STOP' in tok:
                nxt = 3
                st.ghost['lastoff'] = p.off
            elif isdata:
                nxt = 1
            else:
                ok = False
                why = ('a byte that may equal a marker (START/STOP/STUB) is stored unescaped between the frame '
                       'delimiters')
        elif state == 2:
            ok = any(t in tok for t in ('GSTUFF_STUB_START', 'GSTUFF_STUB_STOP', 'GSTUFF_STUB_STUB'))
            nxt = 1
            why = 'the byte after STUB must be an escape code'
        else:
            ok = False
            why = 'a byte is stored after the stop marker'
        st.ghost['frame'] = nxt if ok else state
        interp.oblige('frame:' + ('grammar' if ok or state != 1 else 'unescaped-byte'), inst, ok,
                      None if ok else '%s (stored value %r)' % (why, vs), 'state%d' % state)


def esc_posts(M):
    S, P, B = M['GSTUFF_START'], M['GSTUFF_STOP'], M['GSTUFF_STUB']
    return [
        dict(name='escape-start', when=['c == %s' % S],
             then=['ret == 2', 'ghost_out0 == %s' % B, 'ghost_out1 == %s' % M['GSTUFF_STUB_START']]),
        dict(name='escape-stub', when=['c != %s' % S, 'c == %s' % B],
             then=['ret == 2', 'ghost_out0 == %s' % B, 'ghost_out1 == %s' % M['GSTUFF_STUB_STUB']]),
        dict(name='escape-stop', when=['c != %s' % S, 'c != %s' % B, 'c == %s' % P],
             then=['ret == 2', 'ghost_out0 == %s' % B, 'ghost_out1 == %s' % M['GSTUFF_STUB_STOP']]),
        dict(name='plain', when=['c != %s' % S, 'c != %s' % B, 'c != %s' % P],
             then=['ret == 1', 'ghost_out0 == c']),
        dict(name='length', then=['ret >= 1', 'ret <= 2']),
    ]


def byte_hook_factory(out_name):
    box = {}

    def setup(run, st, env, names, args, sps):
        box['obj'] = args[names.index(out_name)].obj

    def hook(interp, st, inst, p, v):
        if isinstance(p, PtrVal) and p.obj == box.get('obj') and isinstance(v, IntVal) and p.off.is_const():
            st.ghost['out%d' % p.off.c] = st.force_s(v)
    return setup, hook


# ---- std::vector<uint8_t> is trusted and summarised (libstdc++ is not analysed) ----
def vec_ctor(interp, st, i, args):
    return [(st, None)]


def vec_resize(interp, st, i, args):
    this, n = args[0], args[1]
    key = 'vec:%s' % this.obj
    old = st.ghost.get(key)
    size = st.force_u(n)
    if old is None:
        o = st.new_obj('heap', size, 'vecbuf', {'desc': 'std::vector<uint8_t> storage sized by resize()'})
        st.ghost[key] = o.id
    else:
        # shrinking after encoding: storage object stays
        pass
    return [(st, None)]


def vec_index(interp, st, i, args):
    this, idx = args[0], args[1]
    oid = st.ghost.get('vec:%s' % this.obj)
    if oid is None:
        return None
    return [(st, PtrVal(oid, st.force_u(idx)))]


VEC_EXT = {'_ZNSt6vectorIhSaIhEEC2Ev': vec_ctor, '_ZNSt6vectorIhSaIhEEC1Ev': vec_ctor,
           '_ZNSt6vectorIhSaIhEE6resizeEm': vec_resize, '_ZNSt6vectorIhSaIhEEixEm': vec_index,
           '_ZNSt6vectorIhSaIhEED2Ev': vec_ctor, '_ZNSt6vectorIhSaIhEED1Ev': vec_ctor}


def alphabet(rep, repo):
    """R-ALPHABET: the marker alphabets the library ships (default context and
    gstuff_context_v0) - escape codes differ from every marker, the code map is
    injective wherever the markers differ, STUB differs from START and STOP."""
    mod = witness('w_gstuff.cpp', repo)
    rep.units.append('witness/w_gstuff.cpp -> igris/protocols/gstuff.h (marker alphabets)')
    from absval import State
    out = {}
    for fname, label in (('igris_verif_ctx_default', 'default(V1)'), ('igris_verif_ctx_v0', 'v0')):
        f = mod.fn(fn_named(mod, fname))
        it = Interp(mod, externals=CRC_EXT, opaque=CRC_OPAQUE)
        st = State()
        o = st.new_obj('param', Lin(6), 'out')
        rets = it.run_function(f, st, [PtrVal(o.id)])
        if len(rets) != 1:
            raise AnalysisBroken('%s: %d return states' % (fname, len(rets)))
        T = rets[0][0]
        vals = {}
        offs = {m['name']: m['off'] for m in mod.flat_fields('struct.gstuff_context')}
        for k in FIELDS:
            it.recording += 1
            v = it.load(T, PtrVal(o.id, Lin(offs[k])), {'k': 'int', 'bits': 8, 'size': 1, 's': 'i8'}, None)
            it.recording -= 1
            c = v.const() if isinstance(v, IntVal) else None
            if c is None:
                raise AnalysisBroken('%s: field %s is not a constant' % (fname, k))
            vals[k] = c
        out[label] = vals
        S, P, B = vals['GSTUFF_START'], vals['GSTUFF_STOP'], vals['GSTUFF_STUB']
        cs, cp, cb = vals['GSTUFF_STUB_START'], vals['GSTUFF_STUB_STOP'], vals['GSTUFF_STUB_STUB']
        where = 'igris/protocols/gstuff.h'
        fact = {k: '0x%02X' % v for k, v in vals.items()}
        rep.inst('R-ALPHABET', label, 'stub-differs-from-delimiters', B != S and B != P, where,
                 'STUB equals a frame delimiter', fact=fact)
        rep.inst('R-ALPHABET', label, 'codes-are-not-markers', not ({cs, cp, cb} & {S, P, B}), where,
                 'an escape code equals a marker byte, so escaped data would contain a marker', fact=fact)
        rep.inst('R-ALPHABET', label, 'code-map-injective',
                 cb != cs and cb != cp and ((cs != cp) == (S != P)), where,
                 'two different markers share an escape code (or equal markers have different codes)', fact=fact)
    return out


def run(rep, repo, tier):
    rep.explanation = (
        'Abstract interpretation of the encoders with a ghost automaton over the bytes stored through the output '
        'pointer: the frame is START (data | STUB code)* STOP where a data byte is provably different from every '
        'marker on its path (escape completeness incl. the CRC byte), the escape table of gstuff_byte is the inverse '
        'of the one proved for the receiver in C05, return value = bytes written, CRC seed 0xFF, every store within '
        '2n+4 bytes (single buffer entry point, all n), self-sizing overloads allocate at least what the encoder '
        'writes, and the shipped marker alphabets are consistent; for 2 scatter-gather pieces of arbitrary lengths '
        '(empty pieces included) the frame is closed, lies within 2*total+4 bytes and is at least total+3 bytes long, so no '
        'piece is dropped (R-PIECES); the decoding half is the set of receiver clauses of C05, evaluated here as R-DECODE (escape codes '
        'decode to the markers they stand for, data bytes are stored unchanged, acceptance needs zero CRC residue and strips the CRC). '
        'decode(encode(p)) == p follows by induction over the frame from the two halves (encoder grammar, receiver transitions) and '
        'the residue property of the CRC-8 decided in C17; that composition is stated, not mechanised.')
    rep.assumptions += ['marker values of the configurable codec are arbitrary (symbolic context)',
                        'std::vector<uint8_t> is trusted and summarised (resize/operator[])',
                        'iovec based entry point analysed for the frame grammar with symbolic n, for sizes with n == 1 (self-sizing overload) and n == 2 (raw buffer)']
    src = repo + '/igris/protocols/gstuff.cpp'
    mod = compile_ir(src, repo)
    rep.units.append('igris/protocols/gstuff.cpp')
    M = {k: k for k in FIELDS}

    # --- gstuff_byte: escape table, encoder side
    it = Interp(mod, externals=CRC_EXT, opaque=CRC_OPAQUE)
    setup, hook = byte_hook_factory('outdata')
    it.store_hook = hook
    run_ = ContractRun(it, [CTX])
    run_.run(fn_named(mod, 'gstuff_byte'), FnSpec(extents={'outdata': '2'}, setup=setup, post=esc_posts(M)))
    rep.add_absint('R-ESCTABLE', summarize(it, run_))

    # --- frame grammar of gstuffing_v (any number of pieces) and of gstuffing (sizes too)
    for fname, spec_kw, label in (
            ('gstuffing_v', dict(), 'R-FRAME'),
            ('gstuffing', dict(extents={'data': 'size', 'outdata': '2 * size + 4'}, pre=['size <= 1073741824']), 'R-FRAME')):
        cands = [f for f in mod.defined() if f.srcname == fname and not any(p.get('sret') for p in f.params)]
        if len(cands) != 1:
            raise AnalysisBroken('%s: %d raw-buffer overloads' % (fname, len(cands)))
        f = cands[0]
        it = Interp(mod, externals=CRC_EXT, opaque=CRC_OPAQUE)
        mon = FrameMonitor('outdata')
        it.store_hook = mon.hook
        it.ghost_keys = ('frame',)
        r = ContractRun(it, [CTX])
        posts = [dict(name='frame-closed', then=['ghost_frame == 3']),
                 dict(name='crc-seed', then=['ghost_crcseed == 255'])]
        if fname == 'gstuffing':
            # (int)(outdata - outstrt) is only expressible when the length is bounded
            posts.append(dict(name='returns-length', then=['ret == ghost_lastoff + 1']))
        r.run(f.name, FnSpec(setup=mon.setup, post=posts, **spec_kw), fn=f)
        obs = summarize(it, r)
        for o in obs:
            if o.get('call_stack'):
                o['root'] = fname + ('(iovec)' if fname == 'gstuffing_v' else '(buffer)')
                o['leaf'] = mod.fn(o['function']).srcname if mod.fn(o['function']) else o['function']
            else:
                o['function'] = fname + ('(iovec)' if fname == 'gstuffing_v' else '(buffer)')
        rep.add_absint(label, obs)

    # --- scatter-gather: every piece is encoded.  gstuffing_v with 2 pieces of symbolic lengths (0 included): the frame
    # grammar holds, every store lies within 2*(sum of lengths)+4 bytes, and the frame is at least START + one unit per
    # payload byte + CRC + STOP long.  An encoder that stops at (or skips the rest after) an empty or a short piece returns
    # a shorter frame than that.
    cands = [f for f in mod.defined() if f.srcname == 'gstuffing_v' and not any(p.get('sret') for p in f.params)]
    f = cands[0]
    # (three pieces were tried as well: the proof then depends on the elimination budget of the domain and was not stable
    # under behaviour-preserving rewrites of the loops, so only the two-piece scenario is registered)
    for k in (2,):
        it = Interp(mod, externals=CRC_EXT, opaque=CRC_OPAQUE)
        mon = FrameMonitor('outdata')
        it.store_hook = mon.hook
        it.ghost_keys = ('frame',)
        r = ContractRun(it, [CTX])

        def psetup(run, st, env, names, args, sps, k=k, mon=mon):
            v = st.new_obj('param', Lin(16 * k), 'vec', {'desc': 'iovec array (%d elements)' % k})
            total = Lin(0)
            for j in range(k):
                n = st.fresh_int(64, False, 'len%d' % j)
                st.cons.add_le(n.u, 1 << 28)
                data = st.new_obj('param', n.u, 'piece%d' % j, {'desc': 'payload vec[%d].iov_base' % j})
                st.mem[(v.id, 16 * j, 8)] = PtrVal(data.id, Lin(0))
                st.mem[(v.id, 16 * j + 8, 8)] = n
                env.bind('len%d' % j, n.u)
                total = total + n.u
            args[names.index('vec')] = PtrVal(v.id, Lin(0))
            st.objs[args[names.index('outdata')].obj].size = total * 2 + 4
            mon.setup(run, st, env, names, args, sps)
        tot = ' + '.join('len%d' % j for j in range(k))
        r.run(f.name, FnSpec(setup=psetup, pre=['n == %d' % k], post=[
            dict(name='frame-closed', then=['ghost_frame == 3']),
            dict(name='returns-length', then=['ret == ghost_lastoff + 1']),
            dict(name='every-piece-is-encoded(frame >= payload + 3)', then=['ret >= %s + 3' % tot]),
            dict(name='worst-case-size', then=['ret <= 2 * (%s) + 4' % tot])]), fn=f)
        obs = summarize(it, r)
        for o in obs:
            if o.get('call_stack'):
                o['root'] = 'gstuffing_v(iovec,n==%d)' % k
                o['leaf'] = mod.fn(o['function']).srcname if mod.fn(o['function']) else o['function']
            else:
                o['function'] = 'gstuffing_v(iovec,n==%d)' % k
        rep.add_absint('R-PIECES', obs)

    # --- self-sizing overloads
    for fname, pre, extents, tag in (
            ('gstuffing', [], {}, 'gstuffing(igris::buffer)->vector'),
            ('gstuffing_v', ['n == 1'], {}, 'gstuffing_v(iovec,n==1)->vector')):
        cands = [f for f in mod.defined() if f.srcname == fname and any(p.get('sret') for p in f.params)]
        if len(cands) != 1:
            raise AnalysisBroken('%s: %d vector-returning overloads' % (fname, len(cands)))
        f = cands[0]
        it = Interp(mod, externals=dict(VEC_EXT, **CRC_EXT), opaque=set(VEC_EXT) | CRC_OPAQUE)
        r = ContractRun(it, [CTX])

        def vsetup(run, st, env, names, args, sps, fname=fname):
            if fname == 'gstuffing':
                # igris::buffer by pointer: {char *buf; size_t sz}
                n = st.fresh_int(64, False, 'buf.sz')
                st.cons.add_le(n.u, 1 << 30)
                data = st.new_obj('param', n.u, 'buf.data', {'desc': 'payload buf.data()'})
                b = st.new_obj('param', Lin(16), 'buf', {'desc': 'igris::buffer argument'})
                st.mem[(b.id, 0, 8)] = PtrVal(data.id, Lin(0))
                st.mem[(b.id, 8, 8)] = n
                args[names.index('buf')] = PtrVal(b.id, Lin(0))
            else:
                n = st.fresh_int(64, False, 'iov_len')
                st.cons.add_le(n.u, 1 << 30)
                data = st.new_obj('param', n.u, 'iov_base', {'desc': 'payload vec[0].iov_base'})
                v = st.new_obj('param', Lin(16), 'vec', {'desc': 'iovec array (1 element)'})
                st.mem[(v.id, 0, 8)] = PtrVal(data.id, Lin(0))
                st.mem[(v.id, 8, 8)] = n
                args[names.index('vec')] = PtrVal(v.id, Lin(0))
        r.run(f.name, FnSpec(pre=pre, setup=vsetup, check_inv=False), fn=f)
        obs = summarize(it, r)
        for o in obs:
            if o.get('call_stack'):
                o['root'] = tag
                o['leaf'] = mod.fn(o['function']).srcname if mod.fn(o['function']) else o['function']
            else:
                o['function'] = tag
        rep.add_absint('R-SELFSIZE', obs)

    # --- legacy C encoder (constant alphabet, START doubles as STOP)
    src1 = repo + '/igris/protocols/gstuff_v1/gstuff.c'
    mod1 = compile_ir(src1, repo)
    rep.units.append('igris/protocols/gstuff_v1/gstuff.c')
    it = Interp(mod1, externals=CRC_EXT, opaque=CRC_OPAQUE)
    LM = {'GSTUFF_START': Lin(-84), 'GSTUFF_STOP': Lin(-84), 'GSTUFF_STUB': Lin(-83),
          'GSTUFF_STUB_START': Lin(-82), 'GSTUFF_STUB_STUB': Lin(-81)}
    mon = FrameMonitor('outdata', LM)

    def lsetup(run, st, env, names, args, sps):
        mon.out_obj = args[names.index('outdata')].obj
        st.ghost['frame'] = 0
    it.store_hook = mon.hook
    it.ghost_keys = ('frame',)
    r = ContractRun(it, [])
    r.run('gstuffing_v1', FnSpec(setup=lsetup, pre=['size >= 0', 'size <= 1073741824'],
                                 extents={'data': 'size', 'outdata': '2 * size + 4'},
                                 post=[dict(name='frame-closed', then=['ghost_frame == 3']),
                                       dict(name='returns-length', then=['ret == ghost_lastoff + 1']),
                                       dict(name='crc-seed', then=['ghost_crcseed == 255'])]))
    rep.add_absint('R-FRAME-LEGACY', summarize(it, r))

    alphabet(rep, repo)
    # the decoding half of the round trip: the receiver clauses of C05 (each escape code is turned back into the marker it stands
    # for, data bytes are stored as they are, a frame is accepted exactly with zero CRC residue and the CRC byte is stripped)
    import c05
    c05.run(rep, repo, tier, as_decoder=True)
    rep.floor('R-ESCTABLE:post', 10)
    rep.floor('R-FRAME:frame', 4)
    rep.floor('R-FRAME:post', 4)
    rep.floor('R-FRAME:bounds', 3)
    rep.floor('R-SELFSIZE:bounds', 4)
    rep.floor('R-FRAME-LEGACY:frame', 3)
    rep.floor('R-ALPHABET', 6)
    rep.floor('R-PIECES:post', 4)
    rep.floor('R-PIECES:bounds', 2)
    import c04_roundtrip
    c04_roundtrip.run_ext(rep, repo, tier)
