"""C03, CONTENT (FIFO order) clauses of the ring buffers - extension of c03.py (run_ext is called at the end of c03.run).

c03.py decides the counter arithmetic for every size and state (indices stay inside [0,size), closed forms of
avail/room/empty/full, refusal without a change of the counters, sign-correct modulo).  It does not decide WHICH element is
read.  This module decides that by an identity analysis over a finite partition of the entry states:

    ring size N in 2..5 (quick) / 2..7 (thorough), every (head, tail) pair in [0,N)^2, every transfer length 0..N+1

In one element of the partition every counter is a constant, so every slot address is a constant and every loop runs on
concrete bounds (the interpreter executes it by peeling; a loop that is not decided by the partition is 'unresolved', never a
verdict).  The CONTENT stays abstract: every slot of the buffer holds a symbol of its own (its identity), the value argument
and every element of the caller's array likewise.  The function is interpreted (checks/absint.py - nothing is executed) and at
every return the identities found in the slots, in the caller's array and in the result are compared with the reference queue
semantics:

    put/push    not full: slot[head_before] := argument, every other slot unchanged, head := head+1 mod N, tail unchanged,
                result 1;  full: result 0, nothing changes (C ring; the typed ring has no refusal: its push requires room)
    get/pop     not empty: result = value of slot[tail_before], no slot changes, tail := tail+1 mod N, head unchanged;
                empty: result -1, nothing changes
    write/read  exactly k = min(n, room | avail) elements move, in order: slot[(head+j) mod N] := data[j] resp.
                data[j] := slot[(tail+j) mod N] for j < k, result k, everything else unchanged (data[k..n) too)
    accessors   tail() = slot[tail], last() = slot[head-1 mod N], head_place() = slot[head], get(i) = slot[i],
                get_last(offset, count, from_end)[i] = slot[head-1-offset-i mod N] resp. slot[head-count-offset+i mod N],
                fixup_index(i) = i mod N, distance(a, b) = a-b mod N, cyclic_buffer[i] = slot[counter-i mod N]
    cyclic      push(v): counter := counter+1 mod N, result = old slot[counter'], slot[counter'] := v, others unchanged,
                filled := min(filled+1, N)

By induction over the history these per-state clauses give the FIFO property (R-FIFO-HISTORY replays the induction on the
transition table that the interpreter produced, against a reference queue, from the empty ring over every reachable state).

Typed rings with a non-trivially destructible element: slot typestate RAW/LIVE (checks/life_core.py) on igris::ring<VTr> and
igris::cyclic_buffer<VTr> with the probe type VTr, whose special members are visible external calls (R-RINGLIFE), plus the
identity of the value every LIVE slot holds.

A scenario that cannot be analysed exactly removes the ':analysed' instance of its function, which breaks the floor of the
rule (exit 2) - it is never reported as held or as violated."""
import os

from common import *
from absval import PtrVal, IntVal, CondVal, mk_const
from lin import Lin
from absint import Interp
from contracts import ContractRun
from irlib import tyname

RING_HEAD = 'struct.ring_head'


OOB = []        # (function, where, detail): accesses outside their object met while interpreting the (concrete) scenarios


class Unres(AnalysisBroken):
    """the scenario cannot be analysed exactly (never a verdict)"""


def determinate(sym):
    """a symbol the scenario defines: an identity ('id#n') or the carry of a signed<->unsigned conversion of one ('k..#n',
    State.force_u / force_s).  A value that mentions any other symbol (memory the scenario did not define, the result of a
    call that is not analysed, an arithmetic result the engine does not represent exactly) is 'not decided', never
    'different'."""
    h = str(sym).split('#', 1)[0]
    return h == 'id' or h.startswith('k')


class ExactMixin:
    """every loop must be decided by the (concrete) scenario: no widening, no invariant inference; plus one local
    refinement of the engine: sext(x) & (2^j - 1) of a j-bit value x is the unsigned reading of x (the engine only knows
    the mask when the operand has an unsigned form)"""

    def run_loop(self, fn, L, st, frm, rets):
        self.loops_seen += 1
        r = self.try_peel(fn, L, st, frm, rets)
        if r is None:
            raise Unres('the loop at %s in %s is not decided by the scenario within %d iterations%s'
                        % (L['header'].term.where(), fn.name, self.max_peel,
                           ' (%s)' % self.last_peel_error if getattr(self, 'last_peel_error', None) else ''))
        return r

    def binop(self, st, op, a, b, inst):
        if op == 'and' and isinstance(a, IntVal) and isinstance(b, IntVal):
            for x, m in ((a, b), (b, a)):
                k = m.const()
                if k is not None and k > 0 and (k & (k + 1)) == 0 and x.u is None and x.s is not None:
                    j = k.bit_length()
                    u = st.conv.get(('u', j, x.s.key()))        # memo of State.force_s: x.s = u - 2^j * carry
                    if u is not None and j < x.w:
                        return IntVal(x.w, u, u)
        return super().binop(st, op, a, b, inst)


class CInterp(ExactMixin, Interp):
    pass


class Ids:
    """identities: one unsigned symbol per value the scenario distinguishes"""

    def __init__(self):
        self.label = {}      # symbol key -> label
        self.vals = []       # (label, IntVal)

    def new(self, st, label, bits=8):
        x = st.fresh_int(bits, False, 'id')
        self.label[next(iter(x.u.t))] = label
        self.vals.append((label, x))
        return x

    def describe(self, T, v):
        if v is None:
            return '<nothing>'
        if not isinstance(v, IntVal):
            return repr(v)
        c = v.const()
        if c is not None:
            return 'the constant %d' % c
        for (label, x) in self.vals:
            if x.w == v.w and same_forms(T, v, x):
                return label
        u = v.u if v.u is not None else v.s
        if u is not None:
            s = repr(u)
            for k, lab in self.label.items():
                s = s.replace(str(k), lab)
            return 'the value ' + s
        return 'an unspecified value'


def same_forms(T, a, b):
    if a.u is not None and b.u is not None:
        return T.cons.entails_eq(a.u, b.u)
    if a.s is not None and b.s is not None:
        return T.cons.entails_eq(a.s, b.s)
    S = T.fork()
    return S.cons.entails_eq(S.force_u(a), S.force_u(b))


def compare(T, actual, expected):
    """-> 'eq' | 'ne' | 'unk'  (expected: IntVal of the same width, or a python int)"""
    if isinstance(actual, CondVal) and actual.k == 'const':
        actual = mk_const(1, 1 if actual.args[0] else 0)
    if not isinstance(actual, IntVal):
        return 'unk'
    if isinstance(expected, int):
        c = actual.const()
        if c is not None:
            return 'eq' if c == expected % (1 << actual.w) else 'ne'
        expected = mk_const(actual.w, expected)
    if same_forms(T, actual, expected):
        return 'eq'
    for l in (actual.u, actual.s):
        if l is not None:
            for sy in l.t:
                if not determinate(sy):
                    return 'unk'
    if actual.u is None and actual.s is None:
        return 'unk'
    return 'ne'


class Scen(ContractRun):
    """one interpretation of a function from a hand-built entry state; the returns are kept for the caller"""

    def __init__(self, interp, struct_specs):
        ContractRun.__init__(self, interp, struct_specs)
        self.rets = []

    def check_return(self, fn, spec, env, struct_params, T, rv, posts=None):
        self.rets.append((T, rv, struct_params))


def interpret(mod, fname, sspecs, setup, ctor=False, dtor=False, externals=None, peel=12, interp_cls=CInterp, hooks=None):
    """-> (interp, [(T, rv, struct_params)], args)"""
    it = interp_cls(mod, externals=externals)
    it.max_peel = peel
    it.max_peel_states = 16
    if hooks:
        hooks(it)
    run = Scen(it, sspecs)
    spec = FnSpec(setup=setup, ctor=ctor, dtor=dtor)
    fn = mod.fn(fname)
    if fn is None or fn.decl:
        raise AnalysisBroken('function %s not found (anchor vanished?) in %s' % (fname, mod.path))
    try:
        run.run(fname, spec, fn=fn)
    finally:
        it.stack = []
        # an access outside its object in a scenario is a verdict of its own, whatever becomes of the scenario afterwards (the
        # interpreter continues on the in-bounds assumption, which usually leaves no path: "loop not decided")
        for ob in it.obligs.values():
            if ob.kind.startswith('bounds:') and not ob.ok:
                OOB.append((fname, ob.where, ob.detail))
    if it.unknown_calls:
        raise Unres('call(s) to function(s) that are not analysed: %s' % sorted(it.unknown_calls))
    for ob in it.obligs.values():
        if ob.kind == 'deref-null' and not ob.ok:
            raise Unres('a path dereferences a null pointer and is dropped by the interpreter (%s)' % ob.detail)
    if not run.rets:
        raise Unres('no path reaches a return')
    return it, run.rets, run.last_args


class Verdicts:
    """clause results of one function, merged over scenarios; a scenario that is not analysable is kept apart"""

    def __init__(self, rep, rule, function, where):
        self.rep, self.rule, self.function, self.where = rep, rule, function, where
        self.unresolved = []
        self.scenarios = 0
        self.returns = 0

    def clause(self, key, verdict, scen, detail):
        """verdict: 'eq'/'ne'/'unk' or bool"""
        if verdict == 'unk':
            raise Unres('%s: not decided (%s)' % (key, detail))
        ok = verdict is True or verdict == 'eq'
        self.rep.inst(self.rule + ':content', self.function, key, ok, self.where,
                      None if ok else 'scenario {%s}: %s' % (scen, detail), fact={'scenario': scen})

    def done(self, extra_fact=None):
        for u in self.unresolved:
            print('NOTE %s %s: scenario not analysable, no verdict: %s' % (self.rule, self.function, u))
        if not self.unresolved:
            f = {'scenarios': self.scenarios, 'returns': self.returns}
            f.update(extra_fact or {})
            self.rep.inst(self.rule + ':analysed', self.function, 'every-scenario-analysed', True, self.where, fact=f)
        st = self.rep.extra.setdefault('content', {})
        st['%s %s' % (self.rule, self.function)] = {'scenarios': self.scenarios, 'returns_checked': self.returns,
                                                      'unresolved': self.unresolved[:8]}


def where_of(repo, fn):
    return '%s:%d' % (relpath(repo, fn.file), fn.line)


# ----------------------------------------------------------------------------------------------------------------
# reference queue arithmetic
# ----------------------------------------------------------------------------------------------------------------
def avail_of(N, h, t):
    return (h - t) % N


def room_of(N, h, t):
    return N - 1 - avail_of(N, h, t)


def sizes(tier):
    return (2, 3, 4, 5) if tier != 'thorough' else (2, 3, 4, 5, 6, 7)


# ----------------------------------------------------------------------------------------------------------------
# A. datastruct/ring.h: ring_putc / ring_getc / ring_write / ring_read over a byte buffer
# ----------------------------------------------------------------------------------------------------------------
def ring_spec(N, h, t):
    return StructSpec(RING_HEAD, fixed={'head': h, 'tail': t, 'size': N})


def byte_obj(st, ids, n, name, label):
    """a caller-owned array of n bytes, every byte an identity of its own"""
    o = st.new_obj('param', Lin(n), name, {'desc': '%s[%d]' % (name, n)})
    cells = []
    for k in range(n):
        x = ids.new(st, '%s[%d]' % (label, k))
        st.mem[(o.id, k, 1)] = x
        cells.append(x)
    return o, cells


def cell(T, oid, k, size=1):
    return T.mem.get((oid, k, size))


def read_field(mod, T, o, sname, field):
    for m in mod.flat_fields(sname):
        if m['name'] == field:
            return T.mem.get((o.id, m['off'], m['ty']['size']))
    raise AnalysisBroken('field %s of %s vanished' % (field, sname))


def check_counters(V, mod, T, o, sname, prefix, want, scen, pre='', what='the ring'):
    """want: dict field -> expected constant"""
    for f, w in want.items():
        v = read_field(mod, T, o, sname, pre + f)
        r = compare(T, v, w)
        got = v.const() if isinstance(v, IntVal) else None
        V.clause('%s:%s' % (prefix, f), r, scen, 'at return %s of %s is %s, the reference queue has %d'
                 % (f, what, got if got is not None else repr(v), w))


def check_cells(V, ids, T, oid, esz, want, key, scen, what):
    """want: list (per slot) of expected IntVal; one clause for the whole array, first difference described"""
    worst = 'eq'
    detail = None
    for k, w in enumerate(want):
        if w is None:
            continue                # a slot outside the queue: any value
        v = cell(T, oid, k * esz, esz)
        r = compare(T, v, w) if v is not None else 'unk'
        if r == 'ne' and worst != 'ne':
            worst = 'ne'
            detail = '%s[%d] holds %s at return, the reference has %s' % (what, k, ids.describe(T, v), ids.describe(T, w))
        elif r == 'unk' and worst == 'eq':
            worst = 'unk'
            detail = '%s[%d] is not decided at return (%r)' % (what, k, v)
    V.clause(key, worst, scen, detail)


def c_ring_scenarios(rep, repo, tier, mod):
    fns = {n: mod.fn(n) for n in ('ring_putc', 'ring_getc', 'ring_write', 'ring_read')}
    for n, f in fns.items():
        if f is None or f.decl:
            raise AnalysisBroken('%s not found in %s (anchor vanished)' % (n, mod.path))
    arity = {'ring_putc': 3, 'ring_getc': 2, 'ring_write': 4, 'ring_read': 4}
    for n, f in fns.items():
        if len(f.params) != arity[n] or tyname(f.params[0]['ty'].get('elem', '')) != RING_HEAD:
            raise AnalysisBroken('%s: signature changed (%d parameters)' % (n, len(f.params)))
    rule = 'R-FIFO-C'
    Vs = {n: Verdicts(rep, rule, n, where_of(repo, f)) for n, f in fns.items()}
    table = {}       # (N, h, t) -> {'put': (stored slot, h', t', ret), 'get': (read slot, h', t')}  as interpreted

    def scenario(name, N, h, t, n_data, body):
        V = Vs[name]
        scen = 'size=%d head=%d tail=%d' % (N, h, t) + ('' if n_data is None else ' n=%d' % n_data)
        V.scenarios += 1
        ids = Ids()
        box = {}

        def setup(run, st, env, names, args, sps):
            o, cells = byte_obj(st, ids, N, 'buffer', 'old buffer')
            args[1] = PtrVal(o.id, Lin(0))
            box['buf'], box['cells'] = o, cells
            if name == 'ring_putc':
                box['c'] = ids.new(st, 'the argument c')
                args[2] = box['c']
            if n_data is not None:
                d, dc = byte_obj(st, ids, n_data, 'data', 'old data')
                args[2] = PtrVal(d.id, Lin(0))
                args[3] = mk_const(fns[name].params[3]['ty']['bits'], n_data)
                box['data'], box['dcells'] = d, dc
        try:
            it, rets, _a = interpret(mod, name, [ring_spec(N, h, t)], setup, peel=N + 4)
            for (T, rv, sps) in rets:
                V.returns += 1
                ro = [sp for sp in sps if sp[2] is not None][0][1]
                body(V, ids, box, T, rv, ro, scen)
        except AnalysisBroken as e:
            V.unresolved.append('{%s}: %s' % (scen, e))

    for N in sizes(tier):
        for h in range(N):
            for t in range(N):
                full = room_of(N, h, t) == 0
                empty = h == t

                def put_body(V, ids, box, T, rv, ro, scen, N=N, h=h, t=t, full=full):
                    cells, c = box['cells'], box['c']
                    if full:
                        V.clause('full:returns-0', compare(T, rv, 0), scen,
                                 'ring_putc on a full ring returns %s, expected 0' % ids.describe(T, rv))
                        check_counters(V, mod, T, ro, RING_HEAD, 'full:unchanged', {'head': h, 'tail': t, 'size': N}, scen)
                        check_cells(V, ids, T, box['buf'].id, 1, cells, 'full:no-slot-written', scen, 'buffer')
                    else:
                        V.clause('put:returns-1', compare(T, rv, 1), scen,
                                 'ring_putc with room returns %s, expected 1' % ids.describe(T, rv))
                        want = list(cells)
                        want[h] = c
                        v = cell(T, box['buf'].id, h)
                        V.clause('put:argument-stored-in-slot-head', compare(T, v, c) if v is not None else 'unk', scen,
                                 'slot[head=%d] holds %s after the put, expected the argument c' % (h, ids.describe(T, v)))
                        check_cells(V, ids, T, box['buf'].id, 1, want, 'put:no-other-slot-written', scen, 'buffer')
                        check_counters(V, mod, T, ro, RING_HEAD, 'put:advance', {'head': (h + 1) % N, 'tail': t, 'size': N},
                                       scen)
                    hv = read_field(mod, T, ro, RING_HEAD, 'head')
                    tv = read_field(mod, T, ro, RING_HEAD, 'tail')
                    slot = [k for k in range(N) if cell(T, box['buf'].id, k) is not None and
                            compare(T, cell(T, box['buf'].id, k), c) == 'eq']
                    table.setdefault((N, h, t), {})['put'] = (slot, hv.const() if isinstance(hv, IntVal) else None,
                                                              tv.const() if isinstance(tv, IntVal) else None,
                                                              rv.const() if isinstance(rv, IntVal) else None)

                def get_body(V, ids, box, T, rv, ro, scen, N=N, h=h, t=t, empty=empty):
                    cells = box['cells']
                    if empty:
                        V.clause('empty:returns-minus-1', compare(T, rv, -1), scen,
                                 'ring_getc on an empty ring returns %s, expected -1' % ids.describe(T, rv))
                        check_counters(V, mod, T, ro, RING_HEAD, 'empty:unchanged', {'head': h, 'tail': t, 'size': N}, scen)
                    else:
                        # the result is the byte of slot[tail] as an unsigned char, widened to int
                        want = IntVal(32, cells[t].u, cells[t].u)
                        V.clause('get:returns-value-of-slot-tail', compare(T, rv, want), scen,
                                 'ring_getc returns %s, expected the byte of slot[tail=%d] (0..255)' % (ids.describe(T, rv), t))
                        check_counters(V, mod, T, ro, RING_HEAD, 'get:advance', {'head': h, 'tail': (t + 1) % N, 'size': N},
                                       scen)
                    check_cells(V, ids, T, box['buf'].id, 1, cells, 'get:no-slot-written', scen, 'buffer')
                    hv = read_field(mod, T, ro, RING_HEAD, 'head')
                    tv = read_field(mod, T, ro, RING_HEAD, 'tail')
                    slot = [k for k in range(N) if isinstance(rv, IntVal) and
                            compare(T, rv, IntVal(32, cells[k].u, cells[k].u)) == 'eq']
                    table.setdefault((N, h, t), {})['get'] = (slot, hv.const() if isinstance(hv, IntVal) else None,
                                                              tv.const() if isinstance(tv, IntVal) else None,
                                                              rv.sconst() if isinstance(rv, IntVal) else None)

                scenario('ring_putc', N, h, t, None, put_body)
                scenario('ring_getc', N, h, t, None, get_body)
                for n in range(0, N + 2):
                    kw = min(n, room_of(N, h, t))
                    kr = min(n, avail_of(N, h, t))

                    def write_body(V, ids, box, T, rv, ro, scen, N=N, h=h, t=t, n=n, k=kw):
                        cells, dc = box['cells'], box['dcells']
                        V.clause('write:returns-min-of-n-and-room', compare(T, rv, k), scen,
                                 'ring_write of %d byte(s) into a ring with room %d returns %s, expected %d'
                                 % (n, room_of(N, h, t), ids.describe(T, rv), k))
                        want = list(cells)
                        for j in range(k):
                            want[(h + j) % N] = dc[j]
                        check_cells(V, ids, T, box['buf'].id, 1, want, 'write:slots-hold-data-in-order', scen, 'buffer')
                        check_cells(V, ids, T, box['data'].id, 1, dc, 'write:source-unchanged', scen, 'data')
                        check_counters(V, mod, T, ro, RING_HEAD, 'write:advance', {'head': (h + k) % N, 'tail': t, 'size': N},
                                       scen)

                    def read_body(V, ids, box, T, rv, ro, scen, N=N, h=h, t=t, n=n, k=kr):
                        cells, dc = box['cells'], box['dcells']
                        V.clause('read:returns-min-of-n-and-avail', compare(T, rv, k), scen,
                                 'ring_read of %d byte(s) from a ring holding %d returns %s, expected %d'
                                 % (n, avail_of(N, h, t), ids.describe(T, rv), k))
                        want = list(dc)
                        for j in range(k):
                            want[j] = cells[(t + j) % N]
                        check_cells(V, ids, T, box['data'].id, 1, want, 'read:data-holds-slots-in-order', scen, 'data')
                        check_cells(V, ids, T, box['buf'].id, 1, cells, 'read:no-slot-written', scen, 'buffer')
                        check_counters(V, mod, T, ro, RING_HEAD, 'read:advance', {'head': h, 'tail': (t + k) % N, 'size': N},
                                       scen)

                    scenario('ring_write', N, h, t, n, write_body)
                    scenario('ring_read', N, h, t, n, read_body)
    for V in Vs.values():
        V.done()
    return table, Vs


# ----------------------------------------------------------------------------------------------------------------
# B. container/ring.h igris::ring<int> / igris::ring<char>, container/cyclic_buffer.h igris::cyclic_buffer<int>
# ----------------------------------------------------------------------------------------------------------------
def this_struct(fn):
    for p in fn.params:
        if p['name'] == 'this' or (p['ty']['k'] == 'ptr' and tyname(p['ty'].get('elem', '')).startswith('class.igris::')):
            return p['name'], tyname(p['ty']['elem'])
    raise AnalysisBroken('%s has no object parameter' % fn.name)


def field_cell(mod, sname, field):
    for m in mod.flat_fields(sname):
        if m['name'] == field:
            return m
    raise AnalysisBroken('field %s of %s vanished' % (field, sname))


def elem_obj(st, ids, n, esz, name, label):
    """storage of n elements of esz bytes, every element an identity of its own"""
    o = st.new_obj('heap', Lin(n * esz), name, {'desc': '%s[%d]' % (name, n)})
    cells = []
    for k in range(n):
        x = ids.new(st, '%s[%d]' % (label, k), 8 * esz)
        st.mem[(o.id, k * esz, esz)] = x
        cells.append(x)
    return o, cells


def install_buffer(mod, st, ids, sps, pname, sname, ptr_field, n, esz, box, label='old slot'):
    """replace the block behind <ptr_field> of the object parameter by identity-carrying storage"""
    so = [sp for sp in sps if sp[0] == pname][0][1]
    m = field_cell(mod, sname, ptr_field)
    o, cells = elem_obj(st, ids, n, esz, 'storage', label)
    st.mem[(so.id, m['off'], 8)] = PtrVal(o.id, Lin(0), None, None, True)
    box['buf'], box['cells'], box['this'] = o, cells, so


def check_ref(V, T, rv, box, esz, slot, key, scen, what):
    if not isinstance(rv, PtrVal) or rv.is_null:
        V.clause(key, 'unk', scen, 'the result is not a pointer value (%r)' % (rv,))
        return
    ok = rv.obj == box['buf'].id and T.cons.entails_eq(rv.off, slot * esz)
    if not ok and not (rv.obj == box['buf'].id and rv.off.is_const()):
        if rv.obj == box['buf'].id:
            V.clause(key, 'unk', scen, 'the offset of the returned reference is not decided (%r)' % rv.off)
            return
    got = 'slot %s' % (rv.off.c // esz if rv.off.c % esz == 0 else 'at byte %d' % rv.off.c) if rv.obj == box['buf'].id \
        else 'an object that is not the storage of the ring'
    V.clause(key, ok, scen, '%s designates %s, the reference queue has slot %d' % (what, got, slot))


def xx_counters(V, mod, T, box, sname, prefix, h, t, N, scen):
    want = {'r.head': h, 'r.tail': t, 'r.size': N, 'buffer.m_size': N}
    check_counters(V, mod, T, box['this'], sname, prefix, want, scen)
    m = field_cell(mod, sname, 'buffer.m_data')
    pv = T.mem.get((box['this'].id, m['off'], 8))
    ok = isinstance(pv, PtrVal) and pv.obj == box['buf'].id and pv.off.is_const() and pv.off.c == 0
    V.clause('%s:buffer.m_data' % prefix, ok, scen, 'the ring no longer points to the start of its storage (%r)' % (pv,))


def ringxx_scenarios(rep, repo, tier, mod):
    R = 'igris::ring<int'
    rule = 'R-FIFO-XX'
    names = {
        'push': cxx(mod, R, 'push'), 'emplace': cxx(mod, R, 'emplace'), 'pop': cxx(mod, R, 'pop'),
        'clear': cxx(mod, R, 'clear'), 'get': cxx(mod, R, 'get'), 'head_place': cxx(mod, R, 'head_place'),
        'fixup_index': cxx(mod, R, 'fixup_index'), 'distance': cxx(mod, R, 'distance'),
        'set_last_index': cxx(mod, R, 'set_last_index'),
        'tail': fn_named(mod, 'igris_verif_ring_tail'), 'last': fn_named(mod, 'igris_verif_ring_last'),
    }
    Vs = {}
    for k, n in names.items():
        f = mod.fn(n)
        Vs[k] = Verdicts(rep, rule, 'igris::ring<int>::' + k, where_of(repo, f))
    table = {}
    ESZ = 4

    def scenario(k, N, h, t, extra, prep, body):
        V = Vs[k]
        fn = mod.fn(names[k])
        pname, sname = this_struct(fn)
        scen = 'size=%d head=%d tail=%d' % (N, h, t) + (' ' + extra if extra else '')
        V.scenarios += 1
        ids = Ids()
        box = {}
        spec = StructSpec(sname, fixed={'r.head': h, 'r.tail': t, 'r.size': N, 'buffer.m_size': N},
                          owns={'buffer.m_data': '%d' % (N * ESZ)})

        def setup(run, st, env, pnames, args, sps):
            install_buffer(mod, st, ids, sps, pname, sname, 'buffer.m_data', N, ESZ, box)
            if prep:
                prep(st, ids, box, pnames, args, fn)
        try:
            it, rets, _a = interpret(mod, names[k], [spec], setup, peel=N + 4)
            for (T, rv, sps) in rets:
                V.returns += 1
                body(V, ids, box, T, rv, sname, scen)
        except AnalysisBroken as e:
            V.unresolved.append('{%s}: %s' % (scen, e))

    def value_arg(st, ids, box, pnames, args, fn):
        """the element argument: an int passed by reference (caller-owned)"""
        idx = [n for n, p in enumerate(fn.params) if p['name'] != 'this' and p['ty']['k'] == 'ptr']
        if len(idx) != 1:
            raise AnalysisBroken('%s: expected one element argument passed by reference' % fn.name)
        x = ids.new(st, 'the argument', 32)
        o = st.new_obj('param', Lin(4), 'value', {'desc': 'element argument'})
        st.mem[(o.id, 0, 4)] = x
        args[idx[0]] = PtrVal(o.id, Lin(0))
        box['c'], box['cobj'] = x, o

    def int_args(*vals):
        def prep(st, ids, box, pnames, args, fn):
            idx = [n for n, p in enumerate(fn.params) if p['name'] != 'this' and p['ty']['k'] == 'int']
            if len(idx) != len(vals):
                raise AnalysisBroken('%s: expected %d integer parameter(s)' % (fn.name, len(vals)))
            for i, v in zip(idx, vals):
                args[i] = mk_const(fn.params[i]['ty']['bits'], v)
        return prep

    for N in sizes(tier):
        for h in range(N):
            for t in range(N):
                full = room_of(N, h, t) == 0
                empty = h == t
                for k in ('push', 'emplace'):
                    if full:
                        continue        # precondition of the typed ring: room() > 0 (it has no refusal)

                    def push_body(V, ids, box, T, rv, sname, scen, N=N, h=h, t=t, k=k):
                        cells, c = box['cells'], box['c']
                        want = list(cells)
                        want[h] = c
                        v = cell(T, box['buf'].id, h * ESZ, ESZ)
                        V.clause('push:argument-stored-in-slot-head', compare(T, v, c) if v is not None else 'unk', scen,
                                 'slot[head=%d] holds %s after %s, expected the argument' % (h, ids.describe(T, v), k))
                        check_cells(V, ids, T, box['buf'].id, ESZ, want, 'push:no-other-slot-written', scen, 'slot')
                        xx_counters(V, mod, T, box, sname, 'push:advance', (h + 1) % N, t, N, scen)
                        av = cell(T, box['cobj'].id, 0, 4)
                        V.clause('push:argument-unchanged', compare(T, av, c) if av is not None else 'unk', scen,
                                 'the argument holds %s after %s' % (ids.describe(T, av), k))
                        if k == 'push':
                            slot = [j for j in range(N) if cell(T, box['buf'].id, j * ESZ, ESZ) is not None and
                                    compare(T, cell(T, box['buf'].id, j * ESZ, ESZ), c) == 'eq']
                            hv = read_field(mod, T, box['this'], sname, 'r.head')
                            tv = read_field(mod, T, box['this'], sname, 'r.tail')
                            table.setdefault((N, h, t), {})['put'] = (slot, hv.const() if isinstance(hv, IntVal) else None,
                                                                      tv.const() if isinstance(tv, IntVal) else None, 1)
                    scenario(k, N, h, t, None, value_arg, push_body)
                if full:
                    table.setdefault((N, h, t), {})['put'] = ([], h, t, 0)      # by precondition: never called
                if not empty:
                    def pop_body(V, ids, box, T, rv, sname, scen, N=N, h=h, t=t):
                        # the popped slot leaves the queue: it may be reset, no other slot may change
                        want = list(box['cells'])
                        want[t] = None
                        check_cells(V, ids, T, box['buf'].id, ESZ, want, 'pop:no-other-slot-written', scen, 'slot')
                        xx_counters(V, mod, T, box, sname, 'pop:advance', h, (t + 1) % N, N, scen)
                        hv = read_field(mod, T, box['this'], sname, 'r.head')
                        tv = read_field(mod, T, box['this'], sname, 'r.tail')
                        table.setdefault((N, h, t), {})['pop'] = (hv.const() if isinstance(hv, IntVal) else None,
                                                                  tv.const() if isinstance(tv, IntVal) else None)
                    scenario('pop', N, h, t, None, None, pop_body)

                    def tail_body(V, ids, box, T, rv, sname, scen, N=N, h=h, t=t):
                        check_ref(V, T, rv, box, ESZ, t, 'tail:designates-slot-tail', scen, 'tail()')
                        check_cells(V, ids, T, box['buf'].id, ESZ, box['cells'], 'tail:no-slot-written', scen, 'slot')
                        xx_counters(V, mod, T, box, sname, 'tail:unchanged', h, t, N, scen)
                        slot = [rv.off.c // ESZ] if isinstance(rv, PtrVal) and rv.obj == box['buf'].id and rv.off.is_const() else []
                        table.setdefault((N, h, t), {})['tailslot'] = slot
                    scenario('tail', N, h, t, None, None, tail_body)

                    def last_body(V, ids, box, T, rv, sname, scen, N=N, h=h, t=t):
                        check_ref(V, T, rv, box, ESZ, (h - 1) % N, 'last:designates-slot-before-head', scen, 'last()')
                        check_cells(V, ids, T, box['buf'].id, ESZ, box['cells'], 'last:no-slot-written', scen, 'slot')
                        xx_counters(V, mod, T, box, sname, 'last:unchanged', h, t, N, scen)
                    scenario('last', N, h, t, None, None, last_body)
                else:
                    table.setdefault((N, h, t), {})['get'] = ([], h, t, -1)     # by precondition: never called

                def clear_body(V, ids, box, T, rv, sname, scen, N=N, h=h, t=t):
                    want = list(box['cells'])
                    for j in range(avail_of(N, h, t)):
                        want[(t + j) % N] = None
                    check_cells(V, ids, T, box['buf'].id, ESZ, want, 'clear:no-slot-outside-the-queue-written', scen, 'slot')
                    xx_counters(V, mod, T, box, sname, 'clear:empty-at-head', h, h, N, scen)
                scenario('clear', N, h, t, None, None, clear_body)

                def hp_body(V, ids, box, T, rv, sname, scen, N=N, h=h, t=t):
                    check_ref(V, T, rv, box, ESZ, h, 'head_place:designates-slot-head', scen, 'head_place()')
                    xx_counters(V, mod, T, box, sname, 'head_place:unchanged', h, t, N, scen)
                scenario('head_place', N, h, t, None, None, hp_body)
        # accessors that do not depend on (head, tail): one state, every argument
        h, t = N - 1, 0
        for i in range(N):
            def get_body(V, ids, box, T, rv, sname, scen, N=N, i=i, h=h, t=t):
                check_ref(V, T, rv, box, ESZ, i, 'get:designates-slot-index', scen, 'get(%d)' % i)
                xx_counters(V, mod, T, box, sname, 'get:unchanged', h, t, N, scen)
            scenario('get', N, h, t, 'index=%d' % i, int_args(i), get_body)

            def sli_body(V, ids, box, T, rv, sname, scen, N=N, i=i, h=h, t=t):
                check_cells(V, ids, T, box['buf'].id, ESZ, box['cells'], 'set_last_index:no-slot-written', scen, 'slot')
                xx_counters(V, mod, T, box, sname, 'set_last_index:head-follows-index', (i + 1) % N, t, N, scen)
            scenario('set_last_index', N, h, t, 'idx=%d' % i, int_args(i), sli_body)
        for i in range(-2 * N - 1, 2 * N + 2):
            def fx_body(V, ids, box, T, rv, sname, scen, N=N, i=i, h=h, t=t):
                V.clause('fixup_index:is-index-modulo-size', compare(T, rv, i % N), scen,
                         'fixup_index(%d) returns %s, the reference is %d' % (i, ids.describe(T, rv), i % N))
            scenario('fixup_index', N, h, t, 'index=%d' % i, int_args(i), fx_body)
        for a in range(N):
            for b in range(N):
                def di_body(V, ids, box, T, rv, sname, scen, N=N, a=a, b=b):
                    V.clause('distance:is-difference-modulo-size', compare(T, rv, (a - b) % N), scen,
                             'distance(%d, %d) returns %s, the reference is %d' % (a, b, ids.describe(T, rv), (a - b) % N))
                scenario('distance', N, h, t, 'a=%d b=%d' % (a, b), int_args(a, b), di_body)
    for key, ent in table.items():
        # the 'get' of the typed ring is tail() followed by pop()
        if 'tailslot' in ent and 'pop' in ent:
            ent['get'] = (ent['tailslot'], ent['pop'][0], ent['pop'][1], 0)
    for V in Vs.values():
        V.done()
    return table, Vs


def get_last_scenarios(rep, repo, tier, mod):
    """igris::ring<int>::get_last(offset, count, order_from_end) -> std::vector<int>: the count elements that end offset
    elements before the newest one, newest first (order_from_end) or oldest first.  std::vector<int> is interpreted as
    compiled (libstdc++: begin / end / end-of-storage pointers at bytes 0 / 8 / 16 of the object)."""
    R = 'igris::ring<int'
    name = cxx(mod, R, 'get_last')
    fn = mod.fn(name)
    V = Verdicts(rep, 'R-FIFO-XX', 'igris::ring<int>::get_last', where_of(repo, fn))
    ps = [p for p in fn.params if not p.get('sret') and p['name'] != 'this']
    if len(ps) != 3 or [p['ty']['k'] for p in ps] != ['int', 'int', 'int'] or ps[2]['ty']['bits'] != 1 or \
            not fn.params[0].get('sret'):
        raise AnalysisBroken('igris::ring<int>::get_last: signature changed')
    pname, sname = this_struct(fn)
    ESZ = 4
    for N in sizes(tier)[:4]:
        for h in range(N):
            t = (h + 1) % N
            for offset in range(N):
                for count in range(N + 1 - offset):
                    for from_end in (True, False):
                        scen = 'size=%d head=%d offset=%d count=%d order_from_end=%s' % (N, h, offset, count, from_end)
                        V.scenarios += 1
                        ids = Ids()
                        box = {}
                        spec = StructSpec(sname, fixed={'r.head': h, 'r.tail': t, 'r.size': N, 'buffer.m_size': N},
                                          owns={'buffer.m_data': '%d' % (N * ESZ)})

                        def setup(run, st, env, pnames, args, sps, box=box, ids=ids):
                            install_buffer(mod, st, ids, sps, pname, sname, 'buffer.m_data', N, ESZ, box)
                            k = [n for n, p in enumerate(fn.params) if not p.get('sret') and p['name'] != 'this']
                            args[k[0]] = mk_const(32, offset)
                            args[k[1]] = mk_const(32, count)
                            args[k[2]] = CondVal('const', from_end)
                            box['sret'] = args[0]
                        try:
                            it, rets, _a = interpret(mod, name, [spec], setup, peel=N + 6)
                            for (T, rv, sps) in rets:
                                V.returns += 1
                                so = box['sret'].obj
                                b, e = T.mem.get((so, 0, 8)), T.mem.get((so, 8, 8))
                                if count == 0:
                                    ok = isinstance(b, PtrVal) and isinstance(e, PtrVal) and b.obj == e.obj and \
                                        T.cons.entails_eq(b.off, e.off)
                                    V.clause('get_last:length-is-count', ok if isinstance(b, PtrVal) and isinstance(e, PtrVal)
                                             else 'unk', scen, 'the result is not an empty vector (%r, %r)' % (b, e))
                                    continue
                                if not (isinstance(b, PtrVal) and isinstance(e, PtrVal) and not b.is_null and b.obj == e.obj and
                                        b.off.is_const() and e.off.is_const()):
                                    raise Unres('the returned vector is not decided (begin %r, end %r)' % (b, e))
                                n = (e.off.c - b.off.c) // ESZ
                                V.clause('get_last:length-is-count', n == count, scen,
                                         'the result has %d element(s), expected %d' % (n, count))
                                if n != count:
                                    continue
                                worst, detail = 'eq', None
                                for i in range(count):
                                    src = (h - 1 - offset - i) % N if from_end else (h - count - offset + i) % N
                                    v = T.mem.get((b.obj, b.off.c + i * ESZ, ESZ))
                                    r = compare(T, v, box['cells'][src]) if v is not None else 'unk'
                                    if r == 'ne' and worst != 'ne':
                                        worst = 'ne'
                                        detail = 'result[%d] holds %s, the reference has slot[%d]' % (i, ids.describe(T, v), src)
                                    elif r == 'unk' and worst == 'eq':
                                        worst, detail = 'unk', 'result[%d] is not decided (%r)' % (i, v)
                                V.clause('get_last:elements-in-order', worst, scen, detail)
                                check_cells(V, ids, T, box['buf'].id, ESZ, box['cells'], 'get_last:no-slot-written', scen, 'slot')
                                xx_counters(V, mod, T, box, sname, 'get_last:unchanged', h, t, N, scen)
                        except AnalysisBroken as ex:
                            V.unresolved.append('{%s}: %s' % (scen, ex))
    V.done()
    return V


# ----------------------------------------------------------------------------------------------------------------
# cyclic_buffer<int>: push / operator[] (i-th previous sample) / size / resize / constructor
# ----------------------------------------------------------------------------------------------------------------
def cyclic_scenarios(rep, repo, tier, mod):
    Y = 'igris::cyclic_buffer<int'
    rule = 'R-FIFO-CYCLIC'
    names = {'push': cxx(mod, Y, 'push'), 'operator[]': cxx(mod, Y, 'operator[]', nth=0),
             'operator[] const': cxx(mod, Y, 'operator[]', nth=1), 'size': cxx(mod, Y, 'size'),
             'resize': cxx(mod, Y, 'resize'), 'cyclic_buffer': cxx(mod, Y, 'cyclic_buffer')}
    if not names['operator[] const'].startswith('_ZNK'):
        names['operator[]'], names['operator[] const'] = names['operator[] const'], names['operator[]']
    Vs = {k: Verdicts(rep, rule, 'igris::cyclic_buffer<int>::' + k, where_of(repo, mod.fn(n))) for k, n in names.items()}
    ESZ = 4
    Ns = (1,) + tuple(sizes(tier))
    table = {}

    def scenario(k, N, c, filled, extra, prep, body, ctor=False):
        V = Vs[k]
        fn = mod.fn(names[k])
        pname, sname = this_struct(fn)
        scen = ('size=%d counter=%d filled=%d' % (N, c, filled) if not ctor else 'constructor') + (' ' + extra if extra else '')
        V.scenarios += 1
        ids = Ids()
        box = {}
        spec = StructSpec(sname, fixed={} if ctor else {'counter.counter': c, 'counter.size': N, 'data.m_size': N,
                                                        '_size': filled},
                          owns={'data.m_data': '%d' % (N * ESZ)})

        def setup(run, st, env, pnames, args, sps):
            install_buffer(mod, st, ids, sps, pname, sname, 'data.m_data', N, ESZ, box)
            idx = [n for n, p in enumerate(fn.params) if p['name'] != 'this' and p['ty']['k'] == 'int']
            box['iargs'] = idx
            if prep:
                prep(st, ids, box, args, fn, idx)
        try:
            it, rets, _a = interpret(mod, names[k], [spec], setup, ctor=ctor, peel=max(Ns) + 4)
            for (T, rv, sps) in rets:
                V.returns += 1
                body(V, ids, box, T, rv, sname, scen)
        except AnalysisBroken as e:
            V.unresolved.append('{%s}: %s' % (scen, e))

    def state(V, T, box, sname, prefix, c, N, filled, scen, same_block=True):
        check_counters(V, mod, T, box['this'], sname, prefix,
                       {'counter.counter': c, 'counter.size': N, 'data.m_size': N, '_size': filled}, scen,
                       what='the cyclic buffer')
        if same_block:
            m = field_cell(mod, sname, 'data.m_data')
            pv = T.mem.get((box['this'].id, m['off'], 8))
            ok = isinstance(pv, PtrVal) and pv.obj == box['buf'].id and pv.off.is_const() and pv.off.c == 0
            V.clause('%s:data.m_data' % prefix, ok, scen, 'the buffer no longer points to the start of its storage (%r)' % (pv,))

    for N in Ns:
        for c in range(N):
            for filled in sorted(set((0, 1, N - 1, N)) & set(range(N + 1))):
                def push_prep(st, ids, box, args, fn, idx):
                    if len(idx) != 1:
                        raise AnalysisBroken('cyclic_buffer<int>::push: expected one value parameter')
                    box['c'] = ids.new(st, 'the argument', 32)
                    args[idx[0]] = box['c']

                def push_body(V, ids, box, T, rv, sname, scen, N=N, c=c, filled=filled):
                    c2 = (c + 1) % N
                    cells = box['cells']
                    V.clause('push:returns-the-sample-it-replaces', compare(T, rv, cells[c2]), scen,
                             'push returns %s, expected the old value of slot[%d] (the oldest sample)' % (ids.describe(T, rv), c2))
                    want = list(cells)
                    want[c2] = box['c']
                    v = cell(T, box['buf'].id, c2 * ESZ, ESZ)
                    V.clause('push:argument-stored-in-slot-after-counter', compare(T, v, box['c']) if v is not None else 'unk',
                             scen, 'slot[%d] holds %s after push, expected the argument' % (c2, ids.describe(T, v)))
                    check_cells(V, ids, T, box['buf'].id, ESZ, want, 'push:no-other-slot-written', scen, 'slot')
                    state(V, T, box, sname, 'push:advance', c2, N, min(filled + 1, N), scen)
                    cv = read_field(mod, T, box['this'], sname, 'counter.counter')
                    slot = [j for j in range(N) if cell(T, box['buf'].id, j * ESZ, ESZ) is not None and
                            compare(T, cell(T, box['buf'].id, j * ESZ, ESZ), box['c']) == 'eq']
                    table.setdefault((N, c), {})['push'] = (slot, cv.const() if isinstance(cv, IntVal) else None)
                scenario('push', N, c, filled, None, push_prep, push_body)

                def size_body(V, ids, box, T, rv, sname, scen, N=N, c=c, filled=filled):
                    V.clause('size:is-number-of-samples', compare(T, rv, filled), scen,
                             'size() returns %s, the buffer holds %d sample(s)' % (ids.describe(T, rv), filled))
                    state(V, T, box, sname, 'size:unchanged', c, N, filled, scen)
                scenario('size', N, c, filled, None, None, size_body)
            for i in range(0, N + 1):
                for k in ('operator[]', 'operator[] const'):
                    def at_prep(st, ids, box, args, fn, idx, i=i):
                        if len(idx) != 1:
                            raise AnalysisBroken('cyclic_buffer<int>::operator[]: expected one index parameter')
                        args[idx[0]] = mk_const(fn.params[idx[0]]['ty']['bits'], i)

                    def at_body(V, ids, box, T, rv, sname, scen, N=N, c=c, i=i, k=k):
                        src = (c - i) % N
                        V.clause('at:i-th-previous-sample', compare(T, rv, box['cells'][src]), scen,
                                 'operator[](%d) returns %s, the %d-th previous sample is in slot[%d]'
                                 % (i, ids.describe(T, rv), i, src))
                        check_cells(V, ids, T, box['buf'].id, ESZ, box['cells'], 'at:no-slot-written', scen, 'slot')
                        state(V, T, box, sname, 'at:unchanged', c, N, N, scen)
                        if k == 'operator[]':
                            slot = [j for j in range(N) if compare(T, rv, box['cells'][j]) == 'eq'] if isinstance(rv, IntVal) else []
                            table.setdefault((N, c), {}).setdefault('at', {})[i] = slot
                    scenario(k, N, c, N, 'i=%d' % i, at_prep, at_body)
        # resize(n) and the constructor: an empty buffer of n slots
        for n in Ns:
            def rs_prep(st, ids, box, args, fn, idx, n=n):
                if len(idx) != 1:
                    raise AnalysisBroken('cyclic_buffer<int>::resize: expected one size parameter')
                args[idx[0]] = mk_const(fn.params[idx[0]]['ty']['bits'], n)

            def rs_body(V, ids, box, T, rv, sname, scen, n=n, what='resize'):
                state(V, T, box, sname, what + ':empty-buffer-of-n-slots', 0, n, 0, scen, same_block=False)
                m = field_cell(mod, sname, 'data.m_data')
                pv = T.mem.get((box['this'].id, m['off'], 8))
                o = T.objs.get(pv.obj) if isinstance(pv, PtrVal) and not pv.is_null else None
                ok = o is not None and o.size is not None and o.size.is_const() and o.size.c == n * ESZ and \
                    pv.off.is_const() and pv.off.c == 0 and pv.obj != box['buf'].id
                V.clause(what + ':fresh-storage-of-n-slots', ok if o is not None and o.size is not None else 'unk', scen,
                         'the storage after %s(%d) is %r' % (what, n, pv))
            scenario('resize', N, N - 1, N, 'n=%d' % n, rs_prep, rs_body)
            if N == Ns[0]:
                scenario('cyclic_buffer', 1, 0, 0, 'n=%d' % n, rs_prep,
                         lambda V, ids, box, T, rv, sname, scen, n=n: rs_body(V, ids, box, T, rv, sname, scen, n, 'constructor'),
                         ctor=True)
    for V in Vs.values():
        V.done()
    return table, Vs


def cyclic_history(rep, repo, where, table, Ns):
    """from the interpreted tables: after pushes v1..vk into a buffer of N slots, operator[](i) is v(k-i) for i < min(k, N)"""
    for N in Ns:
        bad = None
        for c0 in range(N):
            c = c0
            newest = []         # slots of the pushed samples, newest first
            for step in range(2 * N + 1):
                ent = table.get((N, c))
                if ent is None or 'push' not in ent or 'at' not in ent:
                    bad = 'state counter=%d has no interpreted transition' % c
                    break
                slot, c2 = ent['push']
                if len(slot) != 1 or c2 is None:
                    bad = 'counter=%d: push stores into slot(s) %r' % (c, slot)
                    break
                newest = [slot[0]] + [x for x in newest if x != slot[0]]
                c = c2
                at = table.get((N, c), {}).get('at', {})
                for i in range(min(len(newest), N)):
                    if at.get(i) != [newest[i]]:
                        bad = ('after %d push(es) from counter=%d: operator[](%d) reads slot(s) %r, the %d-th previous sample '
                               'is in slot %d' % (step + 1, c0, i, at.get(i), i, newest[i]))
                        break
                if bad:
                    break
                if step + 1 <= N and len(newest) != step + 1:
                    bad = 'after %d push(es) from counter=%d only %d samples are kept' % (step + 1, c0, len(newest))
                    break
            if bad:
                break
        rep.inst('R-FIFO-HISTORY', 'igris::cyclic_buffer<int>::push/operator[]', 'newest-first-by-induction:size=%d' % N,
                 bad is None, where, None if bad is None else 'size %d: %s' % (N, bad))


def ringc_scenarios(rep, repo, tier, mod):
    """igris::ring<char>::write / read (forwarders to ring_write / ring_read on the object's own buffer)"""
    C = 'igris::ring<char'
    rule = 'R-FIFO-XX'
    names = {'write': cxx(mod, C, 'write'), 'read': cxx(mod, C, 'read')}
    Vs = {k: Verdicts(rep, rule, 'igris::ring<char>::' + k, where_of(repo, mod.fn(n))) for k, n in names.items()}
    for k, n in names.items():
        fn = mod.fn(n)
        if len(fn.params) != 3 or fn.params[1]['ty']['k'] != 'ptr' or fn.params[2]['ty']['k'] != 'int':
            raise AnalysisBroken('igris::ring<char>::%s: signature changed' % k)
    for N in sizes(tier):
        for h in range(N):
            for t in range(N):
                for n in range(0, N + 2):
                    for k in ('write', 'read'):
                        V = Vs[k]
                        fn = mod.fn(names[k])
                        pname, sname = this_struct(fn)
                        scen = 'size=%d head=%d tail=%d n=%d' % (N, h, t, n)
                        V.scenarios += 1
                        ids = Ids()
                        box = {}
                        spec = StructSpec(sname, fixed={'r.head': h, 'r.tail': t, 'r.size': N, 'buffer.m_size': N},
                                          owns={'buffer.m_data': '%d' % N})

                        def setup(run, st, env, pnames, args, sps, fn=fn, pname=pname, sname=sname, box=box, ids=ids, n=n):
                            install_buffer(mod, st, ids, sps, pname, sname, 'buffer.m_data', N, 1, box)
                            d, dc = byte_obj(st, ids, n, 'data', 'old data')
                            args[1] = PtrVal(d.id, Lin(0))
                            args[2] = mk_const(fn.params[2]['ty']['bits'], n)
                            box['data'], box['dcells'] = d, dc
                        try:
                            it, rets, _a = interpret(mod, names[k], [spec], setup, peel=N + 4)
                            for (T, rv, sps) in rets:
                                V.returns += 1
                                cells, dc = box['cells'], box['dcells']
                                if k == 'write':
                                    kk = min(n, room_of(N, h, t))
                                    V.clause('write:returns-min-of-n-and-room', compare(T, rv, kk), scen,
                                             'write of %d element(s) into a ring with room %d returns %s, expected %d'
                                             % (n, room_of(N, h, t), ids.describe(T, rv), kk))
                                    want = list(cells)
                                    for j in range(kk):
                                        want[(h + j) % N] = dc[j]
                                    check_cells(V, ids, T, box['buf'].id, 1, want, 'write:slots-hold-data-in-order', scen, 'slot')
                                    check_cells(V, ids, T, box['data'].id, 1, dc, 'write:source-unchanged', scen, 'data')
                                    xx_counters(V, mod, T, box, sname, 'write:advance', (h + kk) % N, t, N, scen)
                                else:
                                    kk = min(n, avail_of(N, h, t))
                                    V.clause('read:returns-min-of-n-and-avail', compare(T, rv, kk), scen,
                                             'read of %d element(s) from a ring holding %d returns %s, expected %d'
                                             % (n, avail_of(N, h, t), ids.describe(T, rv), kk))
                                    want = list(dc)
                                    for j in range(kk):
                                        want[j] = cells[(t + j) % N]
                                    check_cells(V, ids, T, box['data'].id, 1, want, 'read:data-holds-slots-in-order', scen, 'data')
                                    check_cells(V, ids, T, box['buf'].id, 1, cells, 'read:no-slot-written', scen, 'slot')
                                    xx_counters(V, mod, T, box, sname, 'read:advance', h, (t + kk) % N, N, scen)
                        except AnalysisBroken as e:
                            V.unresolved.append('{%s}: %s' % (scen, e))
    for V in Vs.values():
        V.done()
    return Vs


# ----------------------------------------------------------------------------------------------------------------
# C. element lifetimes and identities of igris::ring<VTr> / igris::cyclic_buffer<VTr> (probe element, witness/probe.h)
#
# Representation invariant of both classes, taken from the buffer class they are built on (unbounded_array<T>(n)
# default-constructs n objects, its destructor / invalidate() destroys m_size objects): EVERY slot of the block in
# buffer.m_data holds an object whenever no member is running.  Events (life_core.py): a constructor needs a RAW slot, a
# destructor / an assignment / a read needs a LIVE one, operator delete needs a block without LIVE slots.
# ----------------------------------------------------------------------------------------------------------------
def _life():
    import life_core as L
    import c14_ident as I
    return L, I


def life_interp_cls():
    L, I = _life()

    class LInterp(ExactMixin, L.LifeInterp):
        pass
    return LInterp


class LifeVerdicts(Verdicts):
    def event(self, key, ok, scen, detail):
        self.rep.inst(self.rule + ':event', self.function, key, ok, self.where,
                      None if ok else 'scenario {%s}: %s' % (scen, detail), fact={'scenario': scen})

    def ret(self, key, ok, scen, detail):
        self.rep.inst(self.rule + ':return', self.function, key, ok, self.where,
                      None if ok else 'scenario {%s}: %s' % (scen, detail), fact={'scenario': scen})


def life_scenario(mod, V, fname, sname_fields, N, ptr_field, scen, prep, body, ctor=False, dtor=False, peel=10):
    """interpret member fname of a class whose storage pointer is <ptr_field>, from the state 'block of N LIVE slots holding
    old[0..N)'; body(tr, box, T, rv, sname) judges one return"""
    L, I = _life()
    fn = mod.fn(fname)
    pname, sname = this_struct(fn)
    tr = I.IdentTracker(mod, {'kind': 'heap'}, None, fn, L.ext_vtr, None)
    ext = {}
    for n in L.EVENTS:
        ext[n] = tr.on_event
    for n in L.NEW_FNS:
        ext[n] = tr.on_new
    for n in L.FREE_FNS:
        ext[n] = tr.on_free
    box = {}
    spec = StructSpec(sname, fixed={} if ctor else sname_fields, owns={ptr_field: '%d' % (N * L.ESZ)})

    def setup(run, st, env, pnames, args, sps):
        so = [sp for sp in sps if sp[0] == pname][0][1]
        box['this'] = so
        life, tags = {}, {}
        if not ctor:
            m = field_cell(mod, sname, ptr_field)
            o = st.new_obj('heap', Lin(N * L.ESZ), 'storage', {'desc': 'the block of %d slots in %s' % (N, ptr_field)})
            st.mem[(so.id, m['off'], 8)] = PtrVal(o.id, Lin(0), None, None, True)
            life[o.id] = (0, L.LIVE * N, 'block', False)
            for k in range(N):
                tags[(o.id, k)] = ('this', k)
            box['buf'] = o
        for n, p in enumerate(fn.params):
            if p.get('sret'):
                # the result object: caller-provided raw storage for one element
                o = st.objs[args[n].obj]
                o.size = Lin(L.ESZ)
                o.info['desc'] = 'the result object'
                life[o.id] = (0, L.RAW, 'local', False)
                box['sret'] = o
            elif p['name'] != pname and p['ty']['k'] == 'ptr' and tyname(p['ty'].get('elem', '')) == 'struct.VTr':
                o = st.objs[args[n].obj]
                o.size = Lin(L.ESZ)
                o.info['life_foreign'] = True
                o.info['ident_src'] = 'arg'
                o.info['desc'] = 'element %s owned by the caller' % p['name']
                box['arg'] = o
        L.g_put(st, life)
        I.t_put(st, tags)
        if prep:
            prep(st, box, args, fn)

    def hooks(it):
        it.ghost_keys = ('life', 'ident')
        it.access_hook = tr.on_access
    V.scenarios += 1
    try:
        it, rets, _a = interpret(mod, fname, [spec], setup, ctor=ctor, dtor=dtor, externals=ext, peel=peel,
                                 interp_cls=life_interp_cls(), hooks=hooks)
        for ob in it.obligs.values():
            if ob.kind == 'ghost-loop-invariant' and not ob.ok:
                raise Unres('a loop that changes slot states is not decided (%s)' % ob.detail)
        for ob in it.obligs.values():
            if ob.kind.startswith('life:'):
                V.event(ob.kind[5:] + ':' + str(ob.objdesc), ob.ok, scen, ob.detail)
        for (T, rv, sps) in rets:
            V.returns += 1
            body(tr, box, T, rv, sname)
    except AnalysisBroken as e:
        V.unresolved.append('{%s}: %s' % (scen, e))


def current_block(mod, T, box, sname, ptr_field):
    """-> (object id, slot states, freed) of the block the object points to at a return; None for nullptr"""
    L, I = _life()
    m = field_cell(mod, sname, ptr_field)
    pv = T.mem.get((box['this'].id, m['off'], 8))
    if not isinstance(pv, PtrVal):
        raise Unres('%s is not a pointer value at a return (%r)' % (ptr_field, pv))
    if pv.is_null:
        return None
    ent = L.g_get(T).get(pv.obj)
    if ent is None or ent[2] != 'block' or not pv.off.is_const() or pv.off.c != ent[0]:
        raise Unres('%s does not point to the start of a tracked block at a return' % ptr_field)
    return pv.obj, ent[1], ent[3]


def judge_blocks(mod, V, T, box, sname, ptr_field, want_slots, scen, dtor=False):
    """the representation invariant at a return + no block leaked / left with objects"""
    L, I = _life()
    cur = None if dtor else current_block(mod, T, box, sname, ptr_field)
    if not dtor:
        if cur is None:
            ok, detail = want_slots == 0, '%s is nullptr at return, expected a block of %d slot(s)' % (ptr_field, want_slots)
        else:
            oid, states, freed = cur
            raw = [k for k, s_ in enumerate(states) if s_ != L.LIVE]
            ok = not freed and not raw and len(states) == want_slots
            detail = None
            if freed:
                detail = '%s still points to a block that was deallocated' % ptr_field
            elif len(states) != want_slots:
                detail = 'the block in %s has %d slot(s), expected %d' % (ptr_field, len(states), want_slots)
            elif raw:
                detail = ('slot(s) %s of the block in %s hold no object at return (segmentation %s), but the buffer class treats '
                          'every slot as an object: its destructor / invalidate() destroys all of them and the next '
                          'assignment assigns to them' % (raw, ptr_field, L.seg(states)))
        V.ret('return:every-slot-of-the-buffer-holds-an-object', ok, scen, detail)
    bad = None
    for oid, ent in sorted(L.g_get(T).items(), key=lambda kv: str(kv[0])):
        if ent[2] != 'block' or (cur is not None and oid == cur[0]):
            continue
        live = [k for k, s_ in enumerate(ent[1]) if s_ == L.LIVE]
        if live:
            bad = 'a block that is no longer referenced still holds LIVE objects in slot(s) %s (%s)' % (live, L.seg(ent[1]))
        elif not ent[3]:
            bad = 'a block that is no longer referenced was not deallocated'
    V.ret('return:dropped-block-is-empty-and-deallocated', bad is None, scen, bad)


def tags_of(T, oid, n):
    L, I = _life()
    t = I.t_get(T)
    return [t.get((oid, k)) for k in range(n)]


def judge_idents(V, T, box, want, key, scen, oid=None):
    """want: list per slot of an identity, or None (any object)"""
    L, I = _life()
    oid = oid or box['buf'].id
    got = tags_of(T, oid, len(want))
    bad = [k for k in range(len(want)) if want[k] is not None and got[k] != want[k]]
    unk = [k for k in bad if got[k] in (I.UNKNOWN, None)]
    if unk and len(unk) == len(bad):
        V.clause(key, 'unk', scen, 'identity of slot %d is not decided' % unk[0])
        return
    V.clause(key, not bad, scen, None if not bad else 'at return the slots hold %s, the reference has %s (first difference at '
             'slot %d)' % (I.fmts(got), '[' + ', '.join('any' if w is None else I.fmt(w) for w in want) + ']', bad[0]))


def ringlife_scenarios(rep, repo, tier, mod):
    L, I = _life()
    L.check_probe(mod)
    R = 'igris::ring<VTr'
    rule = 'R-RINGLIFE'
    emp = [f for f in mod.defined() if f.scope.startswith(R) and f.srcname.startswith('emplace<')]
    emp_int = [f for f in emp if f.params[-1]['ty'].get('elem') == 'i32']
    emp_cp = [f for f in emp if tyname(f.params[-1]['ty'].get('elem', '')) == 'struct.VTr']
    if len(emp_int) != 1 or len(emp_cp) != 1:
        raise AnalysisBroken('igris::ring<VTr>::emplace<int&> / emplace<const VTr&> not instantiated in %s' % mod.path)
    names = {'ring(int)': cxx(mod, R, 'ring', param_count=2), '~ring': cxx(mod, R, '~ring'), 'resize': cxx(mod, R, 'resize'),
             'push': cxx(mod, R, 'push'), 'emplace<int&>': emp_int[0].name, 'emplace<const VTr&>': emp_cp[0].name,
             'pop': cxx(mod, R, 'pop'), 'clear': cxx(mod, R, 'clear'), 'reset': cxx(mod, R, 'reset')}
    Vs = {k: LifeVerdicts(rep, rule, 'igris::ring<VTr>::' + k, where_of(repo, mod.fn(n))) for k, n in names.items()}
    PF = 'buffer.m_data'
    Ns = sizes(tier)[:3] if tier != 'thorough' else sizes(tier)[:4]

    def fields(N, h, t):
        return {'r.head': h, 'r.tail': t, 'r.size': N, 'buffer.m_size': N}

    def counters(V, T, box, sname, prefix, h, t, N, scen):
        check_counters(V, mod, T, box['this'], sname, prefix, {'r.head': h, 'r.tail': t, 'r.size': N, 'buffer.m_size': N}, scen)

    def int_prep(v):
        def prep(st, box, args, fn):
            idx = [n for n, p in enumerate(fn.params) if p['ty']['k'] == 'int']
            if len(idx) != 1:
                raise AnalysisBroken('%s: expected one integer parameter' % fn.name)
            args[idx[0]] = mk_const(fn.params[idx[0]]['ty']['bits'], v)
        return prep

    def intref_prep(v):
        def prep(st, box, args, fn):
            idx = [n for n, p in enumerate(fn.params) if p['ty']['k'] == 'ptr' and p['ty'].get('elem') == 'i32']
            o = st.objs[args[idx[0]].obj]
            o.size = Lin(4)
            st.mem[(o.id, 0, 4)] = mk_const(32, v)
        return prep

    for N in Ns:
        for h in range(N):
            for t in range(N):
                scen = 'size=%d head=%d tail=%d' % (N, h, t)
                old = [('this', k) for k in range(N)]
                if room_of(N, h, t) > 0:
                    for k, val, prep in (('push', I.ARG, None), ('emplace<const VTr&>', I.ARG, None),
                                         ('emplace<int&>', ('int', 7), intref_prep(7))):
                        def body(tr, box, T, rv, sname, k=k, val=val, N=N, h=h, t=t, scen=scen, old=old):
                            V = Vs[k]
                            judge_blocks(mod, V, T, box, sname, PF, N, scen)
                            want = list(old)
                            want[h] = val
                            judge_idents(V, T, box, want, 'push:slot-head-holds-the-argument-others-unchanged', scen)
                            counters(V, T, box, sname, 'push:advance', (h + 1) % N, t, N, scen)
                        life_scenario(mod, Vs[k], names[k], fields(N, h, t), N, PF, scen, prep, body)
                if h != t:
                    def body(tr, box, T, rv, sname, N=N, h=h, t=t, scen=scen, old=old):
                        V = Vs['pop']
                        judge_blocks(mod, V, T, box, sname, PF, N, scen)
                        want = list(old)
                        want[t] = None
                        judge_idents(V, T, box, want, 'pop:no-other-slot-changes', scen)
                        counters(V, T, box, sname, 'pop:advance', h, (t + 1) % N, N, scen)
                    life_scenario(mod, Vs['pop'], names['pop'], fields(N, h, t), N, PF, scen, None, body)

                def body(tr, box, T, rv, sname, N=N, h=h, t=t, scen=scen, old=old):
                    V = Vs['clear']
                    judge_blocks(mod, V, T, box, sname, PF, N, scen)
                    want = list(old)
                    for j in range(avail_of(N, h, t)):
                        want[(t + j) % N] = None
                    judge_idents(V, T, box, want, 'clear:no-slot-outside-the-queue-changes', scen)
                    counters(V, T, box, sname, 'clear:empty-at-head', h, h, N, scen)
                life_scenario(mod, Vs['clear'], names['clear'], fields(N, h, t), N, PF, scen, None, body, peel=N + 4)
        h, t = N - 1, 0
        scen = 'size=%d head=%d tail=%d' % (N, h, t)

        def body(tr, box, T, rv, sname, N=N, scen=scen):
            judge_blocks(mod, Vs['~ring'], T, box, sname, PF, 0, scen, dtor=True)
        life_scenario(mod, Vs['~ring'], names['~ring'], fields(N, h, t), N, PF, scen, None, body, dtor=True, peel=N + 4)

        def body(tr, box, T, rv, sname, N=N, scen=scen, h=h, t=t):
            V = Vs['reset']
            judge_blocks(mod, V, T, box, sname, PF, N, scen)
            judge_idents(V, T, box, [('this', k) for k in range(N)], 'reset:no-slot-changes', scen)
            counters(V, T, box, sname, 'reset:empty-ring-over-the-whole-buffer', 0, 0, N, scen)
        life_scenario(mod, Vs['reset'], names['reset'], fields(N, h, t), N, PF, scen, None, body)
        for n in (1, 2, 3):
            sc = scen + ' sz=%d' % n

            def body(tr, box, T, rv, sname, n=n, sc=sc):
                V = Vs['resize']
                judge_blocks(mod, V, T, box, sname, PF, n + 1, sc)
                cur = current_block(mod, T, box, sname, PF)
                if cur is not None and len(cur[1]) == n + 1 and all(s_ == L.LIVE for s_ in cur[1]):
                    judge_idents(V, T, box, [I.DEFAULT] * (n + 1), 'resize:every-slot-default-constructed', sc, oid=cur[0])
                check_counters(V, mod, T, box['this'], sname, 'resize:empty-ring-of-sz+1-slots',
                               {'r.head': 0, 'r.tail': 0, 'r.size': n + 1, 'buffer.m_size': n + 1}, sc)
            life_scenario(mod, Vs['resize'], names['resize'], fields(N, h, t), N, PF, sc, int_prep(n), body, peel=N + 6)
    for n in (1, 2, 3):
        sc = 'constructor bufsize=%d' % n

        def body(tr, box, T, rv, sname, n=n, sc=sc):
            V = Vs['ring(int)']
            judge_blocks(mod, V, T, box, sname, PF, n + 1, sc)
            cur = current_block(mod, T, box, sname, PF)
            if cur is not None and len(cur[1]) == n + 1 and all(s_ == L.LIVE for s_ in cur[1]):
                judge_idents(V, T, box, [I.DEFAULT] * (n + 1), 'ring:every-slot-default-constructed', sc, oid=cur[0])
            check_counters(V, mod, T, box['this'], sname, 'ring:empty-ring-of-bufsize+1-slots',
                           {'r.head': 0, 'r.tail': 0, 'r.size': n + 1, 'buffer.m_size': n + 1}, sc)
        life_scenario(mod, Vs['ring(int)'], names['ring(int)'], {}, 1, PF, sc, int_prep(n), body, ctor=True, peel=8)
    for V in Vs.values():
        V.done()
    return Vs


def cyclife_scenarios(rep, repo, tier, mod):
    L, I = _life()
    Y = 'igris::cyclic_buffer<VTr'
    rule = 'R-RINGLIFE'
    names = {'cyclic_buffer(size_t)': cxx(mod, Y, 'cyclic_buffer'), '~cyclic_buffer': cxx(mod, Y, '~cyclic_buffer'),
             'push': cxx(mod, Y, 'push'), 'operator[]': cxx(mod, Y, 'operator[]', nth=0),
             'operator[] const': cxx(mod, Y, 'operator[]', nth=1), 'resize': cxx(mod, Y, 'resize')}
    Vs = {k: LifeVerdicts(rep, rule, 'igris::cyclic_buffer<VTr>::' + k, where_of(repo, mod.fn(n))) for k, n in names.items()}
    PF = 'data.m_data'
    Ns = (1, 2, 3) if tier != 'thorough' else (1, 2, 3, 4)

    def fields(N, c, filled):
        return {'counter.counter': c, 'counter.size': N, 'data.m_size': N, '_size': filled}

    def int_prep(v):
        def prep(st, box, args, fn):
            idx = [n for n, p in enumerate(fn.params) if p['ty']['k'] == 'int']
            if len(idx) != 1:
                raise AnalysisBroken('%s: expected one integer parameter' % fn.name)
            args[idx[0]] = mk_const(fn.params[idx[0]]['ty']['bits'], v)
        return prep

    def result_ident(V, T, box, want, key, scen):
        got = I.t_get(T).get((box['sret'].id, 0))
        st = L.g_get(T).get(box['sret'].id)
        if st is None or st[1] != L.LIVE:
            V.clause(key, False, scen, 'the result object is not constructed at return')
            return
        if got in (None, I.UNKNOWN):
            V.clause(key, 'unk', scen, 'identity of the result is not decided')
            return
        V.clause(key, got == want, scen, 'the result holds %s, the reference has %s' % (I.fmt(got), I.fmt(want)))

    for N in Ns:
        for c in range(N):
            old = [('this', k) for k in range(N)]
            scen = 'size=%d counter=%d filled=%d' % (N, c, N)

            def body(tr, box, T, rv, sname, N=N, c=c, scen=scen, old=old):
                V = Vs['push']
                c2 = (c + 1) % N
                judge_blocks(mod, V, T, box, sname, PF, N, scen)
                want = list(old)
                want[c2] = I.ARG
                judge_idents(V, T, box, want, 'push:slot-after-counter-holds-the-argument-others-unchanged', scen)
                result_ident(V, T, box, ('this', c2), 'push:returns-the-sample-it-replaces', scen)
                check_counters(V, mod, T, box['this'], sname, 'push:advance', fields(N, c2, N), scen, what='the cyclic buffer')
            life_scenario(mod, Vs['push'], names['push'], fields(N, c, N), N, PF, scen, None, body)
            for i in range(N + 1):
                for k in ('operator[]', 'operator[] const'):
                    sc = scen + ' i=%d' % i

                    def body(tr, box, T, rv, sname, N=N, c=c, sc=sc, old=old, i=i, k=k):
                        V = Vs[k]
                        judge_blocks(mod, V, T, box, sname, PF, N, sc)
                        judge_idents(V, T, box, old, 'at:no-slot-changes', sc)
                        result_ident(V, T, box, ('this', (c - i) % N), 'at:i-th-previous-sample', sc)
                    life_scenario(mod, Vs[k], names[k], fields(N, c, N), N, PF, sc, int_prep(i), body)
        scen = 'size=%d counter=%d filled=%d' % (N, N - 1, N)

        def body(tr, box, T, rv, sname, scen=scen):
            judge_blocks(mod, Vs['~cyclic_buffer'], T, box, sname, PF, 0, scen, dtor=True)
        life_scenario(mod, Vs['~cyclic_buffer'], names['~cyclic_buffer'], fields(N, N - 1, N), N, PF, scen, None, body,
                      dtor=True, peel=N + 4)
        for n in (1, 2, 3):
            sc = scen + ' n=%d' % n

            def body(tr, box, T, rv, sname, n=n, sc=sc):
                V = Vs['resize']
                judge_blocks(mod, V, T, box, sname, PF, n, sc)
                cur = current_block(mod, T, box, sname, PF)
                if cur is not None and len(cur[1]) == n and all(s_ == L.LIVE for s_ in cur[1]):
                    judge_idents(V, T, box, [I.DEFAULT] * n, 'resize:every-slot-default-constructed', sc, oid=cur[0])
            life_scenario(mod, Vs['resize'], names['resize'], fields(N, N - 1, N), N, PF, sc, int_prep(n), body, peel=N + 6)
    for n in (1, 2, 3):
        sc = 'constructor size=%d' % n

        def body(tr, box, T, rv, sname, n=n, sc=sc):
            V = Vs['cyclic_buffer(size_t)']
            judge_blocks(mod, V, T, box, sname, PF, n, sc)
            cur = current_block(mod, T, box, sname, PF)
            if cur is not None and len(cur[1]) == n and all(s_ == L.LIVE for s_ in cur[1]):
                judge_idents(V, T, box, [I.DEFAULT] * n, 'cyclic_buffer:every-slot-default-constructed', sc, oid=cur[0])
        life_scenario(mod, Vs['cyclic_buffer(size_t)'], names['cyclic_buffer(size_t)'], {}, 1, PF, sc, int_prep(n), body,
                      ctor=True, peel=8)
    for V in Vs.values():
        V.done()
    return Vs


# ----------------------------------------------------------------------------------------------------------------
# history: the induction, replayed on the interpreted transition table
# ----------------------------------------------------------------------------------------------------------------
def history_rule(rep, repo, rule, function, where, table, Ns, refusal=True):
    """table[(N, h, t)] = {'put': ([slots that hold the argument], head', tail', ret), 'get': ([slots read], head', tail', ret)}
    as the interpreter produced them.  From the empty ring (0, 0) every reachable state is visited once (the content of a
    state is a function of the history only through the reference queue: slot -> position in the queue); put and get are
    compared with a reference deque of identities."""
    for N in Ns:
        seen = {}
        start = (0, 0)
        # ghost: reference queue as the list of slots holding its elements, oldest first
        work = [(start, ())]
        seen[start] = ()
        bad = None
        steps = 0
        while work and bad is None:
            (h, t), q = work.pop()
            ent = table.get((N, h, t))
            if ent is None or 'put' not in ent or 'get' not in ent:
                bad = 'state head=%d tail=%d has no interpreted transition' % (h, t)
                break
            slot, h2, t2, ret = ent['put']
            steps += 1
            if len(q) == N - 1:
                if refusal and (ret != 0 or (h2, t2) != (h, t)):
                    bad = 'full ring head=%d tail=%d: put is not refused (ret %r, head %r, tail %r)' % (h, t, ret, h2, t2)
                    break
            else:
                if ret != 1 or len(slot) != 1 or slot[0] in q or t2 != t:
                    bad = ('head=%d tail=%d: put stores into slot(s) %r while the queue occupies %r (ret %r, tail %r)'
                           % (h, t, slot, list(q), ret, t2))
                    break
                q2 = q + (slot[0],)
                nxt = (h2, t2)
                if nxt in seen and seen[nxt] != q2:
                    bad = 'state head=%d tail=%d reached with two different slot orders %r / %r' % (h2, t2, seen[nxt], q2)
                    break
                if nxt not in seen:
                    seen[nxt] = q2
                    work.append((nxt, q2))
            slot, h2, t2, ret = ent['get']
            steps += 1
            if not q:
                if refusal and (ret != -1 or (h2, t2) != (h, t)):
                    bad = 'empty ring head=%d tail=%d: get is not refused (ret %r)' % (h, t, ret)
                    break
            else:
                if q[0] not in slot or h2 != h:
                    bad = ('head=%d tail=%d: get reads slot(s) %r, the oldest element of the reference queue is in slot %d'
                           % (h, t, slot, q[0]))
                    break
                q2 = q[1:]
                nxt = (h2, t2)
                if nxt in seen and seen[nxt] != q2:
                    bad = 'state head=%d tail=%d reached with two different slot orders %r / %r' % (h2, t2, seen[nxt], q2)
                    break
                if nxt not in seen:
                    seen[nxt] = q2
                    work.append((nxt, q2))
        if bad is None and len(seen) != N * N:
            bad = 'only %d of the %d (head, tail) states are reachable from the empty ring' % (len(seen), N * N)
        rep.inst(rule, function, 'fifo-by-induction:size=%d' % N, bad is None, where,
                 None if bad is None else 'size %d: %s' % (N, bad), fact={'states': len(seen), 'transitions': steps})


# ----------------------------------------------------------------------------------------------------------------
EXPLANATION = (
    ' CONTENT (c03_content.py): identity analysis over a finite partition of the entry states - ring size N in 2..5 (thorough: '
    '2..7), every (head, tail) pair, every transfer length 0..N+1; counters are constants, so every slot address is a constant '
    'and every loop runs on concrete bounds (peeled by the interpreter, nothing is executed); the content stays abstract: '
    'every slot, the value argument and every element of the caller\'s array is a symbol of its own.  At every return the '
    'identities in the slots, in the caller\'s array and in the result are compared with the reference queue.  R-FIFO-C '
    '(datastruct/ring.h): ring_putc stores the argument into slot[head_before], changes no other slot, advances head only and '
    'returns 1; on a full ring it returns 0 and changes nothing; ring_getc returns the byte of slot[tail_before] as 0..255, '
    'advances tail only, writes no slot; on an empty ring -1 and no change; ring_write / ring_read move exactly min(n, room) / '
    'min(n, avail) bytes in order, return that count, leave the rest of the ring, of the caller\'s array and the other counter '
    'alone.  R-FIFO-XX (container/ring.h, ring<int> and ring<char>): push/emplace store the argument into slot[head] (room() > '
    '0 is a precondition: the typed ring has no refusal), pop advances tail only and changes no slot that stays in the queue, '
    'clear empties at head, tail()/last()/head_place()/get(i) designate slot[tail] / slot[head-1 mod N] / slot[head] / slot[i], '
    'get_last(offset, count, from_end) returns count elements, element i being slot[head-1-offset-i mod N] resp. '
    'slot[head-count-offset+i mod N] (std::vector<int> interpreted as compiled), fixup_index(i) = i mod N for -2N-1 <= i <= 2N+1, '
    'distance(a,b) = a-b mod N, set_last_index(i) makes slot[i] the newest, write/read as for the C ring.  R-FIFO-CYCLIC '
    '(cyclic_buffer<int>): push(v) advances the counter modulo N, returns the sample it replaces, stores v there, touches no '
    'other slot, size() counts min(pushes, N); operator[](i) (both overloads) returns slot[counter-i mod N]; resize(n) and the '
    'constructor leave an empty buffer of n fresh slots (size() == 0).  R-FIFO-HISTORY: the FIFO induction replayed on the '
    'transition tables the interpreter produced - from the empty ring every (head, tail) state is reached, a put never lands '
    'on a slot the reference queue occupies, a get always reads the slot of the oldest element, a full/empty C ring refuses; '
    'for the cyclic buffer operator[](i) after k pushes designates the slot of the (k-i)-th push for i < min(k, N).  '
    'R-RINGLIFE (ring<VTr>, cyclic_buffer<VTr>, probe element whose special members are external calls): slot typestate '
    'RAW/LIVE with the invariant "every slot of the buffer holds an object" (unbounded_array constructs n objects and destroys '
    'm_size objects): no constructor on a LIVE slot, no destructor / assignment / read on a RAW one, every block deallocated '
    'once and without LIVE objects, at every return every slot of the current block LIVE; plus the identity of the object in '
    'every slot (push/emplace: slot[head] holds the argument / T(int), others unchanged; cyclic push returns the replaced '
    'sample; operator[] returns the i-th previous one).  Not decided: ring sizes above the partition (the code has no '
    'size-dependent case), push on a full / pop on an empty typed ring (precondition), get_last for a non-trivial element '
    'type, exception paths, concurrent producers/consumers.')


def run_ext(rep, repo, tier):
    """called at the end of c03.run"""
    rep.explanation = (rep.explanation or '').replace('FIFO/losslessness over histories is not decided.',
                                                      'FIFO order and losslessness: see CONTENT.') + EXPLANATION
    rep.assumptions += ['content rules: igris::ring<T>::push/emplace are called with room() > 0 and pop/tail/last with '
                        'avail() > 0 (the typed ring has no refusal; nothing in its documentation promises one)',
                        'content rules: cyclic_buffer::operator[](i) with 0 <= i <= size',
                        'content rules: the copy/move constructors and assignments of the element type transfer the value '
                        '(identity) of their source; T() is a default value',
                        'content rules: get_last relies on the libstdc++ layout of std::vector (begin/end pointers first)']
    Ns = sizes(tier)

    def section(label, f):
        """a section that cannot be analysed (vanished anchor, engine limit, internal error) leaves its ':analysed'
        instances out, so that its floor breaks (exit 2) - but only after the violations found elsewhere were reported"""
        try:
            return f()
        except AnalysisBroken as e:
            print('NOTE %s: not analysable, no verdict: %s' % (label, e))
        except Exception as e:          # noqa: an internal error of this module must not hide the verdicts of c03.run
            import traceback
            traceback.print_exc()
            print('NOTE %s: internal error, no verdict: %r' % (label, e))
        return None

    def part_a():
        mod = witness('w_ring.c', repo)
        table, Vs = c_ring_scenarios(rep, repo, tier, mod)
        if not any(V.unresolved for V in Vs.values()):
            history_rule(rep, repo, 'R-FIFO-HISTORY', 'ring_putc/ring_getc', where_of(repo, mod.fn('ring_putc')), table, Ns)

    def part_b():
        modx = witness('w_ringxx.cpp', repo)
        section('R-FIFO-XX igris::ring<char>', lambda: ringc_scenarios(rep, repo, tier, modx))
        section('R-FIFO-XX igris::ring<int>::get_last', lambda: get_last_scenarios(rep, repo, tier, modx))

        def cyc():
            tabley, Vy = cyclic_scenarios(rep, repo, tier, modx)
            if not any(V.unresolved for V in Vy.values()):
                f = modx.fn(cxx(modx, 'igris::cyclic_buffer<int', 'push'))
                cyclic_history(rep, repo, where_of(repo, f), tabley, (1,) + tuple(Ns))
        section('R-FIFO-CYCLIC', cyc)
        tablex, Vx = ringxx_scenarios(rep, repo, tier, modx)
        if not any(V.unresolved for V in Vx.values()):
            f = modx.fn(cxx(modx, 'igris::ring<int', 'push'))
            history_rule(rep, repo, 'R-FIFO-HISTORY', 'igris::ring<int>::push/tail/pop', where_of(repo, f), tablex, Ns,
                         refusal=False)

    def part_c():
        modl = witness('w_c03_content_ringlife.cpp', repo)
        rep.units.append('witness/w_c03_content_ringlife.cpp -> igris::ring<VTr>, igris::cyclic_buffer<VTr> (element lifetimes / '
                         'identities)')
        section('R-RINGLIFE igris::ring<VTr>', lambda: ringlife_scenarios(rep, repo, tier, modl))
        section('R-RINGLIFE igris::cyclic_buffer<VTr>', lambda: cyclife_scenarios(rep, repo, tier, modl))

    del OOB[:]
    section('R-FIFO-C', part_a)
    section('R-FIFO-XX', part_b)
    section('R-RINGLIFE', part_c)
    from irlib import demangle1
    seen_oob = set()
    for (fname, where, detail) in OOB:
        if fname in seen_oob:
            continue
        seen_oob.add(fname)
        nice = demangle1(fname).split('(')[0]
        rep.inst('R-FIFO-ACCESS', nice, 'every access of the interpreted scenarios lies inside its object', False, where,
                 'in a reachable configuration (concrete ring size, head and tail) %s' % detail)
    if not OOB:
        rep.inst('R-FIFO-ACCESS', 'all interpreted ring routines', 'scenarios without an access outside its object', True,
                 'checks/c03_content.py')
    rep.floor('R-FIFO-C:analysed', 4)
    rep.floor('R-FIFO-C:content', 30)
    rep.floor('R-FIFO-XX:analysed', 14)
    rep.floor('R-FIFO-XX:content', 80)
    rep.floor('R-FIFO-CYCLIC:analysed', 6)
    rep.floor('R-FIFO-CYCLIC:content', 35)
    rep.floor('R-FIFO-HISTORY', 2 * len(Ns) + len(Ns) + 1)
    rep.floor('R-RINGLIFE:analysed', 15)
    rep.floor('R-RINGLIFE:event', 15)
    rep.floor('R-RINGLIFE:return', 25)
    rep.floor('R-RINGLIFE:content', 40)
