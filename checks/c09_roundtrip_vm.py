"""C09 round-trip helper: interpreter of the JSON IR on CONCRETE SHAPES with SYMBOLIC CONTENTS.

Not an executor of igris code: nothing is compiled to run, the values that the property quantifies over (the bytes
of the value that is serialised) are never numbers.  Every such byte is a named symbol; what is concrete is the SHAPE
of the scenario only (container lengths 0..3, buffer capacities), so that every loop of the library runs on decided
bounds, every pointer is (object, constant offset) and each byte that reaches the archive / the reconstructed object
can be compared by identity with the byte the round trip prescribes.  One scenario therefore decides its clause for
every content of that shape.

  values   int (canonical unsigned for its width) | ('p', object id, offset) | ('f', function name) |
           ('s', cells) a scalar made of byte cells (symbols, never computed with) | ('x', ...) an opaque expression
           over symbols | ('a', cells, type) first-class aggregate as its object representation | UNDEF
  cells    int 0..255 | str (a byte symbol) | ('pf', pointer, k) k-th byte of a stored pointer | ('xb', expr, k) |
           None (indeterminate: never written, padding)
  memory   objects with an exact extent; any access outside an object, to a released object or through a null pointer
           stops the scenario (Stop) - the caller turns that into a verdict or into AnalysisBroken
  control  decided by concrete values only.  A branch / length / offset that depends on a symbol raises
           Stop('symbolic') carrying the symbols: the caller may re-run the scenario with those symbols pinned to
           representative numbers (a pinned run that fails is a concrete counterexample; pinned runs that pass prove
           nothing and end as AnalysisBroken).

libstdc++ is interpreted from its own IR (header-only code instantiated in the witness) on these concrete shapes; the
few members that live in libstdc++.so are modelled here on the same memory: operator new / delete, memcpy & co, the
__throw_* family (the scenario stops), and the three red-black-tree primitives (_Rb_tree_increment / _decrement /
_insert_and_rebalance: in-order successor / predecessor and a plain BST link, balance does not matter to any caller).
The ordering of map keys (std::less<K>::operator()) is an oracle the scenario supplies: keys are symbols, the scenario
fixes which of two written keys is the smaller one.
"""
import re
import struct
import sys

from irlib import AnalysisBroken, demangle, tyname

sys.setrecursionlimit(max(sys.getrecursionlimit(), 40000))

UNDEF = ('u',)
NULL = ('p', 0, 0)


class Stop(Exception):
    """the interpreted code cannot go on.  kind: 'oob' | 'dead' | 'null' | 'throw' | 'symbolic' | 'budget' | 'undef'"""

    def __init__(self, kind, text, symbols=(), obj=None):
        Exception.__init__(self, text)
        self.kind = kind
        self.text = text
        self.symbols = tuple(symbols)
        self.obj = obj
        self.where = None
        self.chain = None


class Obj:
    __slots__ = ('id', 'size', 'cells', 'kind', 'name', 'dead', 'who', 'watch', 'ro')

    def __init__(self, oid, size, kind, name):
        self.id = oid
        self.size = size
        self.cells = [None] * size
        self.kind = kind
        self.name = name
        self.dead = False
        self.who = [0] * size
        self.watch = None       # [lo, hi) of the offsets read so far, when the object is watched
        self.ro = False

    def desc(self):
        return '%s (%d bytes)' % (self.name, self.size)


# ----------------------------------------------------------------------------------------------------------------
# LLVM type strings (only literal aggregates need a layout here)
# ----------------------------------------------------------------------------------------------------------------
class Layout:
    def __init__(self, mod):
        self.mod = mod
        self.cache = {}

    def size_align(self, s):
        s = s.strip()
        if s in self.cache:
            return self.cache[s]
        r = self._sa(s)
        self.cache[s] = r
        return r

    def _sa(self, s):
        if s.endswith('*'):
            return (8, 8)
        m = re.match(r'^i(\d+)$', s)
        if m:
            n = (int(m.group(1)) + 7) // 8
            a = 1
            while a < n and a < 8:
                a *= 2
            return (max(n, 1) if n in (1, 2, 4, 8) else ((n + a - 1) // a) * a, a)
        if s == 'float':
            return (4, 4)
        if s == 'double':
            return (8, 8)
        if s == 'x86_fp80':
            return (16, 16)
        if s.startswith('['):
            m = re.match(r'^\[(\d+) x (.*)\]$', s)
            es, ea = self.size_align(m.group(2))
            return (int(m.group(1)) * es, ea)
        if s.startswith('{'):
            fs = self.fields(s)
            al = max([self.size_align(t)[1] for (_o, t) in fs] or [1])
            end = max([o + self.size_align(t)[0] for (o, t) in fs] or [0])
            return (((end + al - 1) // al) * al, al)
        if s.startswith('%'):
            st = self.mod.structs.get(tyname(s))
            if st is None:
                raise AnalysisBroken('layout of type %s unknown' % s)
            al = 1
            for f in st['fields']:
                al = max(al, self.size_align(f['ty']['s'])[1])
            return (st['size'], al)
        raise AnalysisBroken('layout of type %s unknown' % s)

    def split(self, s):
        """'{ a, b<..>, {c, d} }' -> ['a', 'b<..>', '{c, d}']"""
        inner = s.strip()[1:-1]
        out, cur, depth, q = [], '', 0, False
        for ch in inner:
            if ch == '"':
                q = not q
            if not q:
                if ch in '{[(<':
                    depth += 1
                elif ch in '}])>':
                    depth -= 1
                if ch == ',' and depth == 0:
                    out.append(cur.strip())
                    cur = ''
                    continue
            cur += ch
        if cur.strip():
            out.append(cur.strip())
        return out

    def fields(self, s):
        """literal struct -> [(offset, type string)]"""
        s = s.strip()
        if s.startswith('%'):
            st = self.mod.structs.get(tyname(s))
            if st is None:
                raise AnalysisBroken('layout of type %s unknown' % s)
            return [(f['off'], f['ty']['s']) for f in st['fields']]
        packed = s.startswith('<')
        if packed:
            s = s[1:-1].strip()
        off = 0
        out = []
        for t in self.split(s):
            sz, al = self.size_align(t)
            if not packed:
                off = ((off + al - 1) // al) * al
            out.append((off, t))
            off += sz
        return out

    def load_size(self, s):
        """bytes a load/store of this first-class type touches"""
        s = s.strip()
        if s == 'x86_fp80':
            return 10
        m = re.match(r'^i(\d+)$', s)
        if m:
            return (int(m.group(1)) + 7) // 8
        return self.size_align(s)[0]


# ----------------------------------------------------------------------------------------------------------------
# pre-decoded program
# ----------------------------------------------------------------------------------------------------------------
class Ins:
    __slots__ = ('h', 'id', 'a', 'b', 'c', 'n', 'bits', 'x', 'inst')


class Blk:
    __slots__ = ('name', 'phis', 'body', 'term')


class CFn:
    __slots__ = ('f', 'entry', 'blocks', 'nvals', 'repo', 'tagname')


def ty_bits(ty):
    k = ty.get('k')
    if k == 'int':
        return ty.get('bits', 64)
    if k == 'ptr':
        return 64
    return None


class Program:
    """decoded functions of one module, shared by every scenario"""

    def __init__(self, mod, repo_prefixes):
        self.mod = mod
        self.layout = Layout(mod)
        self.repo_prefixes = tuple(repo_prefixes)
        self.fns = {}
        self.globals = {}
        self._dem = {}

    def demangled(self, name):
        if name not in self._dem:
            self._dem[name] = demangle([name])[0]
        return self._dem[name]

    # -- constants ------------------------------------------------------------------------------------------
    def const(self, d):
        k = d['k']
        if k == 'ci':
            w = d['w']
            if 'u' in d:
                return int(d['u'])
            return int(d['big']) & ((1 << w) - 1)
        if k == 'null':
            return NULL
        if k == 'func':
            return ('f', d['name'])
        if k == 'global':
            return ('p', 'g:' + d['name'], 0)
        if k == 'undef':
            return UNDEF
        if k == 'cf':
            return ('fc', int(d['bitsd']))
        if k == 'cexpr':
            op = d.get('op')
            if op in ('bitcast', 'ptrtoint', 'inttoptr', 'addrspacecast'):
                return self.const(d['ops'][0])
            if op == 'getelementptr':
                base = self.const(d['ops'][0])
                off = 0
                for s in d['gep']['steps']:
                    if s['k'] == 'field':
                        off += s['off']
                    else:
                        iv = s['v']
                        if iv['k'] != 'ci':
                            return ('bad', 'non-constant index in a constant expression')
                        off += int(iv['v']) * s['stride']
                if base[0] != 'p':
                    return ('bad', 'constant gep on %r' % (base,))
                return ('p', base[1], base[2] + off)
            return ('bad', 'constant expression %s' % op)
        return ('bad', 'constant of kind %s' % k)

    def operand(self, d):
        k = d['k']
        if k == 'inst':
            return (0, d['id'])
        if k == 'arg':
            return (1, d['i'])
        return (2, self.const(d))

    def op_bits(self, f, d):
        k = d['k']
        if k == 'inst':
            return ty_bits(f.insts[d['id']].ty)
        if k == 'arg':
            return ty_bits(f.params[d['i']]['ty'])
        if k == 'ci':
            return d['w']
        return 64

    # -- functions ------------------------------------------------------------------------------------------
    def fn(self, name):
        c = self.fns.get(name)
        if c is None:
            f = self.mod.fn(name)
            if f is None or f.decl:
                return None
            c = self.compile(f)
            self.fns[name] = c
        return c

    def compile(self, f):
        c = CFn()
        c.f = f
        c.repo = bool(f.file) and f.file.startswith(self.repo_prefixes)
        c.tagname = f.qualname
        c.blocks = {}
        nv = 0
        for b in f.blocks:
            for i in b.insts:
                nv = max(nv, i.id + 1)
        c.nvals = nv
        for b in f.blocks:
            blk = Blk()
            blk.name = b.name
            blk.phis = []
            blk.body = []
            blk.term = None
            for i in b.insts:
                if i.op == 'dbg':
                    continue
                x = self.decode(f, i)
                if i.op == 'phi':
                    blk.phis.append(x)
                elif i.op in ('br', 'ret', 'switch', 'unreachable'):
                    blk.term = x
                else:
                    blk.body.append(x)
            if blk.term is None:
                raise AnalysisBroken('block %s of %s has no supported terminator' % (b.name, f.name))
            c.blocks[b.name] = blk
        for blk in c.blocks.values():
            t = blk.term
            if t.h == 'br':
                t.a = c.blocks[t.a]
            elif t.h == 'cbr':
                t.b = c.blocks[t.b]
                t.c = c.blocks[t.c]
            elif t.h == 'switch':
                t.b = c.blocks[t.b]
                t.c = {k: c.blocks[v] for k, v in t.c.items()}
        c.entry = c.blocks[f.blocks[0].name]
        return c

    def decode(self, f, i):
        x = Ins()
        x.inst = i
        x.id = i.id
        x.a = x.b = x.c = x.n = x.x = None
        x.bits = ty_bits(i.ty)
        op = i.op
        d = i.d
        x.h = op
        O = self.operand
        if op == 'phi':
            x.a = {inc['bb']: O(inc['v']) for inc in d['incoming']}
        elif op == 'br':
            if 'f' in d:
                x.h = 'cbr'
                x.a = O(d['ops'][0])
                x.b = d['t']
                x.c = d['f']
            else:
                x.a = d['t']
        elif op == 'ret':
            x.a = O(d['ops'][0]) if d.get('ops') else None
        elif op == 'switch':
            x.a = O(d['ops'][0])
            x.b = d['default']
            w = self.op_bits(f, d['ops'][0]) or 64
            x.c = {(cs['v'] & ((1 << w) - 1)): cs['bb'] for cs in d['cases']}
        elif op == 'unreachable':
            pass
        elif op == 'alloca':
            x.n = d['alloc_ty'].get('size', 0)
            x.a = O(d['ops'][0]) if d.get('ops') else (2, 1)
            x.x = i.name or 'tmp'
        elif op == 'load':
            x.a = O(d['ops'][0])
            x.x = i.ty
            x.n = self.layout.load_size(i.ty['s'])
        elif op == 'store':
            x.a = O(d['ops'][0])
            x.b = O(d['ops'][1])
            x.n = d['store_size']
        elif op == 'getelementptr':
            x.a = O(d['ops'][0])
            off = 0
            var = []
            for s in d['gep']['steps']:
                if s['k'] == 'field':
                    off += s['off']
                elif s['v']['k'] == 'ci':
                    off += int(s['v']['v']) * s['stride']
                else:
                    var.append((s['stride'], O(s['v']), self.op_bits(f, s['v']) or 64))
            x.n = off
            x.b = var
        elif op in ('bitcast', 'ptrtoint', 'inttoptr', 'addrspacecast', 'freeze'):
            x.h = 'cast'
            x.a = O(d['ops'][0])
        elif op in ('trunc', 'zext', 'sext'):
            x.a = O(d['ops'][0])
            x.n = self.op_bits(f, d['ops'][0])
        elif op in ('add', 'sub', 'mul', 'udiv', 'sdiv', 'urem', 'srem', 'and', 'or', 'xor', 'shl', 'lshr', 'ashr'):
            x.h = 'bin'
            x.x = op
            x.a = O(d['ops'][0])
            x.b = O(d['ops'][1])
        elif op == 'icmp':
            x.a = O(d['ops'][0])
            x.b = O(d['ops'][1])
            x.x = d['pred']
            x.n = self.op_bits(f, d['ops'][0]) or 64
        elif op == 'select':
            x.a, x.b, x.c = (O(o) for o in d['ops'])
        elif op == 'call':
            cal = d['callee']
            x.a = cal['name'] if cal['k'] == 'func' else None
            x.b = [O(a) for a in d['args']]
            x.c = O(cal) if x.a is None else None
            x.x = i.ty
        elif op == 'extractvalue':
            x.a = O(d['ops'][0])
            x.b = list(d['indices'])
            x.x = i.ty
        elif op == 'insertvalue':
            x.a = O(d['ops'][0])
            x.b = O(d['ops'][1])
            x.c = list(d['indices'])
            x.x = i.ty
        else:
            x.h = 'unsupported'
        return x


# ----------------------------------------------------------------------------------------------------------------
# the machine (one per scenario)
# ----------------------------------------------------------------------------------------------------------------
def cells_of_int(v, n):
    return [(v >> (8 * k)) & 0xff for k in range(n)]


class Sym(str):
    """a byte symbol (one byte of the value that is written); the other strings inside values are tags"""
    __slots__ = ()


def symbols_of(v, out=None):
    """byte symbols a value / cell depends on"""
    if out is None:
        out = []
    if isinstance(v, Sym):
        if v not in out:
            out.append(v)
    elif isinstance(v, tuple):
        for x in v:
            if isinstance(x, (tuple, Sym)):
                symbols_of(x, out)
    return out


class Machine:
    MAX_STEPS = 3000000

    def __init__(self, prog):
        self.prog = prog
        self.mod = prog.mod
        self.objs = {}
        self.next_id = 1
        self.steps = 0
        self.hooks = {}            # mangled name -> f(machine, args, ins) -> value
        self.hook_preds = []       # (predicate(Function), f)
        self._resolved = {}
        self.tags = [()]           # interned call chains of repo functions
        self.tag_ids = {(): 0}
        self.cur_tag = 0
        self.chain = []            # repo functions on the stack (qualname, file, line)
        self.depth = 0
        self.calls = 0
        self.seen_fns = set()

    # -- objects --------------------------------------------------------------------------------------------
    def new_obj(self, size, kind, name):
        if not isinstance(size, int):
            raise Stop('symbolic', 'size of a new %s object depends on the contents' % kind, symbols_of(size))
        if size < 0 or size > (1 << 24):
            raise Stop('throw', 'allocation of %d bytes' % size)
        o = Obj(self.next_id, size, kind, name)
        self.next_id += 1
        self.objs[o.id] = o
        return o

    def global_obj(self, oid):
        o = self.prog.globals.get(oid)
        if o is not None:
            return o
        name = oid[2:]
        g = self.mod.globals.get(name)
        if g is None:
            raise AnalysisBroken('global %s not in the unit' % name)
        size = g['ty'].get('size')
        if size is None:
            raise AnalysisBroken('global %s has no size' % name)
        o = Obj(oid, size, 'global', name)
        o.ro = True
        init = g.get('init')
        if init is not None:
            self._fill_init(o, 0, init, g['ty']['s'])
        self.prog.globals[oid] = o
        return o

    def _fill_init(self, o, off, init, ty):
        lay = self.prog.layout
        if isinstance(init, list):
            ty = ty.strip()
            if ty.startswith('['):
                m = re.match(r'^\[(\d+) x (.*)\]$', ty)
                et = m.group(2)
                es = lay.size_align(et)[0]
                for k, e in enumerate(init):
                    self._fill_init(o, off + k * es, e, et)
            else:
                fs = lay.fields(ty)
                for (fo, ft), e in zip(fs, init):
                    self._fill_init(o, off + fo, e, ft)
            return
        if isinstance(init, dict) and init.get('k') == 'zero':
            for k in range(init['size']):
                o.cells[off + k] = 0
            return
        if isinstance(init, (int, float)) and not isinstance(init, bool):
            n = lay.load_size(ty)
            if isinstance(init, int):
                o.cells[off:off + n] = cells_of_int(init & ((1 << (8 * n)) - 1), n)
            return
        if isinstance(init, dict):
            v = self.prog.const(init)
            n = lay.load_size(ty)
            if off + n <= o.size:
                o.cells[off:off + n] = self.to_cells(v, n)

    def obj(self, p, n, what):
        """object designated by pointer p for an access of n bytes"""
        if not (isinstance(p, tuple) and p[0] == 'p'):
            if p == 0:
                raise Stop('null', '%s through a null pointer' % what)
            if isinstance(p, tuple) and p[0] in ('s', 'x'):
                raise Stop('symbolic', '%s through a pointer that depends on the contents' % what, symbols_of(p))
            raise Stop('undef', '%s through %r, which is not a pointer' % (what, p))
        oid = p[1]
        if oid == 0:
            raise Stop('null', '%s through a null pointer' % what)
        o = self.objs.get(oid)
        if o is None:
            if isinstance(oid, str):
                o = self.global_obj(oid)
            else:
                raise Stop('dead', '%s of an object that no longer exists' % what)
        if o.dead:
            raise Stop('dead', '%s of %s after its lifetime ended' % (what, o.desc()), obj=o)
        off = p[2]
        if off < 0 or off + n > o.size:
            raise Stop('oob', '%s of %d byte(s) at offset %d of %s' % (what, n, off, o.desc()), obj=o)
        return o

    # -- cells <-> values ---------------------------------------------------------------------------------------
    def to_cells(self, v, n):
        if isinstance(v, int):
            return [(v >> (8 * k)) & 0xff for k in range(n)]
        k = v[0]
        if k == 'p' or k == 'f':
            if v == NULL:
                return [0] * n
            return [('pf', v, j) for j in range(n)] if n == 8 else [('xb', v, j) for j in range(n)]
        if k == 's' or k == 'a':
            c = list(v[1])
            if len(c) == n:
                return c
            if len(c) > n:
                return c[:n]
            return c + [None] * (n - len(c))
        if k == 'u':
            return [None] * n
        if k == 'fc':
            bits = v[1]
            if n == 8:
                return cells_of_int(bits, 8)
            if n == 4:
                f32 = struct.unpack('<I', struct.pack('<f', struct.unpack('<d', struct.pack('<Q', bits))[0]))[0]
                return cells_of_int(f32, 4)
            if bits == 0:
                return [0] * n
            raise AnalysisBroken('floating constant of %d bytes' % n)
        if k == 'x':
            return [('xb', v, j) for j in range(n)]
        if k == 'bad':
            raise AnalysisBroken(v[1])
        raise AnalysisBroken('cannot store %r' % (v,))

    def from_cells(self, c, ty):
        """value of a load of type ty from cells c"""
        k = ty.get('k')
        n = len(c)
        if k == 'struct' or k == 'array':
            return ('a', tuple(c), ty['s'])
        allint = True
        for x in c:
            if not isinstance(x, int):
                allint = False
                break
        if allint:
            v = 0
            for j in range(n - 1, -1, -1):
                v = (v << 8) | c[j]
            if k == 'ptr':
                return NULL if v == 0 else v
            if k == 'int':
                bits = ty.get('bits', 8 * n)
                if bits < 8 * n:
                    v &= (1 << bits) - 1
            return v
        c0 = c[0]
        if isinstance(c0, tuple) and c0[0] == 'pf' and n == 8:
            p = c0[1]
            ok = True
            for j in range(8):
                x = c[j]
                if not (isinstance(x, tuple) and x[0] == 'pf' and x[1] == p and x[2] == j):
                    ok = False
                    break
            if ok:
                return p
        if all(x is None for x in c):
            return UNDEF
        return ('s', tuple(c))

    def load(self, p, n, ty):
        o = self.obj(p, n, 'read')
        off = p[2]
        if o.watch is not None:
            w = o.watch
            if w[0] is None:
                w[0], w[1] = off, off + n
            else:
                if off < w[0]:
                    w[0] = off
                if off + n > w[1]:
                    w[1] = off + n
        return self.from_cells(o.cells[off:off + n], ty)

    def store(self, p, n, v):
        o = self.obj(p, n, 'write')
        if o.ro:
            raise Stop('oob', 'write to the constant %s' % o.desc(), obj=o)
        off = p[2]
        o.cells[off:off + n] = self.to_cells(v, n)
        o.who[off:off + n] = [self.cur_tag] * n

    def read_cells(self, p, n, what='read'):
        if n == 0:
            return []
        o = self.obj(p, n, what)
        off = p[2]
        if o.watch is not None:
            w = o.watch
            if w[0] is None:
                w[0], w[1] = off, off + n
            else:
                w[0] = min(w[0], off)
                w[1] = max(w[1], off + n)
        return o.cells[off:off + n]

    def write_cells(self, p, cells, what='write'):
        n = len(cells)
        if n == 0:
            return
        o = self.obj(p, n, what)
        if o.ro:
            raise Stop('oob', 'write to the constant %s' % o.desc(), obj=o)
        off = p[2]
        o.cells[off:off + n] = cells
        o.who[off:off + n] = [self.cur_tag] * n

    # -- scalar helpers -----------------------------------------------------------------------------------------
    def need_int(self, v, what):
        if isinstance(v, int):
            return v
        if v == NULL:
            return 0
        if isinstance(v, tuple) and v[0] in ('s', 'x'):
            raise Stop('symbolic', '%s depends on the contents of the value' % what, symbols_of(v))
        if v == UNDEF:
            raise Stop('undef', '%s is an indeterminate value' % what)
        raise Stop('undef', '%s is %r' % (what, v))

    # -- interpretation -----------------------------------------------------------------------------------------
    def call(self, name, args):
        """call a function of the unit by its mangled name"""
        c = self.prog.fn(name)
        if c is None:
            raise AnalysisBroken('function %s is not defined in the unit' % name)
        return self.run(c, list(args))

    def run(self, c, args):
        self.depth += 1
        if self.depth > 900:
            raise Stop('budget', 'call depth exceeded in %s' % c.f.name)
        self.calls += 1
        pushed = False
        if c.repo:
            pushed = True
            self.seen_fns.add(c.tagname)
            self.chain.append((c.tagname, c.f.file, c.f.line))
            saved = self.cur_tag
            key = tuple(self.chain[-6:])
            t = self.tag_ids.get(key)
            if t is None:
                t = len(self.tags)
                self.tags.append(key)
                self.tag_ids[key] = t
            self.cur_tag = t
        vals = [None] * c.nvals
        allocas = []
        blk = c.entry
        prev = None
        H = _HANDLERS
        try:
            while True:
                if blk.phis:
                    new = []
                    for ph in blk.phis:
                        o = ph.a.get(prev)
                        if o is None:
                            raise AnalysisBroken('phi of %s without a value for the edge taken' % c.f.name)
                        k = o[0]
                        new.append(vals[o[1]] if k == 0 else (args[o[1]] if k == 1 else o[1]))
                    for ph, v in zip(blk.phis, new):
                        vals[ph.id] = v
                self.steps += len(blk.body) + 1
                if self.steps > self.MAX_STEPS:
                    raise Stop('budget', 'interpretation budget exceeded in %s' % c.f.qualname)
                for x in blk.body:
                    try:
                        H[x.h](self, x, vals, args, allocas)
                    except Stop as e:
                        if e.where is None:
                            e.where = x.inst.where()
                            e.chain = list(self.chain)
                        raise
                t = blk.term
                h = t.h
                if h == 'br':
                    prev = blk.name
                    blk = t.a
                elif h == 'cbr':
                    o = t.a
                    k = o[0]
                    cv = vals[o[1]] if k == 0 else (args[o[1]] if k == 1 else o[1])
                    if not isinstance(cv, int):
                        e = Stop('symbolic' if isinstance(cv, tuple) and cv[0] in ('s', 'x') else 'undef',
                                 'a branch depends on %s' % ('the contents of the value' if isinstance(cv, tuple) and cv[0] in ('s', 'x')
                                                             else 'an indeterminate value'), symbols_of(cv))
                        e.where = t.inst.where()
                        e.chain = list(self.chain)
                        raise e
                    prev = blk.name
                    blk = t.b if (cv & 1) else t.c
                elif h == 'ret':
                    if t.a is None:
                        return None
                    o = t.a
                    k = o[0]
                    return vals[o[1]] if k == 0 else (args[o[1]] if k == 1 else o[1])
                elif h == 'switch':
                    o = t.a
                    k = o[0]
                    cv = vals[o[1]] if k == 0 else (args[o[1]] if k == 1 else o[1])
                    if not isinstance(cv, int):
                        e = Stop('symbolic', 'a switch depends on the contents of the value', symbols_of(cv))
                        e.where = t.inst.where()
                        e.chain = list(self.chain)
                        raise e
                    prev = blk.name
                    blk = t.c.get(cv, t.b)
                else:
                    e = Stop('throw', 'reached code marked unreachable in %s' % c.f.qualname)
                    e.where = t.inst.where()
                    e.chain = list(self.chain)
                    raise e
        finally:
            self.depth -= 1
            for o in allocas:
                o.dead = True
                self.objs.pop(o.id, None)
            if pushed:
                self.chain.pop()
                self.cur_tag = saved

    # -- calls -------------------------------------------------------------------------------------------------
    def resolve(self, name):
        r = self._resolved.get(name)
        if r is not None:
            return r
        h = self.hooks.get(name)
        if h is None:
            f = self.mod.fn(name)
            if f is not None:
                for pred, hk in self.hook_preds:
                    if pred(f):
                        h = hk
                        break
        if h is None:
            for pfx, hk in _PREFIX_HOOKS:
                if name.startswith(pfx):
                    h = hk
                    break
        if h is not None:
            r = ('hook', h)
        else:
            c = self.prog.fn(name)
            if c is not None:
                r = ('fn', c)
            else:
                dem = self.prog.demangled(name)
                if dem.startswith('std::__throw_'):
                    r = ('hook', _throw(dem))
                elif re.match(r'^std::allocator<.*>::~?allocator\(', dem):
                    r = ('hook', _nop)
                else:
                    r = ('missing', dem)
        self._resolved[name] = r
        return r


def _ev(o, vals, args):
    k = o[0]
    return vals[o[1]] if k == 0 else (args[o[1]] if k == 1 else o[1])


def _throw(dem):
    def h(m, args, x):
        raise Stop('throw', 'the library throws: %s' % dem.split('(')[0])
    return h


def _nop(m, args, x):
    return None


def h_alloca(m, x, vals, args, allocas):
    cnt = _ev(x.a, vals, args)
    cnt = m.need_int(cnt, 'an array size')
    o = m.new_obj(x.n * cnt, 'alloca', 'local %s' % x.x)
    allocas.append(o)
    vals[x.id] = ('p', o.id, 0)


def h_load(m, x, vals, args, allocas):
    o = x.a
    k = o[0]
    p = vals[o[1]] if k == 0 else (args[o[1]] if k == 1 else o[1])
    vals[x.id] = m.load(p, x.n, x.x)


def h_store(m, x, vals, args, allocas):
    o = x.a
    k = o[0]
    v = vals[o[1]] if k == 0 else (args[o[1]] if k == 1 else o[1])
    o = x.b
    k = o[0]
    p = vals[o[1]] if k == 0 else (args[o[1]] if k == 1 else o[1])
    m.store(p, x.n, v)


def h_gep(m, x, vals, args, allocas):
    o = x.a
    k = o[0]
    p = vals[o[1]] if k == 0 else (args[o[1]] if k == 1 else o[1])
    off = x.n
    for (stride, io, bits) in x.b:
        iv = _ev(io, vals, args)
        iv = m.need_int(iv, 'an index')
        if bits and iv >= (1 << (bits - 1)):
            iv -= (1 << bits)
        off += stride * iv
    if isinstance(p, tuple) and p[0] == 'p':
        vals[x.id] = ('p', p[1], p[2] + off)
    elif isinstance(p, int):
        vals[x.id] = ('p', 0, p + off) if (p + off) else NULL
    elif p == UNDEF:
        raise Stop('undef', 'address computed from an indeterminate pointer')
    else:
        raise Stop('symbolic', 'address computed from the contents of the value', symbols_of(p))


def h_cast(m, x, vals, args, allocas):
    vals[x.id] = _ev(x.a, vals, args)


def h_trunc(m, x, vals, args, allocas):
    v = _ev(x.a, vals, args)
    bits = x.bits
    if isinstance(v, int):
        vals[x.id] = v & ((1 << bits) - 1)
        return
    if isinstance(v, tuple):
        if v[0] == 's' and bits % 8 == 0 and len(v[1]) * 8 >= bits:
            c = v[1][:bits // 8]
            vals[x.id] = m.from_cells(list(c), {'k': 'int', 'bits': bits})
            return
        if v[0] == 'p':
            if v == NULL:
                vals[x.id] = 0
                return
            vals[x.id] = ('x', 'trunc', bits, v)
            return
        if v[0] == 'u':
            vals[x.id] = UNDEF
            return
    vals[x.id] = ('x', 'trunc', bits, v)


def h_zext(m, x, vals, args, allocas):
    v = _ev(x.a, vals, args)
    if isinstance(v, int):
        vals[x.id] = v
        return
    if isinstance(v, tuple) and v[0] == 's' and x.bits % 8 == 0:
        vals[x.id] = ('s', tuple(v[1]) + (0,) * (x.bits // 8 - len(v[1])))
        return
    if v == UNDEF:
        vals[x.id] = UNDEF
        return
    vals[x.id] = ('x', 'zext', x.bits, v)


def h_sext(m, x, vals, args, allocas):
    v = _ev(x.a, vals, args)
    if isinstance(v, int):
        sb = x.n or 64
        if v >= (1 << (sb - 1)):
            v -= (1 << sb)
        vals[x.id] = v & ((1 << x.bits) - 1)
        return
    if v == UNDEF:
        vals[x.id] = UNDEF
        return
    vals[x.id] = ('x', 'sext', x.bits, v)


def _signed(v, bits):
    return v - (1 << bits) if v >= (1 << (bits - 1)) else v


def h_bin(m, x, vals, args, allocas):
    a = _ev(x.a, vals, args)
    b = _ev(x.b, vals, args)
    op = x.x
    bits = x.bits or 64
    if a == NULL and not isinstance(b, tuple):
        a = 0
    if b == NULL and not isinstance(a, tuple):
        b = 0
    if isinstance(a, int) and isinstance(b, int):
        mask = (1 << bits) - 1
        if op == 'add':
            r = a + b
        elif op == 'sub':
            r = a - b
        elif op == 'mul':
            r = a * b
        elif op == 'and':
            r = a & b
        elif op == 'or':
            r = a | b
        elif op == 'xor':
            r = a ^ b
        elif op == 'shl':
            r = a << b if b < bits else 0
        elif op == 'lshr':
            r = a >> b if b < bits else 0
        elif op == 'ashr':
            r = _signed(a, bits) >> min(b, bits - 1)
        elif op in ('udiv', 'urem'):
            if b == 0:
                raise Stop('throw', 'division by zero')
            r = a // b if op == 'udiv' else a % b
        else:
            if b == 0:
                raise Stop('throw', 'division by zero')
            sa, sb = _signed(a, bits), _signed(b, bits)
            q = abs(sa) // abs(sb)
            if (sa < 0) != (sb < 0):
                q = -q
            r = q if op == 'sdiv' else sa - q * sb
        vals[x.id] = r & mask
        return
    # pointer arithmetic carried out on integers
    pa = isinstance(a, tuple) and a[0] == 'p'
    pb = isinstance(b, tuple) and b[0] == 'p'
    if pa and pb and op == 'sub':
        if a[1] == b[1]:
            vals[x.id] = (a[2] - b[2]) & ((1 << bits) - 1)
            return
        if b == NULL:
            vals[x.id] = a
            return
        raise AnalysisBroken('difference of pointers into different objects')
    if pa and isinstance(b, int) and op in ('add', 'sub'):
        d = _signed(b, bits)
        vals[x.id] = ('p', a[1], a[2] + (d if op == 'add' else -d))
        return
    if pb and isinstance(a, int) and op == 'add':
        vals[x.id] = ('p', b[1], b[2] + _signed(a, bits))
        return
    if a == UNDEF or b == UNDEF:
        vals[x.id] = UNDEF
        return
    # identities that keep a symbolic scalar intact
    if isinstance(b, int) and isinstance(a, tuple) and a[0] == 's':
        n = len(a[1])
        if (op in ('or', 'xor', 'add', 'sub', 'shl', 'lshr', 'ashr') and b == 0) or (op == 'mul' and b == 1) or \
                (op == 'and' and b == (1 << (8 * n)) - 1):
            vals[x.id] = a
            return
        if op == 'and' and b in (0xff, 0xffff, 0xffffffff) and 8 * n >= b.bit_length():
            k = b.bit_length() // 8
            vals[x.id] = m.from_cells(list(a[1][:k]) + [0] * (n - k), {'k': 'int', 'bits': 8 * n})
            return
    vals[x.id] = ('x', op, a, b)


def h_icmp(m, x, vals, args, allocas):
    a = _ev(x.a, vals, args)
    b = _ev(x.b, vals, args)
    pred = x.x
    if isinstance(a, int) and isinstance(b, int):
        if pred[0] == 's':
            a, b = _signed(a, x.n), _signed(b, x.n)
    else:
        pa = isinstance(a, tuple) and a[0] == 'p'
        pb = isinstance(b, tuple) and b[0] == 'p'
        if (pa or a == 0) and (pb or b == 0):
            if a == 0:
                a = NULL
            if b == 0:
                b = NULL
            if pred == 'eq':
                vals[x.id] = 1 if a == b else 0
                return
            if pred == 'ne':
                vals[x.id] = 0 if a == b else 1
                return
            if a[1] == b[1]:
                a, b = a[2], b[2]
            elif a == NULL:
                a, b = 0, 1
            elif b == NULL:
                a, b = 1, 0
            else:
                # distinct objects never overlap: any consistent placement orders them; objects are placed in the order of
                # their creation (globals first).  Only code whose result does not depend on the placement (std::less<T*> in
                # the library's own aliasing tests) is meaningful here
                ka = (0, a[1], 0) if isinstance(a[1], str) else (1, '', a[1])
                kb = (0, b[1], 0) if isinstance(b[1], str) else (1, '', b[1])
                a, b = (0, 1) if ka < kb else (1, 0)
        elif (isinstance(a, tuple) and a[0] == 'f') or (isinstance(b, tuple) and b[0] == 'f'):
            if pred in ('eq', 'ne'):
                vals[x.id] = 1 if ((a == b) == (pred == 'eq')) else 0
                return
            raise AnalysisBroken('ordering of function pointers')
        else:
            if a == UNDEF or b == UNDEF:
                vals[x.id] = UNDEF
                return
            if a == b and pred in ('eq', 'ule', 'uge', 'sle', 'sge'):
                vals[x.id] = 1
                return
            if a == b and pred in ('ne', 'ult', 'ugt', 'slt', 'sgt'):
                vals[x.id] = 0
                return
            vals[x.id] = ('x', 'icmp', pred, a, b)
            return
    p = pred[-2:]
    if pred == 'eq':
        r = a == b
    elif pred == 'ne':
        r = a != b
    elif p == 'lt':
        r = a < b
    elif p == 'le':
        r = a <= b
    elif p == 'gt':
        r = a > b
    else:
        r = a >= b
    vals[x.id] = 1 if r else 0


def h_select(m, x, vals, args, allocas):
    c = _ev(x.a, vals, args)
    if not isinstance(c, int):
        a, b = _ev(x.b, vals, args), _ev(x.c, vals, args)
        if a == b:
            vals[x.id] = a
            return
        if c == UNDEF:
            raise Stop('undef', 'a selection depends on an indeterminate value')
        raise Stop('symbolic', 'a selection depends on the contents of the value', symbols_of(c))
    vals[x.id] = _ev(x.b, vals, args) if (c & 1) else _ev(x.c, vals, args)


def _agg_field(m, tys, indices):
    """(offset, type string) of the member selected by extractvalue/insertvalue indices"""
    lay = m.prog.layout
    off = 0
    t = tys
    for ix in indices:
        t = t.strip()
        if t.startswith('['):
            mm = re.match(r'^\[(\d+) x (.*)\]$', t)
            et = mm.group(2)
            off += ix * lay.size_align(et)[0]
            t = et
        else:
            fs = lay.fields(t)
            off += fs[ix][0]
            t = fs[ix][1]
    return off, t


def _ty_of_str(m, s):
    s = s.strip()
    if s.endswith('*'):
        return {'k': 'ptr', 's': s}
    mm = re.match(r'^i(\d+)$', s)
    if mm:
        return {'k': 'int', 'bits': int(mm.group(1)), 's': s}
    if s in ('float', 'double', 'x86_fp80'):
        return {'k': 'fp', 's': s}
    return {'k': 'struct', 's': s}


def h_extractvalue(m, x, vals, args, allocas):
    a = _ev(x.a, vals, args)
    if a == UNDEF:
        vals[x.id] = UNDEF
        return
    if not (isinstance(a, tuple) and a[0] == 'a'):
        raise AnalysisBroken('extractvalue of %r' % (a,))
    off, t = _agg_field(m, a[2], x.b)
    n = m.prog.layout.load_size(t)
    vals[x.id] = m.from_cells(list(a[1][off:off + n]), _ty_of_str(m, t))


def h_insertvalue(m, x, vals, args, allocas):
    a = _ev(x.a, vals, args)
    v = _ev(x.b, vals, args)
    tys = x.x['s']
    size = m.prog.layout.size_align(tys)[0]
    cells = list(a[1]) if (isinstance(a, tuple) and a[0] == 'a') else [None] * size
    off, t = _agg_field(m, tys, x.c)
    n = m.prog.layout.load_size(t)
    cells[off:off + n] = m.to_cells(v, n)
    vals[x.id] = ('a', tuple(cells), tys)


def h_call(m, x, vals, args, allocas):
    av = [_ev(o, vals, args) for o in x.b]
    name = x.a
    if name is None:
        fp = _ev(x.c, vals, args)
        if not (isinstance(fp, tuple) and fp[0] == 'f'):
            raise Stop('undef', 'indirect call through %r' % (fp,))
        name = fp[1]
    r = m._resolved.get(name) or m.resolve(name)
    kind = r[0]
    if kind == 'fn':
        vals[x.id] = m.run(r[1], av)
    elif kind == 'hook':
        vals[x.id] = r[1](m, av, x)
    else:
        raise AnalysisBroken('external function %s is not modelled' % r[1])


def h_unsupported(m, x, vals, args, allocas):
    raise AnalysisBroken('instruction %s in %s is outside the interpreted fragment' % (x.inst.op, x.inst.fn.name))


_HANDLERS = {'alloca': h_alloca, 'load': h_load, 'store': h_store, 'getelementptr': h_gep, 'cast': h_cast,
             'trunc': h_trunc, 'zext': h_zext, 'sext': h_sext, 'bin': h_bin, 'icmp': h_icmp, 'select': h_select,
             'extractvalue': h_extractvalue, 'insertvalue': h_insertvalue, 'call': h_call,
             'unsupported': h_unsupported}


# ----------------------------------------------------------------------------------------------------------------
# models of what is not in the unit
# ----------------------------------------------------------------------------------------------------------------
def hk_memcpy(m, args, x):
    n = m.need_int(args[2], 'the length of a copy')
    if n:
        cells = list(m.read_cells(args[1], n))
        m.write_cells(args[0], cells)
    return args[0]


def hk_memset(m, args, x):
    n = m.need_int(args[2], 'the length of a fill')
    v = args[1]
    if n:
        if isinstance(v, int):
            c = v & 0xff
        elif isinstance(v, tuple) and v[0] == 's':
            c = v[1][0]
        else:
            c = ('xb', v, 0)
        m.write_cells(args[0], [c] * n)
    return args[0]


def hk_memcmp(m, args, x):
    n = m.need_int(args[2], 'the length of a comparison')
    if n == 0:
        return 0
    a = m.read_cells(args[0], n)
    b = m.read_cells(args[1], n)
    for k in range(n):
        ca, cb = a[k], b[k]
        if ca == cb and ca is not None:
            continue
        if isinstance(ca, int) and isinstance(cb, int):
            return (1 if ca > cb else 0xffffffff)
        raise Stop('symbolic', 'the result of memcmp depends on the contents of the value', symbols_of((ca, cb)))
    return 0


def hk_strlen(m, args, x):
    p = args[0]
    if not (isinstance(p, tuple) and p[0] == 'p'):
        m.obj(p, 1, 'read')
    n = 0
    while True:
        c = m.read_cells(('p', p[1], p[2] + n), 1)[0]
        if c == 0:
            return n
        if not isinstance(c, int):
            if c is None:
                raise Stop('undef', 'strlen reads an indeterminate byte')
            raise Stop('symbolic', 'the result of strlen depends on the contents of the value', symbols_of(c))
        n += 1


def hk_new(m, args, x):
    n = m.need_int(args[0], 'the size of an allocation')
    o = m.new_obj(n, 'heap', 'heap block #%d' % m.next_id)
    return ('p', o.id, 0)


def hk_delete(m, args, x):
    p = args[0]
    if p == NULL or p == 0:
        return None
    if not (isinstance(p, tuple) and p[0] == 'p'):
        raise Stop('undef', 'operator delete of %r' % (p,))
    o = m.objs.get(p[1])
    if o is None or o.dead:
        raise Stop('dead', 'operator delete of a block that was already released')
    if o.kind != 'heap' or p[2] != 0:
        raise Stop('oob', 'operator delete of a pointer that operator new did not return (%s + %d)' % (o.desc(), p[2]))
    o.dead = True
    return None


def hk_trap(m, args, x):
    raise Stop('throw', 'the code traps (abort)')


# red-black tree primitives of libstdc++.so on the interpreted memory.  Node base: colour @0 (0 = red), parent @8,
# left @16, right @24 (offsets re-read from debug info by the caller through RB_OFF)
RB_OFF = {'color': 0, 'parent': 8, 'left': 16, 'right': 24}
_PTR = {'k': 'ptr'}
_I32 = {'k': 'int', 'bits': 32}


def _rb_get(m, node, f):
    return m.load(('p', node[1], node[2] + RB_OFF[f]), 8, _PTR)


def _rb_set(m, node, f, v):
    m.store(('p', node[1], node[2] + RB_OFF[f]), 8, v)


def rb_increment(m, xn):
    r = _rb_get(m, xn, 'right')
    if r != NULL:
        xn = r
        while True:
            l = _rb_get(m, xn, 'left')
            if l == NULL:
                return xn
            xn = l
    y = _rb_get(m, xn, 'parent')
    guard = 0
    while xn == _rb_get(m, y, 'right'):
        xn = y
        y = _rb_get(m, y, 'parent')
        guard += 1
        if guard > 100000:
            raise Stop('budget', 'tree walk does not terminate')
    if _rb_get(m, xn, 'right') != y:
        xn = y
    return xn


def rb_decrement(m, xn):
    col = m.load(('p', xn[1], xn[2] + RB_OFF['color']), 4, _I32)
    par = _rb_get(m, xn, 'parent')
    if col == 0 and par != NULL and _rb_get(m, par, 'parent') == xn:
        return _rb_get(m, xn, 'right')
    l = _rb_get(m, xn, 'left')
    if l != NULL:
        y = l
        while True:
            r = _rb_get(m, y, 'right')
            if r == NULL:
                return y
            y = r
    y = par
    guard = 0
    while xn == _rb_get(m, y, 'left'):
        xn = y
        y = _rb_get(m, y, 'parent')
        guard += 1
        if guard > 100000:
            raise Stop('budget', 'tree walk does not terminate')
    return y


def hk_rb_increment(m, args, x):
    return rb_increment(m, args[0])


def hk_rb_decrement(m, args, x):
    return rb_decrement(m, args[0])


def hk_rb_insert(m, args, x):
    left = m.need_int(args[0], 'the side of a tree insertion') & 1
    xn, p, header = args[1], args[2], args[3]
    _rb_set(m, xn, 'parent', p)
    _rb_set(m, xn, 'left', NULL)
    _rb_set(m, xn, 'right', NULL)
    m.store(('p', xn[1], xn[2] + RB_OFF['color']), 4, 0)
    if left:
        _rb_set(m, p, 'left', xn)
        if p == header:
            _rb_set(m, header, 'parent', xn)
            _rb_set(m, header, 'right', xn)
        elif p == _rb_get(m, header, 'left'):
            _rb_set(m, header, 'left', xn)
    else:
        _rb_set(m, p, 'right', xn)
        if p == _rb_get(m, header, 'right'):
            _rb_set(m, header, 'right', xn)
    root = _rb_get(m, header, 'parent')
    m.store(('p', root[1], root[2] + RB_OFF['color']), 4, 1)
    return None


_PREFIX_HOOKS = [
    ('llvm.memcpy.', hk_memcpy), ('llvm.memmove.', hk_memcpy), ('llvm.memset.', hk_memset),
    ('llvm.trap', hk_trap), ('llvm.lifetime', _nop), ('llvm.dbg', _nop), ('llvm.assume', _nop),
    ('_ZSt18_Rb_tree_increment', hk_rb_increment), ('_ZSt18_Rb_tree_decrement', hk_rb_decrement),
    ('_ZSt29_Rb_tree_insert_and_rebalance', hk_rb_insert),
]

BASE_HOOKS = {
    'memcpy': hk_memcpy, 'memmove': hk_memcpy, 'memset': hk_memset, 'memcmp': hk_memcmp, 'strlen': hk_strlen,
    '_Znwm': hk_new, '_Znam': hk_new, '_ZdlPv': hk_delete, '_ZdaPv': hk_delete, '_ZdlPvm': hk_delete, '_ZdaPvm': hk_delete,
    'abort': hk_trap, '__cxa_pure_virtual': hk_trap,
}
