"""c13_sx: the emission part of print_f on the symbolic executor of c06_sx (linear integer domain; floats opaque).

  * SXF extends the executor: (a) Houdini candidates that tie two loop variables together (cursor + counter constant), so
    that the number of characters a counted loop stores is known exactly; (b) a note for every store of '.' into a
    local buffer; (c) the read of a count-down emission loop over a local buffer is judged with the cursor ranges that
    the interval interpreter (c13_fi) proved for the same SSA values.
  * float_layout(): every return path of the routine is compared with the ISO C layout
        [spaces] sign [zeros] text-from-buffer [zeros] [exponent-from-buffer] [spaces]
    where the padding is  max(width - everything else, 0)  placed by the flags '-' and '0' exactly as for integers,
    the sign is '-' / '+' / ' ' / none, and (for %f, %e) the digits after the point plus the zero fill are `precision`
    (6 when none is given) with the point present iff that is positive or '#' is set.
"""
from c06_sx import SX, P, Fv, vkey
from c06_common import enum_cases, show_segments, Flags, emitter_functions
from lin import Lin, Cons, cone, normalize
from c06_sx import lin_syms
from irlib import AnalysisBroken, V
from c13_fv import PV


class SXF(SX):
    def __init__(self, mod, fi_ranges=None, cstr_end=None, **kw):
        SX.__init__(self, mod, **kw)
        self.fi_ranges = fi_ranges or {}
        self.cstr_end = cstr_end or {}      # local object (alloca id) -> largest terminator index proved by c13_fi
        self.value_arg = 2
        self.sign_insts = set()
        self.reads = {}          # loop key -> dict(ok, detail, where, n)
        self.guard_opaque_reads = False     # the reads are judged below with the cursor ranges of c13_fi, not by SX

    # (a) pair relations between loop-head variables
    def candidates(self, fn, L, st, h, hs, E0, hE):
        out = SX.candidates(self, fn, L, st, h, hs, E0, hE)
        ids = sorted(hs)
        isptr = {pid: isinstance(h.env.get(('i', pid)), P) for pid in ids}
        for a in ids:
            for b in ids:
                if isptr[a] and not isptr[b]:
                    (xa, ia), (xb, ib) = hs[a], hs[b]
                    for sg in (1, -1):
                        e = (xa + xb * sg) - (ia + ib * sg)
                        out.append((('pair', a, b, sg), [e, -e]))
        return out

    # (b) where the point is stored
    def exec_inst(self, fn, i, st):
        if i.op == 'store' and i.d.get('store_size') == 1 and i.ops[0].k == 'ci' and (i.ops[0].ival & 0xff) == 46:
            p = st.env.get(i.ops[1].key()) if i.ops[1].k in ('inst', 'arg') else None
            if isinstance(p, P) and p.base[0] == 'a':
                st.notes = st.notes + (('dot', p.base, p.off),)
        out = SX.exec_inst(self, fn, i, st)
        if i.op == 'bitcast' and i.ty.get('k') == 'int' and from_value_param(fn, i.ops[0], self.value_arg):
            # the sign test of the argument: its symbol must survive until the layout is judged
            self.sign_insts.add((fn.name, i.id))
            for s2 in out:
                v = s2.env.get(('i', i.id))
                if isinstance(v, Lin) and len(v.t) == 1:
                    s2.pins = s2.pins | frozenset(v.t.keys())
        elif i.op == 'call' and i.callee == 'strlen':
            for s2 in out:
                p = s2.env.get(i.ops[0].key()) if i.ops[0].k in ('inst', 'arg') else None
                r = s2.env.get(('i', i.id))
                if isinstance(p, P) and p.base[0] == 'a' and isinstance(r, Lin):
                    e = self.cstr_end.get(p.base[2])
                    if e is not None and e < (1 << 30):
                        s2.cons.add_le(p.off + r, e)     # the text ends at or before the terminator c13_fi located
        return out

    # (c) reads of the emission loops
    def assume_fi(self, fn, st):
        """a copy of the constraints with the cursor ranges proved by c13_fi for the values now held in SSA variables"""
        cs = st.cons.copy()
        for k, v in st.env.items():
            if not isinstance(v, P) or v.base[0] != 'a' or v.base[1] != fn.name:
                continue
            r = self.fi_ranges.get(k)
            if not isinstance(r, PV):
                continue
            for (o, lo, hi) in r.alts:
                if o == ('a', v.base[2]) and len(r.alts) == 1:
                    cs.add_le(lo, v.off)
                    cs.add_le(v.off, hi)
        return cs

    def finish_countdown(self, fn, info, st, c0, inits):
        if info['ptr'] is not None and not self.recording:
            p0 = inits.get(info['ptr'].id)
            if isinstance(p0, P) and p0.base[0] == 'a' and self.alloca_size.get(p0.base) is not None:
                size = self.alloca_size[p0.base]
                nm = fn.var_name(V({'k': 'inst', 'id': info['cnt'].id})) or info['cnt'].name
                key = self.loop_key(fn, {'header': info['cnt'].block}, nm)
                cs = self.assume_fi(fn, st)
                ok = cs.entails_le(0, p0.off) and cs.entails_le(p0.off + c0, size)
                r = self.reads.setdefault((fn.name, key), {'ok': True, 'detail': None, 'where': info['call'].where(), 'n': 0})
                r['n'] += 1
                if not ok:
                    try:
                        loop_values(self, [c0, p0.off])
                    except AnalysisBroken as e:
                        r['undecided'] = str(e)
                        return SX.finish_countdown(self, fn, info, st, c0, inits)
                if not ok and r['ok']:
                    r['ok'] = False
                    r['detail'] = 'the emission loop reads %r bytes from offset %r of a %d-byte local buffer: not provably ' \
                                  'inside it' % (c0, p0.off, size)
        return SX.finish_countdown(self, fn, info, st, c0, inits)


def loop_values(sx, lins):
    """a layout quantity that is the exit value of a loop the executor only over-approximates (a digit loop counting down, a
    helper with its own loop form) is unknown: the comparison with the ISO layout is then not a verdict"""
    for x in lins:
        if isinstance(x, Lin):
            for sy in x.t:
                d = sx.describe_opq(sy) if isinstance(sy, str) else None
                if d is not None and d[0] in ('h', 'hE', 'hp', 'j', 'jE'):
                    raise AnalysisBroken('print_f: a length of the emitted layout is the value a loop of %s leaves in %r, which '
                                         'the layout extraction does not summarise' % (d[1], d[2:]))


def from_value_param(fn, v, argno, depth=0, seen=None):
    """v is the float parameter argno, possibly narrowed / widened / selected against constants"""
    seen = seen if seen is not None else set()
    if v.k == 'arg':
        return v.argno == argno
    if v.k != 'inst' or depth > 10 or v.id in seen:
        return False
    seen.add(v.id)
    i = fn.insts[v.id]
    if i.op in ('fpext', 'fptrunc', 'freeze'):
        return from_value_param(fn, i.ops[0], argno, depth + 1, seen)
    if i.op == 'select':
        return any(from_value_param(fn, o, argno, depth + 1, seen) for o in i.ops[1:])
    if i.op == 'phi':
        return any(from_value_param(fn, o, argno, depth + 1, seen) for o in i.ops)
    return False


def run_family(mod, T, fname, triple, fi_ranges, cstr_end=None, clear=()):
    """symbolic execution of the routine for one (base, exponent form, shortest form) context"""
    f = mod.fn(fname)
    emitters = emitter_functions(mod)
    sx = SXF(mod, fi_ranges=fi_ranges, cstr_end=cstr_end, handler_arg=0, inline=[n for n in emitters if n != fname], bit_args=['ops'])
    w, p = Lin.sym('w'), Lin.sym('p')
    base, we, sh = triple
    args = [P(('fn', 'handler')), P(('arg', 1)), Fv(None), w, p, Lin.sym('ops'), Lin(base), Lin(we), Lin(sh)]
    st = sx.start(f, args, [-w, -p])
    # the upper-case bit only selects characters (rule R-UPPER): one value is enough for the layout; every other bit of
    # the directive word is left free (a superset of what the parser can produce)
    for m in (T['upper'],) + tuple(clear):
        b = Lin.sym(('ops', 'bit', m.bit_length() - 1))
        st.cons.add_le(0, b)
        st.cons.add_le(b, 0)
    rets = sx.run_function(f, st)
    return sx, rets, (w, p)


def digit_buffer(sx, f):
    """the local text buffer: the largest local byte array"""
    best = None
    for b in f.blocks:
        for i in b.insts:
            if i.op == 'alloca':
                aty = i.d.get('alloc_ty', {})
                if aty.get('k') == 'array' and aty.get('elem') == 'i8' and (best is None or aty['size'] > best[1]):
                    best = (('a', f.name, i.id), aty['size'], i)
    if best is None:
        raise AnalysisBroken('%s: no local text buffer found (anchor changed)' % f.name)
    return best


def sign_symbol(sx, st):
    """the opaque symbol of `sign bit of the value` that this path decided on, if any"""
    found = []
    for desc, n in sx.intern.items():
        if desc and desc[0] == 'bitcast' and (desc[2], desc[3]) in sx.sign_insts:
            q = Lin.sym('q%d' % n)
            if st.cons.entails_lt(q, 0):
                found.append((q, True))
            elif st.cons.entails_le(0, q):
                found.append((q, False))
    return found


def parse_layout(sx, segs, buf):
    """raw emission log of one path -> [spaces] [literal] [zeros] text [zeros] [text] [spaces]  (counts may be symbolic
    and zero), or None when the log has another structure"""
    r = {'sp_l': None, 'lit': '', 'z_pad': None, 'body': None, 'z_fill': None, 'post': None, 'sp_r': None}
    k = 0

    def at(kind, pred=lambda s: True):
        return k < len(segs) and segs[k][0] == kind and pred(segs[k])

    def isbuf(sg):
        return isinstance(sg[1], P) and sg[1].base == buf

    def islit(sg):
        return isinstance(sg[1], P) and sg[1].base[0] == 'g' and sg[1].off.is_const() and sg[2].is_const()
    if at('c', lambda sg: sg[1] == 32):
        r['sp_l'] = segs[k][2]
        k += 1
    if at('m', islit):
        p_, n = segs[k][1], segs[k][2].c
        b = sx.global_bytes(p_.base[1]) or []
        txt = ''.join(chr(x) for x in b[p_.off.c:p_.off.c + n])
        if len(txt) != n or '\0' in txt:
            return None
        r['lit'] = txt
        k += 1
    if at('c', lambda sg: sg[1] == 48):
        r['z_pad'] = segs[k][2]
        k += 1
    if not at('m', isbuf):
        return None
    r['body'] = (segs[k][1].off, segs[k][2])
    k += 1
    if at('c', lambda sg: sg[1] == 48):
        r['z_fill'] = segs[k][2]
        k += 1
    if at('m', isbuf):
        r['post'] = (segs[k][1].off, segs[k][2])
        k += 1
    if at('c', lambda sg: sg[1] == 32):
        r['sp_r'] = segs[k][2]
        k += 1
    return r if k == len(segs) else None


class FastFlags(Flags):
    """flag bits decided by a syntactic look-up of  b <= 0  /  b >= 1  before the (slow) entailment"""

    def _get(self, ctx, name):
        m = self.t['flags'][name] if name in self.t['flags'] else (self.t['prec'] if name == '.' else self.t['upper'])
        b = Lin.sym((self.sym, 'bit', m.bit_length() - 1))
        keys = ctx.st.cons.keys
        if normalize(Lin(1) - b).key() in keys:
            return True
        if normalize(b).key() in keys:
            return False
        return Flags._get(self, ctx, name)


def slim(sx, s, extra):
    """copy of a return state whose constraints are restricted to what the layout clauses can depend on"""
    syms = set(extra)
    lin_syms(s.segs, syms)
    lin_syms(s.E, syms)
    for n in s.notes:
        lin_syms(n, syms)
    for l in s.cons.items:
        for sy in l.t:
            if isinstance(sy, tuple) and len(sy) == 3 and sy[1] == 'bit':
                syms.add(sy)
    r = s.fork()
    r.cons = Cons(cone(s.cons.items, syms))
    return r


def float_layout(sx, rets, f, T, wp, fam, default_prec=6):
    """{key: (ok, detail)} for the layout clauses of one family"""
    w, p = wp
    fl = FastFlags(T)
    buf, bsize, _ = digit_buffer(sx, f)
    seen = set()
    res = {}
    npaths = 0

    def note(key, ok, detail):
        cur = res.get(key)
        if cur is None or (cur[0] and not ok):
            res[key] = (ok, detail)
    for s, rv in rets:
        if any(sg[0] == 'm' and isinstance(sg[1], P) and sg[1].base[0] == 'a' and sg[1].base != buf for sg in s.segs):
            continue                # the inf / nan word: laid out by the string routine (decided by C06 for %s)
        if any(sg[0] == 'call' for sg in s.segs):
            continue
        npaths += 1
        dots = [n for n in s.notes if n[0] == 'dot' and n[1] == buf]
        signs = sign_symbol(sx, s)
        s = slim(sx, s, list(w.t) + list(p.t) + [next(iter(q.t)) for (q, _) in signs])
        sig = (vkey(s.segs), vkey(tuple(dots)), frozenset(s.cons.keys), tuple(x[1] for x in signs))
        if sig in seen:
            continue
        seen.add(sig)

        def fn(ctx, s=s, dots=dots, signs=signs):
            L = fl.get(ctx, '-')
            Z = (not L) and fl.get(ctx, '0')
            out = []
            lay = parse_layout(sx, s.segs, buf)
            if lay is None:
                return [('output is [spaces] sign [zeros] text [zeros] [exponent] [spaces]', False,
                         'case {%s}: emitted %s' % (', '.join(ctx.desc), show_segments(list(s.segs))))]
            out.append(('output is [spaces] sign [zeros] text [zeros] [exponent] [spaces]', True, None))
            zero = Lin(0)
            body_len = lay['body'][1]
            total = Lin(len(lay['lit'])) + body_len + (lay['z_fill'] or zero) + (lay['post'][1] if lay['post'] else zero)
            pad = ctx.max0(w - total, 'width > text')
            got = {'sp_l': lay['sp_l'] or zero, 'z_pad': lay['z_pad'] or zero, 'sp_r': lay['sp_r'] or zero}
            want = {'sp_l': zero, 'z_pad': zero, 'sp_r': zero}
            want['sp_r' if L else ('z_pad' if Z else 'sp_l')] = pad
            ok = all(ctx.eq(got[k], want[k]) for k in want)
            if not ok:
                loop_values(sx, list(got.values()) + [total])
            flags = '-' if L else ('0' if Z else '')
            out.append(('padding with flags [%s]' % flags, ok, None if ok else
                        'case {%s}: spaces before %r, zeros after the sign %r, spaces after %r; ISO C requires %r, %r, %r '
                        '(width - everything else, placed %s)' % (', '.join(ctx.desc), got['sp_l'], got['z_pad'], got['sp_r'],
                                                                 want['sp_l'], want['z_pad'], want['sp_r'],
                                                                 'right' if L else ('as zeros' if Z else 'left'))))
            if len(signs) == 1:
                neg = signs[0][1]
                PLUS = (not neg) and fl.get(ctx, '+')
                SP = (not neg) and (not PLUS) and fl.get(ctx, ' ')
                exp = '-' if neg else ('+' if PLUS else (' ' if SP else ''))
                ok = lay['lit'] == exp
                out.append(('sign %s' % ('of a negative value' if neg else 'with flags [%s]' % ('+' if PLUS else (' ' if SP else ''))), ok,
                            None if ok else 'case {%s}: the text starts with %r, ISO C requires %r'
                            % (', '.join(ctx.desc), lay['lit'], exp)))
            else:
                out.append(('sign is decided by the sign bit of the value', False,
                            'the path does not decide the sign of the value exactly once (%d tests)' % len(signs)))
            if fam in ('f', 'e'):
                G = fl.get(ctx, '.')
                peff = p if G else Lin(default_prec)
                zl = lay['z_fill'] or zero
                pos = ctx.test('sge', peff, 1, 'precision >= 1')
                need_dot = pos or fl.get(ctx, '#')
                key = 'point present iff precision > 0 or #'
                if len(dots) > 1:
                    out.append((key, False, 'more than one point is stored on a path'))
                elif bool(dots) != bool(need_dot):
                    out.append((key, False, 'case {%s}: the point is %s' % (', '.join(ctx.desc), 'stored' if dots else 'missing')))
                else:
                    out.append((key, True, None))
                key = 'digits after the point + zero fill == precision (%d when none is given)' % default_prec
                if dots:
                    end = lay['body'][0] + body_len
                    nfrac = end - dots[0][2] - 1
                    ok = ctx.eq(nfrac + zl, peff) and ctx.st.cons.entails_le(0, nfrac)
                    if not ok:
                        loop_values(sx, [nfrac, zl])
                    out.append((key, ok, None if ok else 'case {%s}: %r digits follow the point in the buffer and %r zeros are '
                                'added; ISO C requires %r in total' % (', '.join(ctx.desc), nfrac, zl, peff)))
                else:
                    ok = ctx.eq(zl, 0)
                    if not ok:
                        loop_values(sx, [zl])
                    out.append((key, ok, None if ok else 'case {%s}: zeros are appended although no point is printed'
                                % ', '.join(ctx.desc)))
            return out
        for ctx, items in enum_cases(sx, s, fn):
            for (key, ok, detail) in items:
                note(key, ok, detail)
    return res, npaths
