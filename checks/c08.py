"""C08 libc shim mem*/str*: every function analysed under its ISO C / POSIX access contract."""
import os
from common import *
from irlib import compile_many
from absval import PtrVal, IntVal, mk_const, NULL
from lin import Lin
from c01 import trace_const

from irlib import keep_all_but_new_helpers
DIR = 'compat/libc/string'


# ---------------------------------------------------------------------------
# summaries of the libc functions called across units (each is analysed on its own in this check)
# ---------------------------------------------------------------------------
def _cstr(st, p):
    if isinstance(p, PtrVal) and p.obj is not None:
        o = st.objs.get(p.obj)
        if o is not None:
            return o, o.info.get('cstr_len')
    return None, None


def ext_tolower(interp, st, i, args):
    """tolower/toupper: 0 maps to 0 and non-zero to non-zero (all the callers rely on)"""
    x = args[0]
    w = i.ty.get('bits', 32)
    if isinstance(x, IntVal):
        xs = st.force_s(x)
        if st.cons.entails_eq(xs, 0):
            return [(st, mk_const(w, 0))]
        out = []
        if not st.cons.entails_le(1, xs) and not st.cons.entails_le(xs, -1):
            s0 = st.fork()
            s0.cons.add_eq(xs, 0)
            if not interp.infeasible(s0, xs, Lin(0)):
                out.append((s0, mk_const(w, 0)))
            st.add_diseq(xs, 0)
        r = st.fresh_int(w, True, 'lower')
        st.cons.add_le(-128, r.s)
        st.cons.add_le(r.s, 255)
        st.add_diseq(r.s, 0)
        out.append((st, r))
        return out
    return None


def ext_strlen_strict(interp, st, i, args):
    """strlen scans to the terminator: on a buffer that is only known to be readable for a fixed number of
    bytes this is an unbounded read"""
    p = args[0]
    o, n = _cstr(st, p)
    w = i.ty.get('bits', 64)
    if n is not None:
        return [(st, IntVal(w, n - p.off, None))]
    if o is not None and o.size is not None:
        interp.oblige('bounds:unbounded-scan', i, False,
                      'strlen() scans %s for a terminator although only %r bytes are known to be readable'
                      % (interp.describe_obj(st, p.obj), o.size), interp.describe_obj(st, p.obj))
    return [(st, st.fresh_int(w, False, 'strlen'))]


def ext_strnlen(interp, st, i, args):
    p, mx = args[0], args[1]
    o, n = _cstr(st, p)
    w = i.ty.get('bits', 64)
    m = st.force_u(mx)
    r = st.fresh_int(w, False, 'strnlen')
    st.cons.add_le(r.u, m)
    if n is not None:
        st.cons.add_le(r.u, n - p.off)
    elif isinstance(p, PtrVal) and p.obj is not None:
        interp.check_access(st, p, m, i, 'strnlen-scan')
    return [(st, r)]


def ext_strcpy(interp, st, i, args):
    d, s_ = args[0], args[1]
    o, n = _cstr(st, s_)
    if n is not None:
        cnt = n - s_.off + 1
        interp.check_access(st, d, cnt, i, 'strcpy-dst')
        interp.mem_range_write(st, d, cnt, i)
    else:
        interp.oblige('bounds:unbounded-copy', i, False, 'strcpy() from a source without a known terminator',
                      'src')
    return [(st, d)]


def ext_strchr(interp, st, i, args):
    p = args[0]
    o, n = _cstr(st, p)
    if n is None:
        return None
    s0 = st.fork()
    r = st.fresh_int(64, False, 'chr')
    st.cons.add_le(p.off, r.u)
    st.cons.add_le(r.u, n)
    return [(s0, NULL), (st, PtrVal(p.obj, r.u, p.lo, p.hi, True))]


def ext_strcspn(interp, st, i, args):
    p = args[0]
    o, n = _cstr(st, p)
    r = st.fresh_int(i.ty.get('bits', 64), False, 'cspn')
    if n is not None:
        st.cons.add_le(r.u, n - p.off)
    return [(st, r)]


def ext_strchrnul(interp, st, i, args):
    p = args[0]
    o, n = _cstr(st, p)
    if n is None:
        return None
    r = st.fresh_int(64, False, 'chrnul')
    st.cons.add_le(p.off, r.u)
    st.cons.add_le(r.u, n)
    return [(st, PtrVal(p.obj, r.u, p.lo, p.hi, True))]


LIBC_EXT = {'strchrnul': ext_strchrnul,
            'tolower': ext_tolower, 'toupper': ext_tolower, 'strlen': ext_strlen_strict, 'strnlen': ext_strnlen,
            'strcpy': ext_strcpy, 'strchr': ext_strchr, 'strcspn': ext_strcspn}


# ---------------------------------------------------------------------------
# argument set-ups
# ---------------------------------------------------------------------------
def buf(idx, size_expr, name=None):
    """pointer parameter idx points to exactly size_expr readable/writable bytes (no terminator promised)"""
    def setup(run, st, env, names, args, sps):
        import ast
        sz = env.lin(ast.parse(size_expr, mode='eval'))
        o = st.new_obj('param', sz, name or ('arg%d' % idx), {'desc': 'buffer arg%d[%s]' % (idx, size_expr)})
        args[idx] = PtrVal(o.id, Lin(0))
    return setup


def seq(*fs):
    def setup(run, st, env, names, args, sps):
        for f in fs:
            f(run, st, env, names, args, sps)
    return setup


def cstr(idx, extra=None, maxlen=1 << 30):
    """arg idx is a C string of symbolic length len_arg<idx>; extra = expression for spare room after the
    terminator (destination strings)"""
    def setup(run, st, env, names, args, sps):
        import ast
        n = st.fresh_int(64, False, 'len_arg%d' % idx)
        st.cons.add_le(n.u, maxlen)
        env.bind('len_arg%d' % idx, n.u)
        size = n.u + 1
        if extra:
            size = size + env.lin(ast.parse(extra, mode='eval'))
        o = st.new_obj('param', size, 'arg%d' % idx, {'desc': 'C string arg%d' % idx, 'cstr_len': n.u})
        args[idx] = PtrVal(o.id, Lin(0))
    return setup


def overlap(dst_above):
    """memmove: both pointers into one object, dst above (or below) src, ranges inside the object"""
    def setup(run, st, env, names, args, sps):
        n = env.lin(__import__('ast').parse('arg2', mode='eval'))
        a = st.fresh_int(64, False, 'dst_off')
        b = st.fresh_int(64, False, 'src_off')
        st.cons.add_le(a.u, 1 << 30)
        st.cons.add_le(b.u, 1 << 30)
        if dst_above:
            st.cons.add_lt(b.u, a.u)
        else:
            st.cons.add_lt(a.u, b.u)
        big = st.fresh_int(64, False, 'objsize')
        st.cons.add_le(a.u + n, big.u)
        st.cons.add_le(b.u + n, big.u)
        o = st.new_obj('param', big.u, 'region', {'desc': 'memory region holding both ranges'})
        args[0] = PtrVal(o.id, a.u)
        args[1] = PtrVal(o.id, b.u)
        env.bind('dst_off', a.u)
        env.bind('src_off', b.u)
        st.ghost['region'] = o.id
    return setup


def first_access_hook(interp, st, inst, p, size, kind):
    """memmove: remember the offset of the first byte read (direction of the copy)"""
    if kind == 'load' and isinstance(p, PtrVal) and p.obj == st.ghost.get('region') and 'firstread' not in st.ghost:
        st.ghost['firstread'] = p.off


N30 = ['arg2 <= 1073741824']


def specs():
    return {
        'memchr': FnSpec(setup=buf(0, 'arg2'), pre=N30, post=[
            dict(name='empty', when=['arg2 == 0'], then=['ret_null == 1']),
            dict(name='inside', when=['ret_null == 0'], then=['ret_arg == 0', 'ret_off >= 0', 'ret_off <= arg2 - 1'])]),
        'memrchr': FnSpec(setup=buf(0, 'arg2'), pre=N30, post=[
            dict(name='empty', when=['arg2 == 0'], then=['ret_null == 1']),
            dict(name='inside', when=['ret_null == 0'], then=['ret_arg == 0', 'ret_off >= 0', 'ret_off <= arg2 - 1'])]),
        'memcmp': FnSpec(setup=seq(buf(0, 'arg2'), buf(1, 'arg2')), pre=N30, post=[
            dict(name='empty', when=['arg2 == 0'], then=['ret == 0']),
            dict(name='range', then=['ret >= -255', 'ret <= 255'])]),
        'memcpy': FnSpec(setup=seq(buf(0, 'arg2'), buf(1, 'arg2')), pre=N30, post=[
            dict(name='returns-dst', then=['ret_arg == 0', 'ret_off == 0'])]),
        'memset': FnSpec(setup=buf(0, 'arg2'), pre=N30, post=[dict(name='returns-dst', then=['ret_arg == 0', 'ret_off == 0'])]),
        'strlen': FnSpec(setup=cstr(0), post=[dict(name='length', then=['ret == len_arg0'])]),
        'strnlen': FnSpec(setup=cstr(0), post=[
            dict(name='short', when=['len_arg0 <= arg1'], then=['ret == len_arg0']),
            dict(name='cut', when=['len_arg0 > arg1'], then=['ret == arg1'])]),
        'strnlen#bounded': FnSpec(setup=buf(0, 'arg1'), pre=['arg1 <= 1073741824'],
                                  post=[dict(name='bounded', then=['ret <= arg1'])]),
        'strcpy': FnSpec(setup=seq(cstr(1), buf(0, 'len_arg1 + 1')),
                         post=[dict(name='returns-dst', then=['ret_arg == 0', 'ret_off == 0'])]),
        'strncpy': FnSpec(setup=seq(cstr(1), buf(0, 'arg2')), pre=N30,
                          post=[dict(name='returns-dst', then=['ret_arg == 0', 'ret_off == 0'])]),
        'strlcpy': FnSpec(setup=seq(cstr(1), buf(0, 'arg2')), pre=N30,
                          post=[dict(name='returns-source-length', then=['ret == len_arg1'])]),
        'strcat': FnSpec(setup=seq(cstr(1), cstr(0, extra='len_arg1')),
                         post=[dict(name='returns-dst', then=['ret_arg == 0', 'ret_off == 0'])]),
        'strncat': FnSpec(setup=seq(cstr(1), cstr(0, extra='arg2')), pre=N30,
                          post=[dict(name='returns-dst', then=['ret_arg == 0', 'ret_off == 0'])]),
        'strcmp': FnSpec(setup=seq(cstr(0), cstr(1)), post=[dict(name='range', then=['ret >= -255', 'ret <= 255'])]),
        'strncmp': FnSpec(setup=seq(cstr(0), cstr(1)), post=[
            dict(name='empty', when=['arg2 == 0'], then=['ret == 0']),
            dict(name='range', then=['ret >= -255', 'ret <= 255'])]),
        'strcasecmp': FnSpec(setup=seq(cstr(0), cstr(1))),
        'strncasecmp': FnSpec(setup=seq(cstr(0), cstr(1)), post=[dict(name='empty', when=['arg2 == 0'], then=['ret == 0'])]),
        'strchrnul': FnSpec(setup=cstr(0), post=[
            dict(name='inside', then=['ret_arg == 0', 'ret_off >= 0', 'ret_off <= len_arg0'])]),
        'strchr': FnSpec(setup=cstr(0), post=[
            dict(name='inside', when=['ret_null == 0'], then=['ret_arg == 0', 'ret_off >= 0', 'ret_off <= len_arg0'])]),
        'strrchr': FnSpec(setup=cstr(0), post=[
            dict(name='inside', when=['ret_null == 0'], then=['ret_arg == 0', 'ret_off >= 0', 'ret_off <= len_arg0'])]),
        'strstr': FnSpec(setup=seq(cstr(0), cstr(1)), post=[
            dict(name='empty-needle', when=['len_arg1 == 0'], then=['ret_null == 0', 'ret_off == 0']),
            dict(name='inside', when=['ret_null == 0'], then=['ret_arg == 0', 'ret_off >= 0', 'ret_off <= len_arg0'])]),
        'strcasestr': FnSpec(setup=seq(cstr(0), cstr(1)), post=[
            dict(name='empty-needle', when=['len_arg1 == 0'], then=['ret_null == 0', 'ret_off == 0']),
            dict(name='inside', when=['ret_null == 0'], then=['ret_arg == 0', 'ret_off >= 0', 'ret_off <= len_arg0'])]),
        'strspn': FnSpec(setup=seq(cstr(0), cstr(1)), post=[dict(name='range', then=['ret <= len_arg0'])]),
        'strcspn': FnSpec(setup=seq(cstr(0), cstr(1)), post=[dict(name='range', then=['ret <= len_arg0'])]),
        'strpbrk': FnSpec(setup=seq(cstr(0), cstr(1)), post=[
            dict(name='inside', when=['ret_null == 0'], then=['ret_arg == 0', 'ret_off >= 0', 'ret_off <= len_arg0'])]),
        'strdup': FnSpec(setup=cstr(0)),
        'strndup': FnSpec(setup=buf(0, 'arg1'), pre=['arg1 <= 1073741824']),
        'strndup#terminated': FnSpec(setup=cstr(0), pre=['arg1 <= 1073741824']),
        'strlwr': FnSpec(setup=cstr(0), post=[dict(name='returns-arg', then=['ret_arg == 0', 'ret_off == 0'])]),
        'strupr': FnSpec(setup=cstr(0), post=[dict(name='returns-arg', then=['ret_arg == 0', 'ret_off == 0'])]),
    }


def ext_memcpy_ascending(interp, st, i, args):
    """memcpy as called by memmove: an ascending copier is only correct when the destination does not start
    inside the source range (dst <= src or dst >= src + n)"""
    from absint import ext_memcpy
    d, s_, n = args[0], args[1], args[2]
    if isinstance(d, PtrVal) and isinstance(s_, PtrVal) and d.obj is not None and d.obj == s_.obj and isinstance(n, IntVal):
        nl = st.force_u(n)
        ok = st.cons.entails_le(d.off, s_.off) or st.cons.entails_le(s_.off + nl, d.off) or \
            st.cons.entails_eq(nl, 0)
        interp.oblige('overlap:forward-copy', i, ok,
                      None if ok else 'memmove hands overlapping ranges with src < dst < src + n to the ascending '
                      'memcpy (dst offset %r, src offset %r, n %r): the tail of the source is overwritten before it '
                      'is read' % (d.off, s_.off, nl), 'memcpy')
    return ext_memcpy(interp, st, i, args)


def ascending_rule(rep, mod):
    """memcpy copies in ascending address order in every loop (memmove relies on it)"""
    f = mod.fn('memcpy')
    n = 0
    for L in f.loops:
        for ph in [i for i in L['header'].insts if i.op == 'phi' and i.ty.get('k') == 'ptr']:
            for (bb, v) in ph.incoming:
                if f.bmap[bb] in L['blocks']:
                    r, off = trace_const(f, v)
                    if r.k == 'inst' and r.id == ph.id:
                        n += 1
                        rep.inst('R-MEMCPY-ASCENDING', 'memcpy', 'cursor-steps-upwards', off > 0, ph.where(),
                                 None if off > 0 else 'a copy cursor of memcpy moves by %d bytes per iteration' % off)
    if n < 2:
        raise AnalysisBroken('memcpy: copy cursors not recognised (%d)' % n)


def guarded_skip(f, L, outer, r, off):
    """the outer search cursor continues at (inner cursor + off) where the inner cursor belongs to a nested skip loop
    that starts at the outer cursor, advances by one, and continues ONLY while the character at (inner cursor + off)
    differs from the first character of the pattern (parameter 1, offset 0): every position stepped over was tested
    and cannot start an occurrence - a legitimate speed-up, unlike resuming at the mismatch position"""
    p2 = f.insts[r.id]
    if p2.op != 'phi' or off < 1:
        return False
    inner = [l for l in f.loops if l['header'] is p2.block and l is not L and set(l['blocks']) <= set(L['blocks'])]
    if not inner:
        return False
    L2 = inner[0]
    # starts at the outer cursor, steps by one
    for (bb, v) in p2.incoming:
        rr, oo = trace_const(f, v)
        if f.bmap[bb] in L2['blocks']:
            if not (rr.k == 'inst' and rr.id == p2.id and oo == 1):
                return False
        elif not (rr.k == 'inst' and rr.id == outer.id and oo == 0):
            return False
    # continue edges imply  text[inner + off] != pattern[0]
    edges = []
    for c in [i for b in L2['blocks'] for i in b.insts if i.op == 'icmp' and i.pred in ('ne', 'eq')]:
        sides = []
        for o in c.ops:
            x = o
            for _ in range(3):
                xi = f.inst_of(x)
                if xi is not None and xi.op in ('sext', 'zext'):
                    x = xi.ops[0]
                else:
                    break
            xi = f.inst_of(x)
            if xi is None or xi.op != 'load':
                sides.append(None)
                continue
            root, o_ = trace_const(f, xi.ops[0])
            if root.k == 'inst' and root.id == p2.id and o_ == off:
                sides.append('text')
            elif root.k == 'arg' and root.argno == 1 and o_ == 0:
                sides.append('first')
            else:
                sides.append(None)
        if sorted(x for x in sides if x) == ['first', 'text']:
            edges += f.edges_implying(c, c.pred == 'ne')
    if not edges:
        return False
    latch_targets = [b for b in L2['blocks'] if L2['header'] in b.succs and b is not L2['header']] or [L2['header']]
    # every way around the inner loop uses an edge on which the tested character differs from the first pattern character
    es = set((a.name, b.name) for a, b in edges)
    body = [b for b in L2['blocks'] if b is not L2['header']]
    seen, work = set(), [L2['header']]
    reach_latch_without = False
    while work:
        b = work.pop()
        if b.name in seen:
            continue
        seen.add(b.name)
        for s_ in b.succs:
            if s_ not in L2['blocks'] or (b.name, s_.name) in es:
                continue
            if s_ is L2['header']:
                reach_latch_without = True
            work.append(s_)
    return not reach_latch_without


def cursor_step_rule(rep, mods):
    """R-CURSORSTEP: in the scanning/comparing functions every loop-carried cursor over a string (a pointer phi, or an
    integer phi used as an index into a string) advances by exactly one element per iteration.  For strstr/strcasestr
    this is the clause "after a failed partial match at position i the search resumes at i + 1" (resuming at the
    mismatch position skips occurrences that overlap the partial match); for the compare/convert functions it is
    "both strings are walked in lockstep, no character is skipped".  Decided per function on its own IR (no comparison
    of one twin's shape with the other's), independent of pointer/index form and of the loop statement used."""
    def steps(f):
        out = []
        for L in f.loops:
            for ph in [i for i in L['header'].insts if i.op == 'phi']:
                is_ptr = ph.ty.get('k') == 'ptr'
                is_idx = False
                if not is_ptr and ph.ty.get('k') == 'int':
                    # an integer phi that (possibly extended) indexes a getelementptr
                    work, seen = [ph], set()
                    while work and not is_idx:
                        x = work.pop()
                        if x.id in seen:
                            continue
                        seen.add(x.id)
                        for u in f.users(x):
                            if u.op in ('zext', 'sext', 'trunc'):
                                work.append(u)
                            elif u.op == 'getelementptr' and any(o.k == 'inst' and o.id == x.id for o in u.ops[1:]):
                                is_idx = True
                if not (is_ptr or is_idx):
                    continue
                for (bb, v) in ph.incoming:
                    if f.bmap[bb] not in L['blocks']:
                        continue
                    if is_ptr:
                        r, off = trace_const(f, v)
                        st = off if (r.k == 'inst' and r.id == ph.id) else None
                        if st is None and r.k == 'inst' and guarded_skip(f, L, ph, r, off):
                            st = 1      # advances past positions that were each tested and cannot start a match
                    else:
                        st = None
                        g = f.inst_of(v)
                        if g is not None and g.op == 'add' and any(o.k == 'ci' for o in g.ops):
                            o2 = [o for o in g.ops if o.k != 'ci']
                            if o2 and o2[0].k == 'inst' and o2[0].id == ph.id:
                                st = [o for o in g.ops if o.k == 'ci'][0].ival
                        elif v.k == 'inst' and v.id == ph.id:
                            st = 0
                    out.append((L, ph, st))
        return out
    for name in ('strstr', 'strcasestr', 'strcmp', 'strcasecmp', 'strncmp', 'strncasecmp', 'strlwr', 'strupr'):
        f = mods[name].fn(name)
        ss = steps(f)
        if not ss:
            raise AnalysisBroken('%s: no loop-carried string cursor found (anchor changed)' % name)
        bad = [(L, ph, st) for (L, ph, st) in ss if st != 1]
        ok = not bad
        detail = None
        if bad:
            L, ph, st = bad[0]
            detail = ('a string cursor of %s (%s) is %s on a loop back edge; it must advance by exactly one: %s'
                      % (name, ph.name or 'phi', 'advanced by %d' % st if st is not None else 're-assigned from another value',
                         'resuming the search anywhere but at i + 1 skips overlapping occurrences'
                         if 'str' in name and 'st' in name[3:] else 'the strings are not walked in lockstep'))
        rep.inst('R-CURSORSTEP', name, 'every-string-cursor-advances-by-one', ok,
                 (bad[0][1].where() if bad else '%s:%d' % (f.file, f.line)), detail, fact={'cursors': len(ss)})


def byte_eq_rule(rep, mods):
    """R-BYTEEQ: the character-search functions compare the byte read from memory and the search value `c` as the same
    kind of 8-bit quantity: both extended the same way (or both left as i8).  A zero-extended byte compared with a
    sign-extended (char)c can never be equal for values 0x80..0xFF: memchr(buf, 0xff, n) would miss a present byte."""
    # strchr and strrchr delegate the scan to strchrnul / strchr
    for name, carg in (('memchr', 1), ('memrchr', 1), ('strchrnul', 1)):
        if name not in mods:
            continue
        f = mods[name].fn(name)
        found = 0

        def kind(v):
            """('load'|'arg', extension or None) for an icmp operand derived from a byte load / from parameter c"""
            ext = None
            for _ in range(6):
                if v.k == 'arg':
                    return ('arg' if v.argno == carg else None), ext
                i = f.inst_of(v)
                if i is None:
                    return None, ext
                if i.op in ('zext', 'sext'):
                    if ext is None:
                        ext = i.op
                    v = i.ops[0]
                elif i.op == 'trunc':
                    v = i.ops[0]
                elif i.op == 'load' and i.bits == 8:
                    return 'load', ext
                elif i.op == 'and' and any(o.k == 'ci' and o.uval == 255 for o in i.ops):
                    if ext is None:
                        ext = 'zext'
                    v = [o for o in i.ops if o.k != 'ci'][0]
                else:
                    return None, ext
            return None, ext
        for c in f.all_insts():
            if c.op != 'icmp' or c.pred not in ('eq', 'ne'):
                continue
            ka, kb = kind(c.ops[0]), kind(c.ops[1])
            if {ka[0], kb[0]} != {'load', 'arg'}:
                continue
            found += 1
            ok = ka[1] == kb[1]
            rep.inst('R-BYTEEQ', name, 'byte-and-search-value-compared-as-the-same-8-bit-kind', ok, c.where(),
                     None if ok else 'the byte read from memory is %s, the search value is %s before they are compared: '
                     'values 0x80..0xFF never compare equal (e.g. %s(buf, 0xff, ...) misses a present byte)'
                     % (*[{'zext': 'zero-extended', 'sext': 'sign-extended', None: 'not extended'}[k[1]]
                          for k in sorted((ka, kb), key=lambda t: t[0] != 'load')], name),
                     fact={'load': ka[1] if ka[0] == 'load' else kb[1], 'c': ka[1] if ka[0] == 'arg' else kb[1]})
        if found == 0:
            raise AnalysisBroken('%s: comparison of a byte with the search value not found (anchor changed)' % name)


def movedir(rep, mod):
    """memmove: bounds for overlapping ranges in both orders (abstract interpretation) and copy direction: in the
    dst-above-src case both cursors start at the far end and move downwards, each access after the decrement"""
    f = mod.fn('memmove')
    where = '%s:%d' % (f.file, f.line)
    for above, label in ((True, 'dst-above-src'), (False, 'dst-below-src')):
        it = Interp(mod, externals=dict(LIBC_EXT, memcpy=ext_memcpy_ascending))
        run = ContractRun(it, [])
        run.run('memmove', FnSpec(setup=overlap(above),
                                  pre=(N30 + ['arg2 >= 1', 'dst_off - src_off <= arg2 - 1']) if above else N30,
                                  post=[dict(name='returns-dst', then=['ret_arg == 0'])]))
        obs = summarize(it, run)
        for o in obs:
            o['function'] = 'memmove'
            if o.get('call_stack'):
                o['root'] = 'memmove'
                o['leaf'] = 'memmove'
        rep.add_absint('R-MEMMOVE:' + label, obs)
    calls = [c.callee for c in f.calls()]
    rep.inst('R-MEMMOVE', 'memmove', 'non-overlapping-case-forwards-to-memcpy', 'memcpy' in calls or
             any((c or '').startswith('llvm.memcpy') for c in calls), where,
             None if 'memcpy' in calls else 'memmove no longer forwards the non-overlapping case to memcpy')
    # backward loop
    if not any(len([i for i in L['header'].insts if i.op == 'phi' and i.ty.get('k') == 'ptr']) >= 2 for L in f.loops):
        # no loop that walks two pointers: the copy is written in another form (index walk, helper).  Which bytes end up where,
        # for every overlap, is decided by c08_content (R-COPY); this shape rule does not apply
        rep.defer_broken('memmove: no loop walking a source and a destination pointer (R-MEMMOVE describes the pointer-walk form only)')
        return
    ok_loop = False
    detail = 'no backward byte loop found'
    for L in f.loops:
        hdr = L['header']
        pphis = [i for i in hdr.insts if i.op == 'phi' and i.ty.get('k') == 'ptr']
        if len(pphis) < 2:
            continue
        good = 0
        for ph in pphis:
            init_ok = step_ok = False
            latch_v = None
            for (bb, v) in ph.incoming:
                blk = f.bmap[bb]
                if blk in L['blocks']:
                    g = f.inst_of(v)
                    if g is not None and g.op == 'getelementptr' and g.ops[0].k == 'inst' and g.ops[0].id == ph.id:
                        st_ = g.d['gep']['steps']
                        if len(st_) == 1 and st_[0]['v'].get('k') == 'ci' and st_[0]['v']['v'] == -1:
                            step_ok = True
                            latch_v = g
                else:
                    g = f.inst_of(v)
                    if g is not None and g.op == 'getelementptr' and g.ops[0].k == 'arg':
                        st_ = g.d['gep']['steps']
                        if len(st_) == 1 and st_[0]['v'].get('k') == 'arg' and st_[0]['v']['i'] == 2:
                            init_ok = True
            # the byte is accessed through the already decremented pointer
            acc_ok = latch_v is not None and any(
                (u.op == 'load' and u.ops[0].k == 'inst' and u.ops[0].id == latch_v.id) or
                (u.op == 'store' and u.ops[1].k == 'inst' and u.ops[1].id == latch_v.id) for u in f.users(latch_v))
            if init_ok and step_ok and acc_ok:
                good += 1
        if good >= 2:
            ok_loop = True
        else:
            detail = 'the overlapping copy loop does not start at src+n / dst+n and step down by one with pre-decrement'
    rep.inst('R-MEMMOVE', 'memmove', 'overlapping-copy-runs-from-the-far-end', ok_loop, where, None if ok_loop else detail)
    # the backward loop is only entered when src < dst: every path from the entry to the loop uses a CFG edge on which a
    # comparison of the two pointer parameters implies src < dst (whatever form the test is written in: src < dst,
    # !(src >= dst), dst > src, part of a && / || chain, early return for the other case ...)
    guard_ok = False
    back_headers = []
    for L in f.loops:
        pphis = [i for i in L['header'].insts if i.op == 'phi' and i.ty.get('k') == 'ptr']
        down = 0
        for ph in pphis:
            for (bb, v) in ph.incoming:
                g = f.inst_of(v)
                if f.bmap[bb] in L['blocks'] and g is not None and g.op == 'getelementptr' and g.ops[0].k == 'inst' \
                        and g.ops[0].id == ph.id and len(g.d['gep']['steps']) == 1 \
                        and g.d['gep']['steps'][0]['v'].get('k') == 'ci' and g.d['gep']['steps'][0]['v']['v'] < 0:
                    down += 1
        if down:
            back_headers.append(L['header'])
    edges = []
    for c in f.all_insts():
        if c.op == 'icmp' and c.pred in ('ult', 'ugt', 'uge', 'ule'):
            r0, o0 = trace_const(f, c.ops[0])
            r1, o1 = trace_const(f, c.ops[1])
            if not (r0.k == 'arg' and r1.k == 'arg' and o0 == 0 and o1 == 0 and {r0.argno, r1.argno} == {0, 1}):
                continue
            src_first = r0.argno == 1
            # outcome of the comparison under which src < dst holds
            want = {('ult', True): True, ('ugt', False): True, ('uge', True): False, ('ule', False): False}.get(
                (c.pred, src_first))
            if want is None:
                continue        # src > dst / src <= dst / dst >= src ...: says nothing about src < dst on either edge
            edges += f.edges_implying(c, want)
    if back_headers and edges:
        guard_ok = all(f.only_through_edges(edges, h) for h in back_headers)
    rep.inst('R-MEMMOVE', 'memmove', 'backward-copy-guarded-by-src<dst', guard_ok, where,
             None if guard_ok else 'the backward (descending) copy loop can be reached on a path on which src < dst was not '
             'established: for dst below src an overlapping descending copy overwrites bytes before they are read')


def wide_access_rule(rep, mod):
    """memcpy: every access wider than one byte is dominated by the alignment test of both pointers"""
    f = mod.fn('memcpy')
    where = '%s:%d' % (f.file, f.line)
    guards = []
    for b in f.blocks:
        t = b.term
        if t.op != 'br' or 'f' not in t.d or t.ops[0].k != 'inst':
            continue
        c = f.insts[t.ops[0].id]
        # !( (src | dst) & 7 )  ->  icmp eq/ne (and (or p2i, p2i), 7), 0   possibly through &&-chains
        ok = False
        if c.op == 'icmp' and c.pred in ('eq', 'ne'):
            a = f.inst_of(c.ops[0])
            if a is not None and a.op == 'and' and a.ops[1].k == 'ci' and a.ops[1].uval == 7:
                o = f.inst_of(a.ops[0])
                if o is not None and o.op == 'or':
                    srcs = [f.inst_of(x) for x in o.ops]
                    if all(x is not None and x.op == 'ptrtoint' for x in srcs):
                        ok = True
        if ok:
            aligned_succ = f.bmap[t.d['t'] if c.pred == 'eq' else t.d['f']]
            guards.append(aligned_succ)
    wide = [i for i in f.all_insts() if (i.op == 'load' and i.ty.get('k') == 'int' and i.bits > 8) or
            (i.op == 'store' and i.d.get('store_size', 1) > 1 and f.inst_of(i.ops[0]) is not None and
             f.inst_of(i.ops[0]).op == 'load')]
    for i in wide:
        ok = any(f.dominates_block(g, i.block) for g in guards)
        rep.inst('R-WORDALIGN', 'memcpy', 'wide-access-under-alignment-guard', ok, i.where(),
                 None if ok else 'a %s wider than a byte is not guarded by the alignment test of both pointers' % i.op)
    rep.inst('R-WORDALIGN', 'memcpy', 'alignment-guard-present', bool(guards) or not wide, where,
             None if (guards or not wide) else 'word accesses without any alignment test')


def ptr_roots(f, v):
    """parameters a pointer value is derived from (through phis, geps and casts)"""
    out, seen, work = set(), set(), [v]
    while work:
        x = work.pop()
        if x.k == 'arg':
            out.add(x.argno)
            continue
        i = f.inst_of(x)
        if i is None or i.id in seen:
            continue
        seen.add(i.id)
        if i.op == 'phi':
            work += [w for (_, w) in i.incoming]
        elif i.op in ('getelementptr', 'bitcast'):
            work.append(i.ops[0])
    return out


def uchar_rule(rep, mods):
    """comparison results are differences of unsigned char values"""
    for name in ('memcmp', 'strcmp', 'strncmp'):
        mod = mods[name]
        f = mod.fn(name)
        for r in f.returns():
            if not r.ops:
                continue
            vals = [r.ops[0]]
            ins = f.inst_of(r.ops[0])
            if ins is not None and ins.op == 'phi':
                vals = [v for (_, v) in ins.incoming]
            for v in vals:
                if v.k == 'ci':
                    continue
                s_ = f.inst_of(v)
                ok = False
                if s_ is not None and s_.op == 'sub':
                    ops = [f.inst_of(x) for x in s_.ops]
                    ok = all(o is not None and o.op == 'zext' and f.inst_of(o.ops[0]) is not None and
                             f.inst_of(o.ops[0]).op == 'load' and f.inst_of(o.ops[0]).bits == 8 for o in ops)
                rep.inst('R-UCHAR', name, 'result-is-difference-of-unsigned-chars', ok, r.where(),
                         None if ok else 'the value returned is not (unsigned char)a - (unsigned char)b')
                if ok:
                    ra, rb = [ptr_roots(f, f.inst_of(o.ops[0]).ops[0]) for o in ops]
                    if not ra or not rb or len(ra) > 1 or len(rb) > 1:
                        raise AnalysisBroken('%s: cannot tell which string the bytes of the returned difference come from' % name)
                    rep.inst('R-UCHAR', name, 'result-is-first-minus-second', ra == {0} and rb == {1}, s_.where(),
                             'the difference is taken between bytes of parameters %s and %s: the sign of every result is '
                             'reversed' % (sorted(ra), sorted(rb)))


def casefold_rule(rep, mods):
    """R-CASEFOLD: strcasecmp / strncasecmp return the difference of the LOWER-CASE folds of the bytes at the two cursors,
    first string minus second (POSIX: "as if the strings had been converted to lowercase and then a byte comparison
    performed").  Folding the result with toupper() gives the wrong sign for the six characters between 'Z' and 'a'
    ("aa_" vs "aaa"), swapping the operands negates every result."""
    for name in ('strcasecmp', 'strncasecmp'):
        f = mods[name].fn(name)

        def roots(v, seen=None):
            """parameters a pointer value is derived from"""
            seen = set() if seen is None else seen
            out = set()
            work = [v]
            while work:
                x = work.pop()
                if x.k == 'arg':
                    out.add(x.argno)
                    continue
                i = f.inst_of(x)
                if i is None or i.id in seen:
                    continue
                seen.add(i.id)
                if i.op == 'phi':
                    work += [w for (_, w) in i.incoming]
                elif i.op in ('getelementptr', 'bitcast'):
                    work.append(i.ops[0])
            return out

        def folded(v):
            """(fold function, parameter of the string the byte comes from) for an operand of the returned difference"""
            for _ in range(4):
                i = f.inst_of(v)
                if i is None:
                    return None
                if i.op in ('sext', 'zext', 'trunc'):
                    v = i.ops[0]
                    continue
                if i.op == 'call' and i.callee in ('tolower', 'toupper'):
                    a = i.ops[0]
                    for _ in range(3):
                        j = f.inst_of(a)
                        if j is not None and j.op in ('sext', 'zext'):
                            a = j.ops[0]
                    j = f.inst_of(a)
                    if j is None or j.op != 'load' or j.bits != 8:
                        return None
                    unsigned = any(f.inst_of(x) is not None and f.inst_of(x).op == 'zext' and f.inst_of(x).ops[0].k == 'inst'
                                   and f.inst_of(x).ops[0].id == j.id for x in [i.ops[0]]) or i.ops[0].k != 'inst' or \
                        f.inst_of(i.ops[0]).op != 'sext'
                    return i.callee, roots(j.ops[0]), unsigned
                return None
            return None
        n = 0
        for r in f.returns():
            if not r.ops:
                continue
            vals = [r.ops[0]]
            ins = f.inst_of(r.ops[0])
            if ins is not None and ins.op == 'phi':
                vals = [v for (_, v) in ins.incoming]
            for v in vals:
                if v.k == 'ci':
                    continue
                s_ = f.inst_of(v)
                if s_ is None or s_.op != 'sub':
                    raise AnalysisBroken('%s: the value returned at %s is not a difference (form not recognised)' % (name, r.where()))
                a, b = folded(s_.ops[0]), folded(s_.ops[1])
                if a is None or b is None:
                    raise AnalysisBroken('%s: operands of the returned difference at %s are not case folds of bytes read from '
                                         'the strings (form not recognised)' % (name, s_.where()))
                n += 1
                ok = a[0] == b[0] == 'tolower' and a[1] == {0} and b[1] == {1} and a[2] and b[2]
                why = None
                if not ok:
                    if a[0] != 'tolower' or b[0] != 'tolower':
                        why = ('the result is the difference of %s()/%s() of the two bytes: POSIX compares the lower-case folds; '
                               'for the characters between \'Z\' and \'a\' ([ \\ ] ^ _ `) the sign comes out wrong, e.g. '
                               '%s("aaa", "aa_"%s) must be positive' % (a[0], b[0], name, ', 3' if 'n' in name[3:4] else ''))
                    elif not (a[2] and b[2]):
                        why = 'a byte is sign-extended before it is folded: values 0x80..0xFF compare as negative'
                    else:
                        why = ('the difference is taken between bytes of parameters %s and %s; it must be first string minus '
                               'second string' % (sorted(a[1]), sorted(b[1])))
                rep.inst('R-CASEFOLD', name, 'result-is-tolower(first)-minus-tolower(second)', ok, s_.where(), why,
                         fact={'folds': [a[0], b[0]], 'from_params': [sorted(a[1]), sorted(b[1])]})
        if n == 0:
            raise AnalysisBroken('%s: no returned difference found' % name)


def case_map_rule(rep, mods):
    """R-CASEMAP: strupr / strlwr map every byte of the string by the ASCII case function and leave the others alone.  The
    loop treats every position alike, so the byte function is decided on a string of length 1 whose byte ranges over one
    whole class per case (interval partition: a range test that is off by one leaves the class undecided): lower-case
    letters, upper-case letters, everything below, between and above."""
    for name, src, delta in (('strupr', (97, 122), -32), ('strlwr', (65, 90), 32)):
        mod = mods[name]
        ext = dict(LIBC_EXT)
        ext.pop(name, None)
        it = Interp(mod, externals=ext)
        box = {}

        def setup(run, st, env, names, args, sps, box=box):
            o = st.new_obj('param', Lin(2), 'arg0', {'desc': 'C string of one character', 'cstr_len': Lin(1)})
            b = st.fresh_int(8, False, 'ch0')
            st.cons.add_le(1, b.u)
            st.conv[('cstrbyte', o.id, Lin(0).key())] = b
            env.bind('ch0', b.u)
            args[0] = PtrVal(o.id, Lin(0))
            box['obj'] = o.id
            st.ghost['out0'] = b.u
            st.ghost['other'] = 0

        def hook(interp, st, inst, p, v, box=box):
            if isinstance(p, PtrVal) and p.obj == box.get('obj') and isinstance(v, IntVal):
                if st.cons.entails_eq(p.off, 0):
                    st.ghost['out0'] = st.force_u(v)
                else:
                    st.ghost['other'] = st.ghost.get('other', 0) + 1
        it.store_hook = hook
        lo, hi = src
        classes = [('below', 1, lo - 1, 0), ('mapped-letters', lo, hi, delta), ('above', hi + 1, 255, 0)]
        posts = [dict(name='%s:%d..%d' % (k, a, b), when=['ch0 >= %d' % a, 'ch0 <= %d' % b],
                      then=['ghost_out0 == ch0 + %d' % d if d else 'ghost_out0 == ch0', 'ghost_other == 0'])
                 for (k, a, b, d) in classes]
        run = ContractRun(it, [])
        run.run(name, FnSpec(setup=setup, post=posts))
        obs = summarize(it, run)
        for o in obs:
            if o.get('call_stack'):
                o['root'] = name
                o['leaf'] = o['function']
            else:
                o['function'] = name
        rep.add_absint('R-CASEMAP', [o for o in obs if o['kind'] == 'post'])


def run(rep, repo, tier):
    rep.explanation = (
        'Every mem*/str* function of compat/libc/string is analysed by abstract interpretation under its ISO C / POSIX '
        'access contract: byte buffers have exactly the extent the definition allows (n bytes; n may be 0), strings are '
        'objects with a symbolic terminator position (C-string model: bytes before it are non-zero, the byte at it is '
        'zero), destinations have exactly the room the definition requires. Proved for all lengths and contents: no read '
        'or write outside those extents, n == 0 touches nothing, returned pointers lie inside the right object (or are '
        'NULL), length results (strlen, strnlen, strlcpy, strspn/strcspn bounds), memmove copy direction under overlap, '
        'memcpy word accesses only under the alignment guard, comparison results are differences of unsigned chars taken '
        'first minus second, the case-insensitive comparisons fold with tolower on both sides.')
    rep.assumptions += ['sources and destinations of copy functions do not overlap except for memmove',
                        'tolower/toupper map 0 to 0 and non-zero to non-zero', 'lengths <= 2^30']
    names = ['memchr', 'memcmp', 'memcpy', 'memmove', 'memrchr', 'memset', 'strcasecmp', 'strcasestr', 'strcat',
             'strchr', 'strchrnul', 'strcmp', 'strcpy', 'strcspn', 'strdup', 'strlcpy', 'strlen', 'strlwr',
             'strncasecmp', 'strncat', 'strncmp', 'strncpy', 'strndup', 'strnlen', 'strpbrk', 'strrchr', 'strspn',
             'strstr', 'strtok', 'strupr']
    jobs = []
    for n in names:
        src = os.path.join(repo, DIR, n + '.c')
        if not os.path.exists(src):
            raise AnalysisBroken('%s/%s.c not found (anchor vanished)' % (DIR, n))
        # helper functions that a refactoring may introduce (static, not anchored by any rule) are folded into their callers
        jobs.append({'src': src, 'flags': LIBC_FLAGS, 'lang': 'c', 'inline': keep_all_but_new_helpers()})
    mods = dict(zip(names, compile_many(jobs, repo)))
    rep.units += ['%s/%s.c' % (DIR, n) for n in names]
    sp = specs()
    for key, spec in sp.items():
        fname = key.split('#')[0]
        mod = mods[fname]
        ext = dict(LIBC_EXT)
        ext.pop(fname, None)
        it = Interp(mod, externals=ext)
        run = ContractRun(it, [])
        run.run(fname, spec)
        obs = summarize(it, run)
        for o in obs:
            if o.get('call_stack'):
                o['root'] = key
                o['leaf'] = o['function']
            else:
                o['function'] = key
        rep.add_absint('R-LIBC', obs)
        a = rep.extra.setdefault('absint', {})
        a['accesses_checked'] = a.get('accesses_checked', 0) + it.checked
        a['loops_closed_by_invariant'] = a.get('loops_closed_by_invariant', 0) + it.loops_seen
    movedir(rep, mods['memmove'])
    wide_access_rule(rep, mods['memcpy'])
    ascending_rule(rep, mods['memcpy'])
    cursor_step_rule(rep, mods)
    uchar_rule(rep, mods)
    byte_eq_rule(rep, mods)
    casefold_rule(rep, mods)
    case_map_rule(rep, mods)
    rep.floor('R-CASEMAP:post', 10)
    rep.floor('R-CASEFOLD', 2)
    rep.floor('R-LIBC:bounds', 40)
    rep.floor('R-LIBC:post', 30)
    rep.floor('R-UCHAR', 3)
    rep.floor('R-BYTEEQ', 3)
    rep.floor('R-WORDALIGN', 2)
    rep.floor('R-MEMMOVE', 3)
    rep.floor('R-CURSORSTEP', 8)
    rep.floor('R-MEMCPY-ASCENDING', 1)
    import c08_content
    c08_content.run_ext(rep, repo, tier, mods=mods)
