"""Contract layer on top of absint: representation invariants of struct
kinds, preconditions on scalar parameters, buffer extents, postconditions.

Expressions are small Python-syntax strings over names:
  field        value of a struct field on entry (qualified 'param.field'
               when several struct parameters exist; bare when unambiguous)
  field_post   value of the field at the return under analysis
  param        value of a scalar parameter
  ret          returned value
Only linear arithmetic and comparisons (<=, <, >=, >, ==, !=) are allowed.
"""
import ast
from lin import Lin, _L
from absval import IntVal, PtrVal, CondVal, State, Obj, NULL, TOP
from absint import Interp
from irlib import AnalysisBroken, tyname


class StructSpec:
    def __init__(self, name, inv=(), owns=None, post_inv=None, nullable=(), fixed=None):
        self.nullable = tuple(nullable)
        self.fixed = fixed or {}        # field -> constant (instantiates a configuration parameter)
        self.name = name                # LLVM struct name, e.g. 'struct.sline'
        self.inv = list(inv)            # constraints over field names
        self.owns = owns or {}          # pointer field -> byte-extent expression
        self.post_inv = post_inv


class Env:
    """name -> Lin resolver"""

    def __init__(self):
        self.names = {}

    def bind(self, name, lin):
        self.names[name] = lin

    def lin(self, node):
        if isinstance(node, ast.Expression):
            return self.lin(node.body)
        if isinstance(node, ast.Constant) and isinstance(node.value, int):
            return Lin(node.value)
        if isinstance(node, ast.Name):
            if node.id not in self.names:
                raise KeyError(node.id)
            v = self.names[node.id]
            if v is None:
                raise KeyError(node.id + ' (value not expressible)')
            return v
        if isinstance(node, ast.Attribute):
            n = ast.unparse(node)
            if n not in self.names:
                raise KeyError(n)
            v = self.names[n]
            if v is None:
                raise KeyError(n + ' (value not expressible)')
            return v
        if isinstance(node, ast.BinOp):
            a, b = self.lin(node.left), self.lin(node.right)
            if isinstance(node.op, ast.Add):
                return a + b
            if isinstance(node.op, ast.Sub):
                return a - b
            if isinstance(node.op, ast.Mult):
                return a * b
            if isinstance(node.op, ast.Pow) and a.is_const() and b.is_const():
                return Lin(a.c ** b.c)
        if isinstance(node, ast.UnaryOp) and isinstance(node.op, ast.USub):
            return -self.lin(node.operand)
        raise ValueError('unsupported expression: ' + ast.dump(node))

    def constraints(self, text):
        """text -> list of clauses; each clause is a list of alternatives
        (disjunction for !=), each alternative a list of Lin (<= 0)"""
        node = ast.parse(text.strip(), mode='eval').body
        if not isinstance(node, ast.Compare):
            raise ValueError('not a comparison: ' + text)
        out = []
        left = node.left
        for op, right in zip(node.ops, node.comparators):
            a, b = self.lin(left), self.lin(right)
            if isinstance(op, ast.LtE):
                out.append([[a - b]])
            elif isinstance(op, ast.Lt):
                out.append([[a - b + 1]])
            elif isinstance(op, ast.GtE):
                out.append([[b - a]])
            elif isinstance(op, ast.Gt):
                out.append([[b - a + 1]])
            elif isinstance(op, ast.Eq):
                out.append([[a - b, b - a]])
            elif isinstance(op, ast.NotEq):
                out.append([[a - b + 1], [b - a + 1]])
            else:
                raise ValueError('unsupported comparison in ' + text)
            left = right
        return out


def assume_text(st, env, text):
    """add constraint(s) to st; returns list of states"""
    states = [st]
    for clause in env.constraints(text):
        nxt = []
        for s in states:
            if len(clause) == 1:
                for l in clause[0]:
                    s.cons.add(l)
                nxt.append(s)
            elif len(clause) == 2 and len(clause[0]) == 1 and len(clause[1]) == 1:
                # a != b : clause[0] = [a - b + 1], i.e. d = a - b
                d = clause[0][0] - 1
                if s.cons.entails(d):          # a <= b known
                    s.cons.add(d + 1)
                elif s.cons.entails(-d):       # a >= b known
                    s.cons.add(-d + 1)
                else:
                    s.add_diseq(d, 0)
                nxt.append(s)
            else:
                for alt in clause:
                    s2 = s.fork()
                    for l in alt:
                        s2.cons.add(l)
                    nxt.append(s2)
        states = nxt
    return [s for s in states if not s.cons.unsat()]


def refutes_equality(st, d):
    """d != 0 by refutation: with d == 0 added, the constraints become unsatisfiable or force a recorded disequality to
    be an equality (e.g. the fact is known about the sign-extended copy of a byte and asked about the byte)"""
    s = st.fork()
    s.cons.add(d)
    s.cons.add(-d)
    if s.cons.unsat():
        return True
    for q in list(s.diseq.values())[:24]:
        if s.cons.entails(q) and s.cons.entails(-q):
            return True
    return False


def entails_text(st, env, text):
    for clause in env.constraints(text):
        if len(clause) == 1:
            if not all(st.cons.entails(l) for l in clause[0]):
                return False
        else:
            if len(clause) == 2 and len(clause[0]) == 1 and st.known_diseq(clause[0][0] - 1, 0):
                continue
            if len(clause) == 2 and len(clause[0]) == 1 and len(clause[1]) == 1 and refutes_equality(st, clause[0][0] - 1):
                continue
            if not any(all(st.cons.entails(l) for l in alt) for alt in clause):
                return False
    return True


class FnSpec:
    def __init__(self, pre=(), extents=None, post=(), structs=None, ret_signed=None,
                 check_inv=True, nonnull=True, cstr=None, notes=None, frame=None, ctor=False,
                 dtor=False, setup=None):
        self.setup = setup
        self.ctor = ctor
        self.dtor = dtor
        self.pre = list(pre)
        self.extents = extents or {}    # pointer param -> byte extent expr
        self.post = list(post)          # list of dict(name=, when=[...], then=[...])
        self.structs = structs          # override: param -> StructSpec
        self.check_inv = check_inv
        self.cstr = cstr or {}
        self.frame = frame              # list of fields that must be unchanged


class ContractRun:
    """analyse one function under its contract; collects obligations in the
    shared Interp"""

    def __init__(self, interp, struct_specs):
        self.interp = interp
        self.mod = interp.mod
        self.struct_specs = {s.name: s for s in struct_specs}
        self.results = []   # (function, kind, name, ok, detail)

    def struct_fields(self, sname):
        st = self.mod.structs.get(sname)
        fl = self.mod.flat_fields(sname)
        if st is None or not fl:
            raise AnalysisBroken('struct %s (or its debug info) not found in unit %s'
                                 % (sname, self.mod.path))
        return st, fl

    def make_struct_obj(self, st, env, pname, sname, spec, prefix_all):
        stl, members = self.struct_fields(sname)
        o = st.new_obj('param', Lin(stl['size']), pname,
                       {'desc': '*%s (%s)' % (pname, sname), 'struct': sname})
        fieldsyms = {}
        ptr_fields = []
        for m in members:
            fty = m['ty']
            if fty['k'] == 'int' and fty['bits'] > 1 and spec is not None and m['name'] in spec.fixed:
                from absval import mk_const
                x = mk_const(fty['bits'], spec.fixed[m['name']])
                st.mem[(o.id, m['off'], fty['size'])] = x
                fieldsyms[m['name']] = x.s if m.get('signed') == 1 else x.u
            elif fty['k'] == 'int' and fty['bits'] > 1:
                signed = m.get('signed') == 1
                x = st.fresh_int(fty['bits'], signed, '%s.%s' % (pname, m['name']))
                st.mem[(o.id, m['off'], fty['size'])] = x
                fieldsyms[m['name']] = x.s if signed else x.u
            elif fty['k'] == 'ptr':
                ptr_fields.append((m, fty))
        for n, l in fieldsyms.items():
            env.bind('%s.%s' % (pname, n), l)
            if not prefix_all:
                env.bind(n, l)
        for (m, fty) in ptr_fields:
            ext = spec.owns.get(m['name']) if spec else None
            size = env.lin(ast.parse(ext, mode='eval')) if ext else None
            po = st.new_obj('deref', size, '%s.%s' % (pname, m['name']),
                            {'desc': 'buffer %s->%s' % (pname, m['name'])})
            nonnull = not (spec and m['name'] in getattr(spec, 'nullable', ()))
            st.mem[(o.id, m['off'], fty['size'])] = PtrVal(po.id, Lin(0), None, None, nonnull)
        return o, fieldsyms

    def run(self, fname, spec, fn=None):
        interp = self.interp
        fn = fn or self.mod.fn(fname)
        if fn is None or fn.decl:
            raise AnalysisBroken('function %s not found (anchor vanished?) in %s'
                                 % (fname, self.mod.path))
        st = State()
        env = Env()
        args = []
        struct_params = []
        nstruct = 0
        for p in fn.params:
            ty = p['ty']
            if ty['k'] == 'ptr' and tyname(ty['elem']) in self.struct_specs:
                nstruct += 1
        dit = fn.d.get('ditypes') or []
        # map IR params to DI params (skip sret)
        di_params = dit[1:] if dit else []
        di_idx = 0
        for n, p in enumerate(fn.params):
            ty = p['ty']
            name = p['name'] or ('arg%d' % n)
            if p.get('sret'):
                o = st.new_obj('param', Lin(ty.get('elemsize', 0)) if ty.get('elemsize') else None, name)
                args.append(PtrVal(o.id))
                continue
            dip = di_params[di_idx] if di_idx < len(di_params) else None
            di_idx += 1
            sname = tyname(ty.get('elem', '')) if ty['k'] == 'ptr' else None
            sspec = None
            if spec.structs and name in spec.structs:
                sspec = spec.structs[name]
            elif sname in self.struct_specs:
                sspec = self.struct_specs[sname]
            if sspec is not None:
                o, fs = self.make_struct_obj(st, env, name, sname, sspec, nstruct > 1)
                args.append(PtrVal(o.id))
                struct_params.append((name, o, sspec, fs, sname))
            elif ty['k'] == 'ptr':
                ext = spec.extents.get(name, spec.extents.get('arg%d' % n))
                o = st.new_obj('param', None, name, {'desc': 'buffer %s' % name})
                args.append(PtrVal(o.id))
                struct_params.append((name, o, None, {'__ext__': ext}, None))
            elif ty['k'] == 'int':
                if ty['bits'] == 1:
                    args.append(CondVal('unknown'))
                else:
                    signed = (dip or {}).get('signed') == 1
                    x = st.fresh_int(ty['bits'], signed, name)
                    args.append(x)
                    env.bind(name, x.s if signed else x.u)
                    env.bind('arg%d' % n, x.s if signed else x.u)
            else:
                args.append(interp.top_of_type(st, ty, name))
        # extents of plain pointer params (may mention scalar params)
        for (name, o, sspec, fs, sname) in struct_params:
            if sspec is None and fs.get('__ext__'):
                o.size = env.lin(ast.parse(fs['__ext__'], mode='eval'))
        if spec.setup:
            names = [p['name'] or ('arg%d' % n) for n, p in enumerate(fn.params)]
            spec.setup(self, st, env, names, args, struct_params)
        # assume invariants and preconditions
        states = [st]
        for (name, o, sspec, fs, sname) in struct_params:
            if sspec is None or (spec.ctor and name == 'this'):
                continue
            senv = self.scoped_env(env, name, fs)
            for t in sspec.inv:
                nxt = []
                for s in states:
                    nxt.extend(assume_text(s, senv, t))
                states = nxt
        for t in spec.pre:
            nxt = []
            for s in states:
                nxt.extend(assume_text(s, env, t))
            states = nxt
        if not states:
            raise AnalysisBroken('contract of %s is unsatisfiable' % fname)
        total_rets = 0
        # postcondition cases whose premises mention only entry values are
        # analysed as separate runs with the premise assumed on entry
        # (case split on the precondition); the others are checked on the
        # returns of the unconditional run
        split = [pc for pc in spec.post if pc.get('when') and
                 not any(('_post' in w or 'ret' in w.replace('return', '')) for w in pc['when'])]
        rest = [pc for pc in spec.post if pc not in split]
        runs = [(None, rest)] + [(pc, [dict(pc, when=[])]) for pc in split]
        for (case, posts) in runs:
            cstates = [s.fork() for s in states]
            if case is not None:
                for w in case['when']:
                    nxt = []
                    for s in cstates:
                        nxt.extend(assume_text(s, env, w))
                    cstates = nxt
                if not cstates:
                    self.record(fn, 'post', case['name'], True, None, vacuous=True)
                    continue
            self.last_args = list(args)
            case_rets = 0
            for s0 in cstates:
                interp.stack = [(fn.name, 'entry')]
                rets = interp.run_function(fn, s0, list(args))
                interp.stack = []
                if case is None:
                    total_rets += len(rets)
                case_rets += len(rets)
                if case is not None and case.get('noreturn'):
                    continue
                for (T, rv) in rets:
                    self.check_return(fn, spec, env, struct_params, T, rv, posts)
            if case is not None and case.get('noreturn'):
                # the premise describes arguments the function must refuse (throw / abort): no return may be reachable
                self.record(fn, 'post', '%s: does not return' % case['name'], case_rets == 0,
                            None if case_rets == 0 else 'case %s: %s returns normally on %d path(s) although it must throw / abort '
                            'under %s' % (case['name'], fn.name, case_rets, ' and '.join(case['when'])))
        if total_rets == 0:
            self.results.append((fname, 'returns', 'function has a feasible return', False,
                                 'no return reachable under the contract'))
        return total_rets

    def scoped_env(self, env, pname, fieldsyms, post=None):
        e = Env()
        e.names = dict(env.names)
        for n, l in fieldsyms.items():
            if n.startswith('__'):
                continue
            e.bind(n, l)
        if post:
            for n, l in post.items():
                e.bind(n + '_post', l)
        return e

    def check_return(self, fn, spec, env, struct_params, T, rv, posts=None):
        interp = self.interp
        e = Env()
        e.names = dict(env.names)
        multi = sum(1 for x in struct_params if x[2] is not None) > 1
        for (name, o, sspec, fs, sname) in struct_params:
            if sspec is None:
                continue
            stl, members = self.struct_fields(sname)
            post = {}
            for m in members:
                if m['name'] not in fs:
                    continue
                fty = m['ty']
                v = T.mem.get((o.id, m['off'], fty['size']))
                l = None
                if isinstance(v, IntVal):
                    l = T.as_s(v) if m.get('signed') == 1 else T.as_u(v)
                post[m['name']] = l
            for n, l in post.items():
                e.bind('%s.%s_post' % (name, n), l)
                if not multi:
                    e.bind(n + '_post', l)
            if spec.check_inv and not spec.dtor:
                penv = Env()
                penv.names = dict(env.names)
                for n, l in post.items():
                    penv.bind(n, l)
                for t in (sspec.post_inv if sspec.post_inv is not None else sspec.inv):
                    try:
                        ok = entails_text(T, penv, t)
                        detail = None
                    except KeyError as ex:
                        ok = False
                        detail = 'field %s not expressible at return (clobbered)' % ex
                    if not ok and detail is None:
                        detail = 'invariant "%s" of %s not re-established at a return of %s%s' % (
                            t, sspec.name, fn.name,
                            interp.explain(T, [x for x in post.values() if x is not None]))
                    self.record(fn, 'invariant', '%s: %s' % (sspec.name, t), ok, detail)
                for fname_, ext in sspec.owns.items():
                    m = [m for m in members if m['name'] == fname_]
                    if not m:
                        continue
                    m = m[0]
                    v = T.mem.get((o.id, m['off'], m['ty']['size']))
                    ok = False
                    detail = None
                    try:
                        want = penv.lin(ast.parse(ext, mode='eval'))
                        if isinstance(v, PtrVal) and v.is_null:
                            ok = T.cons.entails_le(want, 0)
                            detail = None if ok else 'field %s is null while the invariant says it owns %s bytes' % (fname_, ext)
                        elif isinstance(v, PtrVal):
                            ob = T.objs.get(v.obj)
                            if ob is not None and ob.size is not None:
                                ok = T.cons.entails_le(want, ob.size - v.off) and T.cons.entails_le(0, v.off)
                                if not ok:
                                    detail = ('field %s points to %s of %r bytes (offset %r) but the invariant '
                                              'requires it to own "%s" = %r bytes at return of %s%s' % (
                                                  fname_, interp.describe_obj(T, v.obj), ob.size, v.off, ext, want,
                                                  fn.name, interp.explain(T, [want, ob.size])))
                            else:
                                detail = 'extent of the block stored in %s is unknown at return' % fname_
                        else:
                            detail = 'field %s clobbered at return' % fname_
                    except KeyError as ex:
                        detail = 'ownership expression not expressible: %s' % ex
                    self.record(fn, 'ownership', '%s: %s owns %s' % (sspec.name, fname_, ext), ok, detail)
        if isinstance(rv, IntVal):
            dit = fn.d.get('ditypes') or []
            signed = bool(dit) and dit[0].get('signed') == 1
            l = T.as_s(rv) if signed else T.as_u(rv)
            if l is None:
                l = T.as_s(rv) or T.as_u(rv)
            e.bind('ret', l)
        elif isinstance(rv, CondVal):
            d = interp.decide(T, rv)
            e.bind('ret', Lin(1 if d else 0) if d is not None else None)
        elif isinstance(rv, PtrVal):
            # pointer results: ret_null (0/1), ret_off (byte offset inside its object), ret_arg (index of the
            # pointer argument whose object it points into, -1 if none)
            e.bind('ret_null', Lin(1 if rv.is_null else 0) if (rv.is_null or rv.nonnull) else None)
            if not rv.is_null:
                e.bind('ret_off', rv.off)
                idx = -1
                for n_, a_ in enumerate(getattr(self, 'last_args', [])):
                    if isinstance(a_, PtrVal) and a_.obj == rv.obj:
                        idx = n_
                        break
                e.bind('ret_arg', Lin(idx))
        for gk, gv in T.ghost.items():
            if isinstance(gv, Lin):
                e.bind('ghost_' + gk, gv)
            elif isinstance(gv, int) and not isinstance(gv, bool):
                e.bind('ghost_' + gk, Lin(gv))
        for pc in (spec.post if posts is None else posts):
            Ts = [T.fork()]
            vac = False
            try:
                for w in pc.get('when', []):
                    nxt = []
                    for s in Ts:
                        nxt.extend(assume_text(s, e, w))
                    Ts = nxt
            except KeyError as ex:
                # the premise talks about a value this return does not define (e.g. ret_off of a NULL result)
                self.record(fn, 'post', pc['name'], True, None, vacuous=True)
                continue
            if not Ts:
                self.record(fn, 'post', pc['name'], True, None, vacuous=True)
                continue
            for s in Ts:
                for t in pc['then']:
                    try:
                        ok = entails_text(s, e, t)
                        detail = None if ok else ('postcondition "%s" (case %s) not provable at a return of %s%s'
                                                  % (t, pc['name'], fn.name, interp.explain(s, [])))
                    except KeyError as ex:
                        ok = False
                        detail = 'postcondition "%s": %s not expressible at return' % (t, ex)
                    self.record(fn, 'post', '%s: %s' % (pc['name'], t), ok, detail)

    def record(self, fn, kind, name, ok, detail, vacuous=False):
        self.results.append({'function': fn.name, 'kind': kind, 'name': name, 'ok': ok,
                             'detail': detail, 'vacuous': vacuous,
                             'where': '%s:%d' % (fn.file, fn.line)})


def summarize(interp, run):
    """merge Interp obligations and contract results into one obligation
    list: [{id, function, kind, where, ok, detail}]"""
    out = []
    for ob in interp.obligs.values():
        d = ob.as_dict()
        d['id'] = '%s|%s|%s|%s' % (ob.kind, ob.fn, ob.where.rsplit('/', 1)[-1], '>'.join(ob.stack[-2:]))
        out.append(d)
    agg = {}
    for r in run.results:
        if isinstance(r, tuple):
            r = {'function': r[0], 'kind': r[1], 'name': r[2], 'ok': r[3], 'detail': r[4],
                 'vacuous': False, 'where': ''}
        k = (r['function'], r['kind'], r['name'])
        a = agg.get(k)
        if a is None:
            a = dict(r)
            a['states_checked'] = 0
            a['nonvacuous'] = 0
            agg[k] = a
        a['states_checked'] += 1
        if not r.get('vacuous'):
            a['nonvacuous'] += 1
        if not r['ok'] and a['ok']:
            a['ok'] = False
            a['detail'] = r['detail']
        elif not r['ok'] and not a.get('detail'):
            a['detail'] = r['detail']
    # functions (and their callers on the interpreter's stack) in which an access obligation was found undecidable
    und = {}
    for ob in interp.obligs.values():
        if not ob.ok and getattr(ob, 'flagloop', None):
            und.setdefault(ob.fn, ob.flagloop)
            for fr in ob.stack:
                und.setdefault(fr.split('@')[0], ob.flagloop)
    for k, a in agg.items():
        a['id'] = '%s|%s|%s' % (a['kind'], a['function'], a['name'])
        if not a['ok'] and a['kind'] in ('post', 'returns', 'invariant', 'ownership') and a['function'] in und:
            a['flagloop'] = und[a['function']]
        if not a['ok'] and a['kind'] in ('post', 'returns', 'invariant'):
            # a clause that is not established in a routine one of whose loops is steered by a flag carried across
            # iterations: the fact the flag stands for is outside the domain (Function.flag_loops), not a verdict
            f = interp.mod.fn(a['function'])
            fl = f.flag_loops() if f is not None and not f.decl else []
            if fl:
                L, ph = fl[0]
                a['flagloop'] = '%s: the loop at %s is steered by the flag %s computed in the previous iteration' % (
                    f.srcname or f.name, L['header'].term.where(), ph.name or ph.id)
        out.append(a)
    return out
