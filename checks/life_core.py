"""Slot typestate ("seglife", DESIGN.md 3.4) for element lifetimes of the igris containers, on top of the
abstract interpreter.

A container's storage is a line of slots; every slot is RAW (storage without an object) or LIVE.  The probe
element type VTr (witness/probe.h) declares all special members without defining them, so in the IR every
construction / destruction / assignment of an element is a visible external call on the slot address.  Those calls
are the events of the typestate automaton:

    constructor on slot          requires RAW   -> LIVE
    destructor on slot           requires LIVE  -> RAW
    copy/move assignment to slot requires LIVE  (stays LIVE)
    slot passed as the source of a copy/move construction or assignment   requires LIVE (a moved-from object is
                                 still LIVE: it must be destroyed later)
    operator delete on a block   requires no LIVE slot, block not freed before
    raw byte write (store/memset/memcpy) of the container code into a slot    requires RAW
    raw byte read (load/memcpy source)                                         requires LIVE

The analysis is a trace partitioning: every member function is interpreted once per element of a finite partition of
its entry states (concrete m_size / m_capacity, concrete positions and counts; element contents stay abstract), so
every loop runs on concrete bounds (the interpreter executes it by peeling, no widening) and every slot index is a
constant: the typestate per slot is exact.  Every path of every partition is interpreted; nothing is executed.

If a partition cannot be analysed (a slot address that is not a constant, a loop that is not decided by the
partition, an unsummarised external call, ...) it is recorded as *unresolved* with its reason and the member gets no
'analysed' instance, which breaks the floor of the rule (exit 2) - it is never reported as held or as violated."""
import multiprocessing
import os
import sys

from irlib import AnalysisBroken, tyname, demangle1, V
from lin import Lin
from absval import PtrVal, IntVal, NULL, mk_const, State
from absint import Interp, ext_new
from contracts import ContractRun, StructSpec, FnSpec
from common import class_methods, base_name, sig_suffix, relpath

ESZ = 8                 # sizeof(VTr)
RAW, LIVE = 'R', 'L'
NAME = {RAW: 'RAW (no object)', LIVE: 'LIVE'}


class Unresolved(AnalysisBroken):
    """the partition cannot be analysed exactly (never a verdict)"""


# ----------------------------------------------------------------------------------------------------------------
# events: VTr special members (mangled) -> (class, description, has a source operand)
# ----------------------------------------------------------------------------------------------------------------
EVENTS = {
    '_ZN3VTrC1Ev': ('construct', 'default-construct', False),
    '_ZN3VTrC2Ev': ('construct', 'default-construct', False),
    '_ZN3VTrC1Ei': ('construct', 'construct-from-int', False),
    '_ZN3VTrC2Ei': ('construct', 'construct-from-int', False),
    '_ZN3VTrC1ERKS_': ('construct', 'copy-construct', True),
    '_ZN3VTrC2ERKS_': ('construct', 'copy-construct', True),
    '_ZN3VTrC1EOS_': ('construct', 'move-construct', True),
    '_ZN3VTrC2EOS_': ('construct', 'move-construct', True),
    '_ZN3VTrD1Ev': ('destroy', 'destroy', False),
    '_ZN3VTrD2Ev': ('destroy', 'destroy', False),
    '_ZN3VTraSERKS_': ('assign', 'copy-assign', True),
    '_ZN3VTraSEOS_': ('assign', 'move-assign', True),
}
FREE_FNS = ('_ZdlPv', '_ZdaPv', '_ZdlPvm', '_ZdaPvm', '_ZdlPvSt11align_val_t', '_ZdlPvmSt11align_val_t')
NEW_FNS = ('_Znwm', '_Znam', '_ZnwmSt11align_val_t')


def ext_vtr(interp, st, i, args):
    """memory effect of a probe special member (same summary as checks/c14.py ext_vtr, repeated here so that the
    lifetime modules do not import the modules that call them): it touches exactly the sizeof(VTr) bytes of its
    object arguments"""
    name = i.callee
    this = args[0]
    if 'C1' in name or 'C2' in name:
        interp.check_access(st, this, ESZ, i, 'construct-element')
        interp.mem_range_write(st, this, Lin(ESZ), i)
        if len(args) > 1 and isinstance(args[1], PtrVal):
            interp.check_access(st, args[1], ESZ, i, 'read-element')
        return [(st, None)]
    if 'D1' in name or 'D2' in name:
        interp.check_access(st, this, ESZ, i, 'destroy-element')
        return [(st, None)]
    interp.check_access(st, this, ESZ, i, 'assign-element')
    interp.mem_range_write(st, this, Lin(ESZ), i)
    if len(args) > 1 and isinstance(args[1], PtrVal):
        interp.check_access(st, args[1], ESZ, i, 'read-element')
    return [(st, this)]


def _ext_throw(interp, st, i, args):
    st.bottom = True
    return []


# exception plumbing of igris::vector::at (the throwing path ends the trace)
CXX_EXT = {'__cxa_allocate_exception': lambda interp, st, i, args: [(st, interp.unknown_ptr(st, 'exc', True))],
           '__cxa_throw': _ext_throw, '__cxa_free_exception': lambda interp, st, i, args: [(st, None)],
           '_ZNSt12out_of_rangeC1EPKc': lambda interp, st, i, args: [(st, None)]}


def check_probe(mod):
    """anchor: every member of the probe type that the unit calls is a known event"""
    seen = 0
    for f in mod.functions.values():
        if f.name.startswith('_ZN3VTr') or f.name.startswith('_ZNK3VTr'):
            if not f.decl:
                raise AnalysisBroken('probe member %s is defined in %s: events would be invisible' % (f.name, mod.path))
            if f.name not in EVENTS:
                raise AnalysisBroken('probe member %s has no lifetime event class (witness/probe.h changed?)' % f.name)
            seen += 1
    if seen < 4:
        raise AnalysisBroken('only %d probe special members are called in %s (witness out of date)' % (seen, mod.path))


# ----------------------------------------------------------------------------------------------------------------
# ghost state: st.ghost['life'] = sorted tuple of (object id, (base offset, slot states, kind, freed))
#   kind: 'inline' (storage inside the container object), 'block' (heap block), 'local' (a VTr temporary)
# ----------------------------------------------------------------------------------------------------------------
def g_get(st):
    return dict(st.ghost.get('life', ()))


def g_put(st, d):
    st.ghost['life'] = tuple(sorted(d.items()))


def seg(states):
    return '[' + ''.join(states) + ']' if states else '[]'


class LifeInterp(Interp):
    """local refinement: nullptr - nullptr is 0 (iterator arithmetic of an empty vector without a block)"""

    def binop(self, st, op, a, b, inst):
        if op == 'sub' and isinstance(a, IntVal) and isinstance(b, IntVal) and a.pint is not None and \
                b.pint is not None and a.pint.is_null and b.pint.is_null:
            return mk_const(inst.bits, 0)
        return Interp.binop(self, st, op, a, b, inst)

    def do_gep(self, st, base, gep, fn):
        """nullptr + 0 is nullptr (begin()/end() of a vector without a block); the engine maps every arithmetic on
        a null base to an unknown pointer"""
        if isinstance(base, PtrVal) and base.is_null:
            total = 0
            for s in gep['steps']:
                if s['k'] == 'field':
                    total += s['off']
                else:
                    iv = self.val(st, V(s['v']), fn)
                    c = iv.sconst() if isinstance(iv, IntVal) else None
                    if c is None:
                        total = None
                        break
                    total += c * s['stride']
            if total == 0:
                return NULL
        return Interp.do_gep(self, st, base, gep, fn)


class Tracker:
    """typestate automaton of one (member function, partition) run"""

    def __init__(self, mod, layout, part, fn, ext_vtr):
        self.mod = mod
        self.layout = layout        # dict(kind='inline'|'heap', n=..., data_off=..., size_off=..., data_ptr_off=...)
        self.part = part
        self.fn = fn
        self.ext_vtr = ext_vtr or globals()['ext_vtr']
        self.ret = []               # (clause, ok, detail)
        self.events = 0
        self.returns = 0
        self.skip_params = set()    # struct parameters that alias another one (self-assignment partition)
        self.is_ctor = False
        self.is_dtor = False
        self.result_ref = False

    # ---- helpers ---------------------------------------------------------------------------------------------
    def chain(self, interp):
        names = []
        for (fname, _w) in interp.stack:
            f = self.mod.fn(fname)
            n = (f.srcname if f is not None and f.srcname else fname).split('<')[0]
            if not names or names[-1] != n:
                names.append(n)
        return ' > '.join(names)

    def block_desc(self, interp, st, oid, ent):
        kind = ent[2]
        if kind == 'inline':
            o = st.objs.get(oid)
            return 'the inline storage of %s' % (o.info.get('desc', oid) if o is not None else oid)
        if kind == 'local':
            return 'a local temporary'
        return interp.describe_obj(st, oid)

    def locate(self, interp, st, p, what):
        """-> ('slot', oid, ent, idx) | ('foreign',) | ('outside', oid, ent, off)"""
        if not isinstance(p, PtrVal) or p.is_null:
            raise Unresolved('%s through a null or non-pointer value' % what)
        d = g_get(st)
        ent = d.get(p.obj)
        if ent is None:
            o = st.objs.get(p.obj)
            if o is not None and o.info.get('life_foreign'):
                return ('foreign',)
            if o is not None and o.kind == 'alloca' and o.size is not None and o.size.is_const() and \
                    o.size.c % ESZ == 0 and o.size.c > 0:
                ent = (0, RAW * (o.size.c // ESZ), 'local', False)
                d[p.obj] = ent
                g_put(st, d)
            else:
                raise Unresolved('%s on an object that is not tracked storage (%s)' % (what, interp.describe_obj(st, p.obj)))
        base, states, kind, freed = ent
        off = p.off - base
        c = None
        if off.is_const():
            c = off.c
        else:
            for k in range(len(states) + 1):
                if st.cons.entails_eq(off, k * ESZ):
                    c = k * ESZ
                    break
        if c is None:
            raise Unresolved('%s at an offset that the partition does not make constant (%r)' % (what, p.off))
        if c % ESZ != 0 or c < 0 or c // ESZ >= len(states):
            return ('outside', p.obj, ent, c)
        return ('slot', p.obj, ent, c // ESZ)

    def set_state(self, st, oid, ent, idx, new):
        d = g_get(st)
        base, states, kind, freed = ent
        states = states[:idx] + new + states[idx + 1:]
        d[oid] = (base, states, kind, freed)
        g_put(st, d)

    def require(self, interp, st, i, p, need, clause, ev, new=None):
        """obligation 'slot addressed by p is in state need'; afterwards the slot is in state new (the analysis
        continues as if the requirement had held, so that one defect is reported once)"""
        loc = self.locate(interp, st, p, ev)
        if loc[0] == 'foreign':
            if clause.startswith('read:') or clause.startswith('assign:'):
                return            # element owned by the caller: LIVE by contract
            raise Unresolved('%s on an element that belongs to the caller' % ev)
        if loc[0] == 'outside':
            _, oid, ent, c = loc
            if ent[2] == 'local':
                raise Unresolved('%s outside a local temporary' % ev)
            interp.oblige('life:event:address-is-a-slot-of-the-storage', i, False,
                          '%s at byte offset %d of %s, which is not one of its %d slots (call chain: %s)'
                          % (ev, c, self.block_desc(interp, st, oid, ent), len(ent[1]), self.chain(interp)), ev)
            return
        _, oid, ent, idx = loc
        base, states, kind, freed = ent
        if kind == 'local':
            # temporaries are managed by the compiler; they are tracked only so that reads from them are decided
            if states[idx] != need:
                raise Unresolved('%s on a local temporary in state %s' % (ev, NAME[states[idx]]))
            if new is not None:
                self.set_state(st, oid, ent, idx, new)
            return
        self.events += 1
        if freed:
            ok = False
            detail = '%s on slot %d of %s after the block was deallocated (call chain: %s)' % (
                ev, idx, self.block_desc(interp, st, oid, ent), self.chain(interp))
        else:
            ok = states[idx] == need
            detail = None
            if not ok:
                detail = '%s on slot %d of %s, which is %s there; segmentation %s (call chain: %s)' % (
                    ev, idx, self.block_desc(interp, st, oid, ent), NAME[states[idx]], seg(states), self.chain(interp))
        interp.oblige('life:' + clause, i, ok, detail, ev)
        if new is not None and not freed:
            self.set_state(st, oid, ent, idx, new)

    # ---- externals -------------------------------------------------------------------------------------------
    def on_event(self, interp, st, i, args):
        cls, ev, has_src = EVENTS[i.callee]
        if has_src:
            if len(args) < 2:
                raise Unresolved('%s without a source operand' % ev)
            self.require(interp, st, i, args[1], LIVE, 'read:source-is-live', 'source of ' + ev)
        if cls == 'construct':
            self.require(interp, st, i, args[0], RAW, 'construct:slot-is-raw', ev, LIVE)
        elif cls == 'destroy':
            self.require(interp, st, i, args[0], LIVE, 'destroy:slot-is-live', ev, RAW)
        else:
            self.require(interp, st, i, args[0], LIVE, 'assign:target-is-live', ev, LIVE)
        return self.ext_vtr(interp, st, i, args)

    def on_new(self, interp, st, i, args):
        r = ext_new(interp, st, i, args)
        (s, p) = r[0]
        o = s.objs.get(p.obj)
        if o.size is None or not o.size.is_const() or o.size.c % ESZ != 0:
            raise Unresolved('allocation of a block whose size the partition does not make constant (%r)' % (o.size,))
        d = g_get(s)
        d[p.obj] = (0, RAW * (o.size.c // ESZ), 'block', False)
        g_put(s, d)
        return r

    def on_free(self, interp, st, i, args):
        p = args[0]
        if isinstance(p, PtrVal) and p.is_null:
            return [(st, None)]
        if not isinstance(p, PtrVal):
            raise Unresolved('operator delete of a non-pointer value')
        d = g_get(st)
        ent = d.get(p.obj)
        if ent is None or ent[2] != 'block':
            raise Unresolved('operator delete of an object that is not a tracked block (%s)' % interp.describe_obj(st, p.obj))
        base, states, kind, freed = ent
        if not (p.off - base).is_const() or (p.off - base).c != 0:
            raise Unresolved('operator delete of an address inside a block (%r)' % p.off)
        interp.oblige('life:deallocate:block-not-freed-before', i, not freed,
                      None if not freed else '%s is deallocated twice (call chain: %s)' % (
                          self.block_desc(interp, st, p.obj, ent), self.chain(interp)), 'delete')
        if not freed:
            live = [k for k, s_ in enumerate(states) if s_ == LIVE]
            interp.oblige('life:deallocate:no-live-slot-in-block', i, not live,
                          None if not live else '%s is deallocated while slot(s) %s still hold LIVE objects that were '
                          'never destroyed; segmentation %s (call chain: %s)' % (
                              self.block_desc(interp, st, p.obj, ent), live, seg(states), self.chain(interp)), 'delete')
            d[p.obj] = (base, RAW * len(states), kind, True)
            g_put(st, d)
        return [(st, None)]

    def on_access(self, interp, st, inst, p, size, kind):
        """raw byte accesses of the container code to tracked storage"""
        if kind not in ('load', 'store', 'memcpy-dst', 'memcpy-src', 'memset-dst'):
            return
        if not isinstance(p, PtrVal) or p.is_null:
            return
        ent = g_get(st).get(p.obj)
        if ent is None or ent[2] == 'local':
            return
        base, states, k_, freed = ent
        lo, hi = base, base + len(states) * ESZ
        size = size if isinstance(size, Lin) else Lin(size)
        if st.cons.entails_le(p.off + size, lo) or st.cons.entails_le(hi, p.off):
            return                      # bookkeeping fields next to the storage
        if not p.off.is_const() or not size.is_const():
            raise Unresolved('raw %s of storage bytes at an offset/size that is not constant (%r, %r)' % (kind, p.off, size))
        if size.c == 0:
            return
        first = max(0, (p.off.c - base) // ESZ)
        last = min(len(states) - 1, (p.off.c + size.c - 1 - base) // ESZ)
        write = kind in ('store', 'memcpy-dst', 'memset-dst')
        need = RAW if write else LIVE
        bad = [k for k in range(first, last + 1) if states[k] != need or freed]
        clause = 'rawwrite:slot-is-raw' if write else 'rawread:slot-is-live'
        interp.oblige('life:' + clause, inst, not bad,
                      None if not bad else 'raw %s of %d byte(s) touches slot(s) %s of %s which %s; segmentation %s '
                      '(call chain: %s)' % (kind, size.c, bad, self.block_desc(interp, st, p.obj, ent),
                                            'hold LIVE objects' if write else 'hold no object',
                                            seg(states), self.chain(interp)), kind)

    # ---- returns ---------------------------------------------------------------------------------------------
    def out(self, clause, ok, detail=None):
        self.ret.append((clause, ok, detail))

    def read_size(self, run, T, o, sname, field):
        stl, members = run.struct_fields(sname)
        m = [m for m in members if m['name'] == field]
        if not m:
            raise AnalysisBroken('field %s of %s vanished' % (field, sname))
        v = T.mem.get((o.id, m[0]['off'], m[0]['ty']['size']))
        return v, m[0]

    def check_seg(self, what, states, size, d_only=False):
        beyond = [k for k in range(len(states)) if k >= size and states[k] == LIVE]
        self.out('return:no-live-slot-at-or-beyond-size', not beyond,
                 None if not beyond else '%s: at return m_size is %d but slot(s) %s still hold LIVE objects that nothing '
                 'will destroy (the destructor destroys [0, m_size)); segmentation %s' % (what, size, beyond, seg(states)))
        below = [k for k in range(size) if k >= len(states) or states[k] != LIVE]
        self.out('return:slots-below-size-are-live', not below,
                 None if not below else '%s: at return m_size is %d but slot(s) %s hold no object (they will be read, '
                 'assigned or destroyed as elements); segmentation %s' % (what, size, below, seg(states)))

    def at_return(self, run, fn, spec, struct_params, T, rv):
        self.returns += 1
        lay = self.layout
        d = g_get(T)
        owned = set()
        for (name, o, sspec, fs, sname) in struct_params:
            if sspec is None or name in self.skip_params:
                continue
            v, _m = self.read_size(run, T, o, sname, 'm_size')
            if self.is_dtor and name == 'this':
                size = 0
            else:
                if not isinstance(v, IntVal) or v.const() is None:
                    raise Unresolved('m_size of *%s is not a constant at a return (%r)' % (name, v))
                size = v.const()
            what = '*' + name
            if lay['kind'] == 'inline':
                ent = d.get(o.id)
                if ent is None:
                    raise Unresolved('storage of *%s is not tracked' % name)
                if self.is_dtor and name == 'this':
                    live = [k for k, s_ in enumerate(ent[1]) if s_ == LIVE]
                    self.out('destructor:every-slot-raw', not live,
                             None if not live else 'after the destructor slot(s) %s still hold LIVE objects; segmentation %s'
                             % (live, seg(ent[1])))
                else:
                    self.check_seg(what, ent[1], size)
                continue
            pv, _m = self.read_size(run, T, o, sname, 'm_data')
            if not isinstance(pv, PtrVal):
                raise Unresolved('m_data of *%s is not a pointer value at a return (%r)' % (name, pv))
            if self.is_dtor and name == 'this':
                continue            # whatever the dead object points to: every block is examined below
            if pv.is_null:
                self.check_seg(what + ' (m_data == nullptr)', '', size)
                continue
            ent = d.get(pv.obj)
            if ent is None or ent[2] != 'block' or not pv.off.is_const() or pv.off.c != ent[0]:
                raise Unresolved('m_data of *%s does not point to the start of a tracked block at a return' % name)
            self.out('return:block-in-m_data-has-one-owner', pv.obj not in owned,
                     None if pv.obj not in owned else '%s: m_data points to the block that another vector of this call also '
                     'owns: its elements would be destroyed twice' % what)
            owned.add(pv.obj)
            self.out('return:block-in-m_data-is-not-deallocated', not ent[3],
                     None if not ent[3] else '%s: m_data still points to a block that was deallocated' % what)
            if not ent[3]:
                self.check_seg(what, ent[1], size)
        if lay['kind'] == 'heap':
            c_live = 'destructor:every-slot-raw' if self.is_dtor else 'return:no-live-slot-in-a-dropped-block'
            c_leak = 'return:dropped-block-is-deallocated'
            bad_live = bad_leak = None
            for oid, ent in sorted(d.items(), key=lambda kv: str(kv[0])):
                if ent[2] != 'block' or oid in owned or ent[3]:
                    continue
                live = [k for k, s_ in enumerate(ent[1]) if s_ == LIVE]
                desc = run.interp.describe_obj(T, oid)
                if live:
                    bad_live = ('%s is no longer referenced by any m_data at return (and was not deallocated) but slot(s) '
                                '%s still hold LIVE objects: they are never destroyed; segmentation %s' % (desc, live, seg(ent[1])))
                else:
                    bad_leak = '%s is neither stored in m_data nor deallocated at return (leaked block)' % desc
            self.out(c_live, bad_live is None, bad_live)
            self.out(c_leak, bad_leak is None, bad_leak)
        if self.result_ref and isinstance(rv, PtrVal):
            loc = self.locate(run.interp, T, rv, 'returned reference')
            ok = loc[0] == 'slot' and loc[2][1][loc[3]] == LIVE and not loc[2][3]
            self.out('result:reference-to-a-live-slot', ok,
                     None if ok else 'the returned reference does not designate a LIVE element (%s)' % (loc[0],))


class LifeRun(ContractRun):
    def __init__(self, interp, tracker):
        ContractRun.__init__(self, interp, [])
        self.tracker = tracker

    def check_return(self, fn, spec, env, struct_params, T, rv, posts=None):
        self.tracker.at_return(self, fn, spec, struct_params, T, rv)


# ----------------------------------------------------------------------------------------------------------------
# partitions
# ----------------------------------------------------------------------------------------------------------------
class Part:
    """one element of the partition of a member's entry states.
    this/other: container state (inline: size; heap: (size, capacity, is_null)) or None (constructor's *this)
    args: parameter name -> ('int', v) | ('foreign',) | ('slot', j) | ('range', n, end-name) | ('ilist', n)
    same: True when 'other' is the same object as 'this' (self-assignment)"""

    def __init__(self, label, this=None, other=None, args=None, same=False):
        self.label = label
        self.this = this
        self.other = other
        self.args = args or {}
        self.same = same


class Member:
    """contract of one member for the lifetime analysis"""

    def __init__(self, parts, ctor=False, dtor=False, result_ref=False, note=None):
        self.parts = parts
        self.ctor = ctor
        self.dtor = dtor
        self.result_ref = result_ref
        self.note = note


def make_setup(tracker, layout, part, fn):
    def cont_state(name):
        return part.this if name == 'this' else part.other

    def setup(run, st, env, names, args, sps):
        d = {}
        this_block = None
        this_arg = None
        for (name, o, sspec, fs, sname) in sps:
            if sspec is None:
                continue
            cs = cont_state(name)
            if name == 'this':
                this_arg = args[names.index('this')]
            if part.same and name != 'this':
                args[names.index(name)] = this_arg
                tracker.skip_params.add(name)
                continue
            if layout['kind'] == 'inline':
                n = layout['n']
                if cs is None:
                    d[o.id] = (layout['data_off'], RAW * n, 'inline', False)
                else:
                    d[o.id] = (layout['data_off'], LIVE * cs + RAW * (n - cs), 'inline', False)
                if name == 'this':
                    this_block = (o.id, layout['data_off'])
            else:
                if cs is None:
                    continue
                size, cap, null = cs
                key = (o.id, layout['data_ptr_off'], 8)
                cur = st.mem.get(key)
                if not isinstance(cur, PtrVal):
                    raise AnalysisBroken('m_data cell of *%s not found' % name)
                if null:
                    st.mem[key] = NULL
                else:
                    st.mem[key] = PtrVal(cur.obj, Lin(0), None, None, True)
                    d[cur.obj] = (0, LIVE * size + RAW * (cap - size), 'block', False)
                    if name == 'this':
                        this_block = (cur.obj, 0)
        plain = {name: o for (name, o, sspec, fs, sname) in sps if sspec is None}
        for pname, a in part.args.items():
            if pname not in names:
                raise AnalysisBroken('parameter %s of %s vanished' % (pname, fn.name))
            idx = names.index(pname)
            if a[0] == 'int':
                bits = fn.params[idx]['ty']['bits']
                args[idx] = mk_const(bits, a[1])
                env.bind(pname, Lin(a[1]))
            elif a[0] == 'foreign':
                o = plain[pname]
                o.size = Lin(ESZ)
                o.info['life_foreign'] = True
                o.info['desc'] = 'element %s owned by the caller' % pname
            elif a[0] == 'slot':
                if this_block is None:
                    args[idx] = NULL            # begin() == end() == nullptr of a vector without a block
                    if a[1] != 0:
                        raise AnalysisBroken('partition asks for slot %d of a null block' % a[1])
                else:
                    oid, base = this_block
                    if layout['kind'] == 'inline':
                        args[idx] = PtrVal(oid, Lin(base + a[1] * ESZ), Lin(base), Lin(base + layout['n'] * ESZ), True)
                    else:
                        args[idx] = PtrVal(oid, Lin(base + a[1] * ESZ), None, None, True)
            elif a[0] == 'range':
                n = a[1]
                o = st.new_obj('param', Lin(n * ESZ), 'range', {'desc': 'source range of %d element(s) owned by the caller' % n,
                                                              'life_foreign': True})
                args[idx] = PtrVal(o.id, Lin(0))
                args[names.index(a[2])] = PtrVal(o.id, Lin(n * ESZ))
            elif a[0] == 'ilist':
                n = a[1]
                arr = st.new_obj('param', Lin(n * ESZ), 'il_array', {'desc': 'initializer_list backing array of %d element(s)' % n,
                                                                     'life_foreign': True})
                lo = st.new_obj('param', Lin(16), pname, {'desc': 'initializer_list object'})
                st.mem[(lo.id, 0, 8)] = PtrVal(arr.id, Lin(0))
                st.mem[(lo.id, 8, 8)] = mk_const(64, n)
                args[idx] = PtrVal(lo.id, Lin(0))
            else:
                raise AnalysisBroken('unknown argument class %r' % (a,))
        g_put(st, d)
    return setup


def run_partition(mod, fn, layout, member, part, ext_vtr, peel):
    """-> dict(findings=[(clause, ok, detail)], unresolved=str|None, events=n, returns=n)"""
    tr = Tracker(mod, layout, part, fn, ext_vtr)
    tr.is_ctor, tr.is_dtor, tr.result_ref = member.ctor, member.dtor, member.result_ref
    ext = dict(layout.get('externals') or {})
    for n in EVENTS:
        ext[n] = tr.on_event
    for n in NEW_FNS:
        ext[n] = tr.on_new
    for n in FREE_FNS:
        ext[n] = tr.on_free
    it = LifeInterp(mod, externals=ext)
    it.max_peel = peel
    it.max_peel_states = 16
    it.ghost_keys = ('life',)
    it.access_hook = tr.on_access
    run = LifeRun(it, tr)
    structs = {}
    this_ty = None
    for p in fn.params:
        if p['name'] == 'this':
            this_ty = p['ty']['elem']
    for p in fn.params:
        if p['ty']['k'] == 'ptr' and this_ty is not None and p['ty']['elem'] == this_ty:
            cs = part.this if p['name'] == 'this' else part.other
            structs[p['name']] = layout['spec'](cs)
    spec = FnSpec(ctor=member.ctor, dtor=member.dtor, structs=structs)
    spec.setup = make_setup(tr, layout, part, fn)
    unresolved = None
    try:
        run.run(fn.name, spec, fn=fn)
    except Unresolved as e:
        unresolved = str(e)
    except AnalysisBroken as e:
        unresolved = 'engine: ' + str(e)
    finally:
        it.stack = []
    findings = []
    if unresolved is None:
        for ob in it.obligs.values():
            if ob.kind == 'ghost-loop-invariant' and not ob.ok:
                unresolved = 'a loop that changes slot states is not decided by the partition (%s)' % ob.detail
            if ob.kind.startswith('life:'):
                findings.append((ob.kind[5:] + ':' + str(ob.objdesc), ob.ok, ob.detail))
            if ob.kind == 'deref-null' and not ob.ok:
                unresolved = 'a path dereferences a null pointer and is dropped by the interpreter (%s)' % ob.detail
        findings.extend(tr.ret)
        if tr.returns == 0 and unresolved is None:
            unresolved = 'no path of this partition reaches a return'
        bad_calls = [c for c in it.unknown_calls if c not in layout.get('harmless_calls', ())]
        if bad_calls:
            unresolved = 'call(s) to unsummarised external function(s) %s' % sorted(bad_calls)
    if unresolved is not None:
        findings = []
    return {'findings': findings, 'unresolved': unresolved, 'events': tr.events, 'returns': tr.returns}


# ----------------------------------------------------------------------------------------------------------------
# driver: all members x partitions, in parallel (fork), results imported into the report
# ----------------------------------------------------------------------------------------------------------------
_CTX = {}


def _work(k):
    c = _CTX
    (fi, pi) = c['tasks'][k]
    fn, member = c['members'][fi]
    sys.setrecursionlimit(20000)
    r = run_partition(c['mod'], fn, c['layout'], member, member.parts[pi], c['ext_vtr'], c['peel'])
    return (fi, pi, r)


def nice_name(fn, cls):
    """demangled member name without the return type (copy/move overloads differ only there, not in the IR types)"""
    d = demangle1(fn.name)
    k = d.find(cls)
    if k < 0:
        raise AnalysisBroken('%s is not a member of %s' % (d, cls))
    return d[k:]


def run_members(rep, rule, repo, mod, members, layout, ext_vtr, peel, label, cls, rename=None, part_prefix=''):
    """members: list of (Function, Member).  Adds instances
         <rule>:event / :return / :block / :result   key = clause, function = member; merged over partitions
         <rule>:analysed                             one per member whose partitions were all analysed
    returns statistics"""
    tasks = [(fi, pi) for fi, (fn, mb) in enumerate(members) for pi in range(len(mb.parts))]
    _CTX.clear()
    _CTX.update(mod=mod, members=members, layout=layout, ext_vtr=ext_vtr, peel=peel, tasks=tasks)
    workers = min(16, os.cpu_count() or 2, max(1, len(tasks) // 4))
    if workers > 1 and not os.environ.get('VERIF_LIFE_SERIAL'):
        with multiprocessing.get_context('fork').Pool(workers) as pool:
            results = pool.map(_work, range(len(tasks)), chunksize=max(1, len(tasks) // (workers * 8)))
    else:
        results = [_work(k) for k in range(len(tasks))]
    stats = {'members': 0, 'partitions': 0, 'events': 0, 'returns': 0, 'unresolved': []}
    per = {}
    for (fi, pi, r) in results:
        per.setdefault(fi, []).append((pi, r))
    table = {}
    for fi, (fn, mb) in enumerate(members):
        fname = nice_name(fn, cls)
        if rename:
            fname = rename(fname)
        where = '%s:%d' % (relpath(repo, fn.file), fn.line)
        rs = sorted(per.get(fi, []), key=lambda x: x[0])
        unres = [(part_prefix + mb.parts[pi].label, r['unresolved']) for (pi, r) in rs if r['unresolved'] is not None]
        nret = sum(r['returns'] for (_pi, r) in rs)
        nev = sum(r['events'] for (_pi, r) in rs)
        stats['partitions'] += len(rs)
        stats['events'] += nev
        stats['returns'] += nret
        table[fname] = {'partitions': len(rs), 'returns': nret, 'slot_events': nev}
        if mb.note:
            table[fname]['note'] = mb.note
        for (pi, r) in rs:
            plabel = part_prefix + mb.parts[pi].label
            for (clause, ok, detail) in r['findings']:
                kind = clause.split(':', 1)[0]
                sub = {'construct': 'event', 'destroy': 'event', 'assign': 'event', 'read': 'event', 'event': 'event',
                       'rawwrite': 'event', 'rawread': 'event', 'deallocate': 'block', 'return': 'return',
                       'destructor': 'return', 'result': 'result'}[kind]
                if clause.startswith('return:dropped-block') or clause.startswith('return:block-in-m_data'):
                    sub = 'block'
                rep.inst('%s:%s' % (rule, sub), fname, clause, ok, where,
                         None if ok else 'partition {%s}: %s' % (plabel, detail),
                         fact={'partition': plabel, 'unit': label})
        if unres:
            for (pl, why) in unres:
                stats['unresolved'].append('%s {%s}: %s' % (fname, pl, why))
        else:
            stats['members'] += 1
            rep.inst('%s:analysed' % rule, fname, 'every-partition-analysed' + (':' + part_prefix.rstrip(',') if part_prefix else ''),
                     True, where,
                     fact={'partitions': len(rs), 'returns': nret, 'slot_events': nev, 'unit': label})
    ex = rep.extra.setdefault('life', {})
    ex[label] = {'members': table, 'partitions': stats['partitions'], 'slot_events': stats['events'],
                 'returns_checked': stats['returns'], 'unresolved': stats['unresolved']}
    for u in stats['unresolved']:
        print('NOTE %s (%s) partition not analysable, no verdict: %s' % (rule, label, u))
    return stats
