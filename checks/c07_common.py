"""helpers shared by C07 (integer <-> text) and C12 (float <-> text): an Interp with per-instruction
hooks, a C-string load tracker and a C-locale <ctype.h> table model; IR rules for the
"divide, emit remainder" skeleton, negations, forwarding wrappers and digit accumulators."""
from common import *
from absint import Interp
from absval import IntVal, PtrVal, CondVal, FloatVal, NULL, mk_const, Obj
from lin import Lin
from irlib import V, AnalysisBroken

CASTS = ('zext', 'sext', 'trunc', 'bitcast', 'freeze')


def need(mod, name):
    f = mod.fn(name)
    if f is None or f.decl:
        c = [g for g in mod.defined() if g.srcname == name]
        if len(c) == 1:
            return c[0]
        raise AnalysisBroken('function %s not found in %s (anchor vanished)' % (name, mod.path))
    return f


def where(f):
    return '%s:%d' % (f.file, f.line)


def strip(f, v, ops=CASTS):
    while v.k == 'inst' and f.insts[v.id].op in ops:
        v = f.insts[v.id].ops[0]
    return v


def iv(i):
    """operand value denoting instruction i"""
    return V({'k': 'inst', 'id': i.id})


def depends_on(f, v, target, depth=12):
    """v is computed from instruction 'target' through casts / add / sub / select / phi"""
    seen = set()
    st = [(v, 0)]
    while st:
        x, d = st.pop()
        if x.k != 'inst' or x.id in seen or d > depth:
            continue
        seen.add(x.id)
        if x.id == target.id:
            return True
        i = f.insts[x.id]
        if i.op in CASTS + ('add', 'sub', 'select', 'phi', 'or', 'and'):
            for o in i.ops:
                st.append((o, d + 1))
    return False


# ----------------------------------------------------------------------------------------------
# interpreter with hooks
# ----------------------------------------------------------------------------------------------
CT_DIGIT, CT_SPACE = 2048, 8192       # glibc _ISdigit / _ISspace (little endian)
CT_CLASSES = [('digit', [(48, 57)], CT_DIGIT), ('space', [(9, 13), (32, 32)], CT_SPACE),
              ('other', [(-128, 8), (14, 31), (33, 47), (58, 255)], 0)]


class Interp7(Interp):
    """Interp with per-instruction hooks, a tracker of byte loads from C strings (ghost last_off,
    last_ch, first_ch) and a model of the C-locale classification table behind isdigit/isspace"""

    def __init__(self, mod, externals=None, opaque=()):
        ext = {'__ctype_b_loc': self.ext_ctype_b_loc}
        ext.update(externals or {})
        Interp.__init__(self, mod, ext, opaque)
        self.split_tables = True      # a digit table indexed by a nibble / remainder: one state per index value
        self.pre = {}      # (fn name, inst id) -> f(interp, st, inst, fn)
        self.post = {}     # (fn name, inst id) -> f(interp, states, inst, fn)
        self.ctype_checked = set()
        self.havoc_loops = set()   # (fn name, header block name): loops replaced by "all results unknown"
        self.no_peel = False

    # -- loops without memory effects whose results no checked clause depends on ---------------
    def havoc_pure_loops(self, fn):
        """register every loop of fn that neither reads nor writes memory, calls nothing but pure intrinsics and
        defines no pointer: such a loop is over-approximated by leaving it with unknown results (sound for
        partial-correctness clauses; saves one invariant inference per incoming state)"""
        n = 0
        for L in fn.loops:
            ok = True
            for b in L['blocks']:
                for i in b.insts:
                    if i.op in ('load', 'store', 'alloca', 'invoke', 'atomicrmw', 'cmpxchg', 'getelementptr'):
                        ok = False
                    elif i.op == 'call' and not (i.callee or '').startswith(('llvm.fmuladd', 'llvm.fabs', 'llvm.dbg')):
                        ok = False
                    elif i.ty.get('k') == 'ptr':
                        ok = False
            if ok and not any(L2 is not L and L2['header'] in L['blocks'] for L2 in fn.loops):
                self.havoc_loops.add((fn.name, L['header'].name))
                n += 1
        return n

    def run_loop(self, fn, L, st, frm, rets):
        if (fn.name, L['header'].name) in self.havoc_loops:
            out = []
            for (b, to) in L['exits']:
                s = st.fork()
                for blk in L['blocks']:
                    for i in blk.insts:
                        if i.op == 'dbg' or i is blk.term:
                            continue
                        if i.ty.get('k') not in (None, 'void'):
                            s.env[('i', i.id)] = self.top_of_type(s, i.ty, 'hv')
                out.append((s, b, to))
            return out
        return Interp.run_loop(self, fn, L, st, frm, rets)

    def try_peel(self, fn, L, st, frm, rets):
        if self.no_peel:
            return None
        return Interp.try_peel(self, fn, L, st, frm, rets)

    # -- <ctype.h>: (*__ctype_b_loc())[c] & mask ---------------------------------------------
    def ext_ctype_b_loc(self, interp, st, i, args):
        loc = self.named_obj(st, 'ctype:loc', 'global', Lin(8), {'desc': '*__ctype_b_loc()'})
        tab = self.named_obj(st, 'ctype:table', 'global', Lin(768),
                             {'desc': 'C-locale character class table', 'ctype': True})
        st.mem[(loc.id, 0, 8)] = PtrVal(tab.id, Lin(256))
        return [(st, PtrVal(loc.id))]

    def ctype_load(self, fn, i, st, p):
        key = (fn.name, i.id)
        if key not in self.ctype_checked:
            # only the digit and space bits are modelled: every use must mask with exactly one of them
            for u in fn.users(i):
                uu = [u]
                if u.op in ('zext', 'sext'):
                    uu = fn.users(u)
                for a in uu:
                    k = [o.ival for o in a.ops if o.k == 'ci'] if a.op == 'and' else []
                    if k not in ([CT_DIGIT], [CT_SPACE]):
                        raise AnalysisBroken('%s: character class test at %s is not isdigit/isspace '
                                             '(not modelled)' % (fn.name, a.where()))
            self.ctype_checked.add(key)
        self.check_access(st, p, 2, i, 'load')
        idx2 = p.off - 256
        out = []
        for (name, ranges, bits) in CT_CLASSES:
            for (lo, hi) in ranges:
                s = st.fork()
                s.cons.add_le(2 * lo, idx2)
                s.cons.add_le(idx2, 2 * hi)
                if self.infeasible(s, idx2, Lin(0)):
                    continue
                s.env[('i', i.id)] = mk_const(16, bits)
                out.append(s)
        return out

    def exec_inst(self, fn, i, st):
        h = self.pre.get((fn.name, i.id))
        if h is not None:
            h(self, st, i, fn)
        out = None
        p = None
        if i.op == 'load':
            p = self.val(st, i.ops[0], fn)
            if isinstance(p, PtrVal) and p.obj == 'ctype:table':
                out = self.ctype_load(fn, i, st, p)
        if out is None:
            out = Interp.exec_inst(self, fn, i, st)
            if i.op == 'load' and i.ty.get('bits') == 8 and isinstance(p, PtrVal) and p.obj is not None:
                o = st.objs.get(p.obj)
                if o is not None and 'cstr_len' in o.info:
                    for s in out:
                        v = s.env.get(('i', i.id))
                        s.ghost['last_off'] = p.off
                        if isinstance(v, IntVal):
                            u = s.force_u(v)
                            s.ghost['last_ch'] = u
                            if p.off.is_const() and p.off.c == 0:
                                s.ghost['first_ch'] = u
        h = self.post.get((fn.name, i.id))
        if h is not None:
            h(self, out, i, fn)
        return out


class Run7(ContractRun):
    """ContractRun that (a) exposes what was stored through out-pointer parameters:
    FnSpec.outptrs = {arg index: name} binds ghost_<name>_set (0/1), ghost_<name>_off (byte offset of the
    stored pointer inside its object), ghost_<name>_arg (index of the pointer argument it points into);
    (b) aliases every ghost value g as ghost_g_post so that premises over ghost values are evaluated at
    the return (the contract layer treats premises without '_post'/'ret' as entry conditions)."""

    def check_return(self, fn, spec, env, struct_params, T, rv, posts=None):
        args = getattr(self, 'last_args', [])
        for idx, nm in (getattr(spec, 'outptrs', None) or {}).items():
            a = args[idx]
            if isinstance(a, PtrVal) and not a.is_null:
                cell = T.mem.get((a.obj, 0, 8))
                if isinstance(cell, PtrVal) and not cell.is_null:
                    T.ghost[nm + '_set'] = 1
                    T.ghost[nm + '_off'] = cell.off
                    k = -1
                    for n_, a_ in enumerate(args):
                        if isinstance(a_, PtrVal) and a_.obj == cell.obj:
                            k = n_
                            break
                    T.ghost[nm + '_arg'] = k
                else:
                    T.ghost[nm + '_set'] = 0
        for k in list(T.ghost):
            if not k.endswith('_post'):
                T.ghost[k + '_post'] = T.ghost[k]
        ContractRun.check_return(self, fn, spec, env, struct_params, T, rv, posts)


def spec7(outptrs=None, **kw):
    s = FnSpec(**kw)
    s.outptrs = outptrs or {}
    return s


def import_obligations(rep, rule, it, run):
    rep.add_absint(rule, summarize(it, run))
    a = rep.extra.setdefault('absint', {})
    a['accesses_checked'] = a.get('accesses_checked', 0) + it.checked
    a['accesses_without_known_extent'] = a.get('accesses_without_known_extent', 0) + it.unchecked
    a['loops_closed_by_invariant'] = a.get('loops_closed_by_invariant', 0) + it.loops_seen
    a['functions_interpreted'] = sorted(set(a.get('functions_interpreted', [])) | it.functions_seen)


class Sink:
    """rule instances produced from inside hooks: only in recording passes of the interpreter"""

    def __init__(self, rep, it):
        self.rep = rep
        self.it = it
        self.seen = {}

    def inst(self, rule, fn, key, ok, where_, detail=None, fact=None):
        if self.it.recording > 0:
            return
        self.seen[(rule, fn, key)] = self.seen.get((rule, fn, key), True) and bool(ok)
        self.rep.inst(rule, fn, key, ok, where_, None if ok else detail, fact=fact)


def ext_nop(interp, st, i, args):
    return [(st, None)]


def combine(*setups):
    def setup(run, st, env, names, args, sps):
        for s in setups:
            s(run, st, env, names, args, sps)
    return setup


def null_param(idx):
    def setup(run, st, env, names, args, sps):
        args[idx] = NULL
    return setup


def feasible(it, st, cons):
    """fork of st with the constraints [(lo Lin/int, hi Lin/int)] (lo <= hi) added, or None when unsatisfiable"""
    s = st.fork()
    syms = []
    for (a, b) in cons:
        s.cons.add_le(a, b)
        for x in (a, b):
            if isinstance(x, Lin):
                syms.append(x)
    if not syms:
        return None if s.cons.unsat() else s
    acc = syms[0]
    for x in syms[1:]:
        acc = acc + x
    if it.infeasible(s, acc, Lin(0)):
        return None
    return s


# ----------------------------------------------------------------------------------------------
# IR rules
# ----------------------------------------------------------------------------------------------
class RemProxy:
    """`x - (x / B) * B` standing for `x % B`: looks like the urem/srem instruction to the rules (same id as the sub, so that
    data dependences on it are found)"""

    def __init__(self, sub, op, ops):
        self._i = sub
        self.op = op
        self.ops = ops
        self.id = sub.id
        self.block = sub.block
        self.fn = sub.fn
        self.d = sub.d

    def where(self):
        return self._i.where()

    def __getattr__(self, n):
        return getattr(self._i, n)


def find_divloops(f):
    """loops of the shape  do { emit(x % B); x /= B } : [dict(loop, phi, div, rems)]"""
    out = []
    for L in f.loops:
        hdr = L['header']
        for ph in [i for i in hdr.insts if i.op == 'phi' and i.ty.get('k') == 'int']:
            for (bb, v) in ph.incoming:
                if f.bmap[bb] in L['blocks'] and v.k == 'inst':
                    d = f.insts[v.id]
                    if d.op in ('udiv', 'sdiv') and d.ops[0].k == 'inst' and d.ops[0].id == ph.id:
                        rems = [i for b in L['blocks'] for i in b.insts if i.op in ('urem', 'srem') and
                                i.ops[0].k == 'inst' and i.ops[0].id == ph.id]
                        # the remainder written out as  x - (x / B) * B  with the quotient of this very division
                        for b in L['blocks']:
                            for i in b.insts:
                                if i.op != 'sub' or not (i.ops[0].k == 'inst' and i.ops[0].id == ph.id) or i.ops[1].k != 'inst':
                                    continue
                                m = f.insts[i.ops[1].id]
                                if m.op != 'mul':
                                    continue
                                q = [o for o in m.ops if o.k == 'inst' and o.id == d.id]
                                k_ = [o for o in m.ops if not (o.k == 'inst' and o.id == d.id)]
                                if len(q) == 1 and len(k_) == 1 and k_[0].key() == d.ops[1].key():
                                    rems.append(RemProxy(i, 'urem' if d.op == 'udiv' else 'srem', [i.ops[0], d.ops[1]]))
                        out.append(dict(loop=L, phi=ph, div=d, rems=rems))
    return out


def the_divloop(f):
    dl = find_divloops(f)
    if len(dl) != 1:
        raise AnalysisBroken('%s: expected exactly one divide-by-base digit loop, found %d (anchor changed)'
                             % (f.name, len(dl)))
    return dl[0]


def root_desc(f, v):
    r = strip(f, v)
    if r.k == 'arg':
        return ('arg', r.argno)
    if r.k == 'ci':
        return ('const', r.ival)
    return ('inst', r.id)


def skeleton_rule(rep, f, name, value_arg, base, rule='R-SKELETON'):
    """the digit loop is the textbook base conversion: unsigned full-width dividend x starting from the
    magnitude of the value parameter, digit = x % B, x = x / B with the same B, repeated until the
    quotient is zero, one byte stored per digit at a cursor that moves by one.  By the division lemma the
    emitted remainders are exactly the base-B digits of the value, least significant first, and the most
    significant one is non-zero (no leading zeros) unless the value is 0."""
    w = where(f)
    D = the_divloop(f)
    L, ph, div, rems = D['loop'], D['phi'], D['div'], D['rems']

    def inst(key, ok, detail=None, fact=None):
        rep.inst(rule, name, key, ok, w, None if ok else detail, fact=fact)
    uns = div.op == 'udiv' and all(r.op == 'urem' for r in rems)
    # the signed form: the dividend keeps the sign of the value, quotient and remainder are the truncating ones (their
    # magnitudes are quotient and remainder of the magnitude) and the MAGNITUDE of each remainder is emitted.  Accepted here
    # when the remainder is negated somewhere on its way to the digit store; that the digit is |remainder| on every path is
    # then decided path-sensitively by R-DIGITCHAR (0 <= digit, character == '0' + digit).
    rem_negs = [i for b in L['blocks'] for i in b.insts if i.op == 'sub' and i.ops[0].k == 'ci' and i.ops[0].ival == 0 and
                any(depends_on(f, i.ops[1], r) for r in rems)]
    signed_form = div.op == 'sdiv' and bool(rems) and all(r.op == 'srem' for r in rems) and bool(rem_negs)
    D['signed_form'] = signed_form
    inst('division-and-remainder-are-unsigned', uns or signed_form,
         'the digit loop divides with %s/%s: a negative dividend (the minimum value of the type negates to '
         'itself) yields negative remainders, i.e. characters below \'0\'' % (div.op, ','.join(r.op for r in rems)),
         fact={'form': 'unsigned' if uns else 'signed dividend, magnitude of the remainder emitted' if signed_form else 'signed'})
    inst('one-remainder-per-quotient', len(rems) == 1, 'found %d remainder operations on the dividend' % len(rems))
    bdesc = root_desc(f, div.ops[1])
    same = all(root_desc(f, r.ops[1]) == bdesc for r in rems)
    inst('quotient-and-remainder-use-the-same-base', same and bdesc == base,
         'divisor of the quotient is %s, of the remainder %s, expected %s'
         % (bdesc, [root_desc(f, r.ops[1]) for r in rems], base), fact={'base': bdesc})
    vbits = f.params[value_arg]['ty'].get('bits')
    inst('dividend-has-the-full-width-of-the-value', ph.bits >= vbits,
         'dividend is %d bits wide, the value parameter %d bits' % (ph.bits, vbits),
         fact={'dividend_bits': ph.bits, 'value_bits': vbits})
    # continue condition
    ex = L['exits']
    ok = False
    det = 'loop has %d exits' % len(ex)
    if len(ex) == 1:
        frm, to = ex[0]
        t = frm.term
        if t.op == 'br' and 'f' in t.d and t.ops[0].k == 'inst':
            c = f.insts[t.ops[0].id]
            if c.op == 'icmp' and c.pred in ('ne', 'eq') and any(o.k == 'ci' and o.ival == 0 for o in c.ops):
                x = [o for o in c.ops if not (o.k == 'ci')]
                stay = f.bmap[t.d['t']] if c.pred == 'ne' else f.bmap[t.d['f']]
                x = strip(f, x[0]) if x else None
                if x is not None and x.k == 'inst' and stay in L['blocks']:
                    if x.id == div.id and L['header'] in frm.succs:
                        ok = True
                    elif x.id == ph.id and frm is L['header']:
                        ok = True
                    else:
                        det = 'the loop tests %%%d, which is neither the quotient nor the next dividend' % x.id
                else:
                    det = 'loop continues on the wrong polarity of the zero test'
            else:
                det = 'loop condition is not a comparison of the quotient with zero'
    inst('continues-exactly-while-the-quotient-is-nonzero', ok, det)
    # start value
    init = None
    for (bb, v) in ph.incoming:
        if f.bmap[bb] not in L['blocks']:
            init = v
    srcs = []
    narrow = []

    def strip_w(v):
        """strip casts, remembering any truncation below the width of the value parameter"""
        while v.k == 'inst' and f.insts[v.id].op in CASTS:
            i = f.insts[v.id]
            if i.op == 'trunc' and i.bits < vbits:
                narrow.append(i)
            v = i.ops[0]
        return v

    def collect(v, depth=0):
        v = strip_w(v)
        if v.k == 'inst' and f.insts[v.id].op in ('phi', 'select') and depth < 4:
            i = f.insts[v.id]
            for o in (i.ops[1:] if i.op == 'select' else i.ops):
                collect(o, depth + 1)
        elif v.k == 'inst' and f.insts[v.id].op == 'sub' and f.insts[v.id].ops[0].k == 'ci' and \
                f.insts[v.id].ops[0].ival == 0:
            if f.insts[v.id].bits < vbits:
                narrow.append(f.insts[v.id])
            r = strip_w(f.insts[v.id].ops[1])
            srcs.append(('neg', r.argno if r.k == 'arg' else None))
        else:
            srcs.append(('val', v.argno if v.k == 'arg' else None))
    if init is not None:
        collect(init)
    ok = bool(srcs) and all(s[1] == value_arg for s in srcs)
    inst('dividend-starts-from-the-value-or-its-negation', ok, 'dividend is initialised from %s' % srcs,
         fact={'sources': srcs})
    inst('magnitude-is-computed-at-the-full-width-of-the-value', not narrow,
         'on the way from the value parameter (%d bits) to the dividend the value is cut to %s bits (%s): magnitudes that '
         'need more bits lose their high part, e.g. a negation carried out in a narrower unsigned type'
         % (vbits, narrow[0].bits if narrow else '?', narrow[0].op if narrow else ''))
    # one byte per digit at a cursor that moves by one.  The cursor may be a pointer (`*p++ = d`) or an index
    # (`buf[len++] = d`); the digit may be stored by one statement or by one store in each arm of an if/else.
    stores = [i for b in L['blocks'] for i in b.insts if i.op == 'store' and rems and depends_on(f, i.ops[0], rems[0])]
    ok = False
    det = 'found %d stores of a remainder-derived byte in the loop' % len(stores)

    def cursor_of(s):
        """(loop-carried phi, step per iteration) addressing the store, or (None, reason)"""
        p = s.ops[1]
        cur = None
        if p.k == 'inst' and f.insts[p.id].op == 'phi':
            cur = f.insts[p.id]
        elif p.k == 'inst' and f.insts[p.id].op == 'getelementptr':
            g = f.insts[p.id]
            if g.ops[0].k == 'inst' and f.insts[g.ops[0].id].op == 'phi' and f.insts[g.ops[0].id].block is L['header']:
                cur = f.insts[g.ops[0].id]
            else:
                # index form: base[idx] with idx a loop-carried integer
                for o in g.ops[1:]:
                    x = strip(f, o)
                    if x.k == 'inst' and f.insts[x.id].op in ('add', 'sub') and f.insts[x.id].ops[1].k == 'ci':
                        x = strip(f, f.insts[x.id].ops[0])          # buf[--pos] / buf[pos - 1]: the index is the stepped cursor
                    if x.k == 'inst' and f.insts[x.id].op == 'phi' and f.insts[x.id].block is L['header']:
                        cur = f.insts[x.id]
        if cur is None or cur.block is not L['header']:
            return None, 'digit is not stored through a loop-carried cursor'
        step = None
        for (bb, v) in cur.incoming:
            if f.bmap[bb] not in L['blocks'] or v.k != 'inst':
                continue
            g = f.insts[v.id]
            if g.op == 'getelementptr':
                st_ = g.d['gep']['steps']
                if g.ops[0].k == 'inst' and g.ops[0].id == cur.id and len(st_) == 1 and st_[0]['v']['k'] == 'ci':
                    step = st_[0]['stride'] * st_[0]['v']['v']
            elif g.op == 'add' and any(o.k == 'ci' for o in g.ops):
                o2 = [o for o in g.ops if o.k != 'ci']
                if o2 and o2[0].k == 'inst' and o2[0].id == cur.id:
                    step = [o for o in g.ops if o.k == 'ci'][0].ival
            elif g.op == 'sub' and g.ops[1].k == 'ci' and g.ops[0].k == 'inst' and g.ops[0].id == cur.id:
                step = -g.ops[1].ival
        return cur, step
    if stores and all(s.d.get('store_size') == 1 for s in stores):
        cs = [cursor_of(s) for s in stores]
        curs = set(c[0].id for c in cs if c[0] is not None)
        # several stores are alternatives (arms of a branch): none of them can reach another within one iteration
        exclusive = all(s2.block not in f.reachable_blocks(s1.block, avoid=[L['header']]) or s1 is s2
                        for s1 in stores for s2 in stores if s1.block is not s2.block) and \
            len(set(s.block.name for s in stores)) == len(stores)
        if any(c[0] is None for c in cs):
            det = [c[1] for c in cs if c[0] is None][0]
        elif len(curs) != 1 or not exclusive:
            det = 'found %d stores of a remainder-derived byte in the loop that are not alternatives at one cursor' % len(stores)
        else:
            step = cs[0][1]
            ok = step in (1, -1)
            det = 'cursor step per digit is %s' % step
    inst('one-byte-per-digit-at-a-cursor-moving-by-one', ok, det)
    return D


def neg_rule(rep, f, name, rule='R-NEG', expect=True):
    """negations of the value are carried out in unsigned (wrapping) arithmetic: the magnitude of the
    minimum value is not representable in the signed type, `-x` on it is undefined behaviour"""
    rems = [i for i in f.all_insts() if i.op in ('srem', 'urem')]
    # negating a remainder (|r| < base) cannot overflow and is not a negation of the value
    negs = [i for i in f.all_insts() if i.op == 'sub' and i.ops[0].k == 'ci' and i.ops[0].ival == 0 and i.bits >= 8 and
            not any(depends_on(f, i.ops[1], r) for r in rems)]
    if expect and not negs:
        raise AnalysisBroken('%s: no negation found (anchor changed)' % name)
    bad = [i for i in negs if i.d.get('nsw')]
    rep.inst(rule, name, 'negation-wraps', not bad, bad[0].where() if bad else where(f),
             None if not bad else 'the value is negated in the signed type (%d-bit `-x` with overflow undefined): '
             'the minimum value of the type has no positive counterpart' % bad[0].bits,
             fact={'negations': len(negs), 'signed': len(bad)})
    return negs


def param_signed(f, idx):
    dit = f.d.get('ditypes') or []
    if 1 + idx < len(dit):
        return dit[1 + idx].get('signed') == 1
    return None


def forward_rule(rep, rule, f, name, callee, args, ret, extra_calls=()):
    """f does nothing but call `callee` once; callee argument k is args[k]:
    ('arg', i) parameter i converted value-preservingly (sign extension for signed, zero extension for
    unsigned parameters, fpext/fptrunc for floats), ('null',), ('const', v); the result is returned (ret: 'same' |
    'narrow' | 'float' | None for void)"""
    w = where(f)
    calls = [c for c in f.calls() if c.callee and not c.callee.startswith('llvm.')]
    tgt = [c for c in calls if c.callee == callee]
    others = [c.callee for c in calls if c.callee != callee and c.callee not in extra_calls]
    ok = len(tgt) == 1 and not others
    rep.inst(rule, name, 'calls-only-%s' % callee, ok, w,
             None if ok else 'calls %s' % sorted(c.callee for c in calls), fact=[c.callee for c in calls])
    if len(tgt) != 1:
        return
    c = tgt[0]
    stores = [i for i in f.all_insts() if i.op == 'store']
    for k, want in enumerate(args):
        a = c.ops[k] if k < len(c.ops) else None
        good = False
        det = None
        if a is None:
            det = 'argument missing'
        elif want[0] == 'null':
            good = a.k == 'null'
            det = 'argument %d is not a null pointer' % k
        elif want[0] == 'const':
            good = a.k == 'ci' and a.ival == want[1]
            det = 'argument %d is not the constant %d' % (k, want[1])
        else:
            idx = want[1]
            chain = []
            v = a
            while v.k == 'inst' and f.insts[v.id].op in ('zext', 'sext', 'trunc', 'fpext', 'fptrunc', 'bitcast'):
                chain.append(f.insts[v.id].op)
                v = f.insts[v.id].ops[0]
            pty = f.params[idx]['ty'] if idx < len(f.params) else {}
            if v.k == 'arg' and v.argno == idx:
                if pty.get('k') == 'int':
                    sg = param_signed(f, idx)
                    allowed = [[], ['sext'] if sg else ['zext']]
                    good = chain in allowed
                    det = 'parameter %d (%s) reaches argument %d through %s' % (
                        idx, 'signed' if sg else 'unsigned', k, chain or 'no conversion')
                elif pty.get('k') == 'fp':
                    good = chain in ([], ['fpext'], ['fptrunc'])
                    det = 'float parameter converted through %s' % chain
                else:
                    good = all(x == 'bitcast' for x in chain)
                    det = 'pointer parameter converted through %s' % chain
            else:
                det = 'argument %d of %s is not parameter %d' % (k, callee, idx)
        rep.inst(rule, name, 'argument-%d' % k, good, c.where(), None if good else det)
    if ret is None:
        return
    rets = f.returns()
    good = False
    det = 'no single return'
    if len(rets) == 1 and rets[0].ops:
        v = rets[0].ops[0]
        chain = []
        while v.k == 'inst' and f.insts[v.id].op in ('zext', 'sext', 'trunc', 'fpext', 'fptrunc', 'bitcast'):
            chain.append(f.insts[v.id].op)
            v = f.insts[v.id].ops[0]
        if v.k == 'inst' and v.id == c.id:
            allowed = {'same': [[]], 'narrow': [[], ['trunc']], 'float': [[], ['fpext'], ['fptrunc']]}[ret]
            good = chain in allowed
            det = 'result of %s is converted through %s before it is returned' % (callee, chain)
        else:
            det = 'returned value is not the result of %s' % callee
    rep.inst(rule, name, 'returns-callee-result', good, w, None if good else det)


def find_accumulators(f):
    """loops  acc = acc * B + digit : [dict(loop, phi, add, mul, base(V), digit(V))]"""
    out = []
    for L in f.loops:
        for ph in [i for i in L['header'].insts if i.op == 'phi' and i.ty.get('k') == 'int']:
            for (bb, v) in ph.incoming:
                if f.bmap[bb] not in L['blocks'] or v.k != 'inst':
                    continue
                a = f.insts[v.id]
                if a.op != 'add':
                    continue
                for k in (0, 1):
                    m = a.ops[k]
                    if m.k == 'inst' and f.insts[m.id].op == 'mul':
                        mi = f.insts[m.id]
                        for j in (0, 1):
                            if mi.ops[j].k == 'inst' and mi.ops[j].id == ph.id:
                                out.append(dict(loop=L, phi=ph, add=a, mul=mi, base=mi.ops[1 - j], digit=a.ops[1 - k]))
    return out


DIGIT_CLASSES = [('0-9', 48, 57, 48), ('a-z', 97, 122, 87), ('A-Z', 65, 90, 55)]
GAPS = [(0, 47), (58, 64), (91, 96), (123, 255)]


def carried_char(f, L):
    """a scan loop that carries the current character in a variable (`c = *p++`): header phis (C, P) such
    that on every incoming edge C is the byte loaded from P - 1.  Returns (C, P, [loads from P inside L])"""
    def match(vc, vp, depth=0):
        vc = strip(f, vc)
        if vc.k != 'inst' or vp.k != 'inst' or depth > 4:
            return False
        ic, ip = f.insts[vc.id], f.insts[vp.id]
        if ic.op == 'load' and ic.bits == 8 and ip.op == 'getelementptr':
            st_ = ip.d['gep']['steps']
            return ip.ops[0].key() == ic.ops[0].key() and len(st_) == 1 and st_[0]['v'].get('k') == 'ci' and \
                st_[0]['v']['v'] * st_[0]['stride'] == 1
        if ic.op == 'phi' and ip.op == 'phi' and ic.block is ip.block:
            mp = dict(ip.incoming)
            return all(bb in mp and match(v, mp[bb], depth + 1) for (bb, v) in ic.incoming)
        return False
    hdr = L['header']
    for C in [i for i in hdr.insts if i.op == 'phi' and i.ty.get('k') == 'int']:
        for P in [i for i in hdr.insts if i.op == 'phi' and i.ty.get('k') == 'ptr']:
            mp = dict(P.incoming)
            if all(bb in mp and match(v, mp[bb]) for (bb, v) in C.incoming):
                loads = [i for b in L['blocks'] for i in b.insts if i.op == 'load' and i.bits == 8 and
                         i.ops[0].k == 'inst' and i.ops[0].id == P.id]
                return C, P, loads
    return None


def carried_lemma_hook(C):
    """pre-hook for a load from P in a carried-character loop: C == s[P-1] (carried_char), so when the state
    knows C != 0 the previous position was not the terminator and P is at most the terminator position"""
    def hook(it, st, i, fn):
        p = it.val(st, i.ops[0], fn)
        c = it.val(st, iv(C), fn)
        if not isinstance(p, PtrVal) or p.obj is None or not isinstance(c, IntVal):
            return
        o = st.objs.get(p.obj)
        n = o.info.get('cstr_len') if o is not None else None
        cu = st.as_u(c)
        if n is not None and cu is not None and st.cons.entails_le(1, cu):
            st.cons.add_le(p.off, n)
    return hook


def digit_class_hook(sink, rule, name, acc, classes, char_value=None, gaps=None):
    """pre-hook for the accumulation  acc*B + d : in every state that reaches it the character just read
    (ghost last_ch, or the SSA value char_value) belongs to one of the digit classes, d is that class's closed
    form c - K and d < B"""
    gaps = GAPS if gaps is None else gaps

    def hook(it, st, i, fn):
        if it.recording > 0:
            return
        if char_value is not None:
            cv = it.val(st, char_value, fn)
            ch = st.force_u(cv) if isinstance(cv, IntVal) else None
        else:
            ch = st.ghost.get('last_ch')
        w = i.where()
        if ch is None:
            sink.inst(rule, name, 'digit-comes-from-the-character-just-read', False, w,
                      'no character of the input string has been read before a digit is accumulated')
            return
        d = it.val(st, acc['digit'], fn)
        b = it.val(st, acc['base'], fn)
        dl = (st.as_s(d) if st.as_s(d) is not None else st.as_u(d)) if isinstance(d, IntVal) else None
        bl = st.as_u(b) if isinstance(b, IntVal) else None
        for (cname, lo, hi, K) in classes:
            s = feasible(it, st, [(lo, ch), (ch, hi)])
            if s is None:
                continue
            ok = dl is not None and s.cons.entails_eq(dl, ch - K)
            sink.inst(rule, name, 'class %s: digit value == c - %d' % (cname, K), ok, w,
                      'for a character in %s the accumulated digit is %r, not c - %d (c = %r)%s'
                      % (cname, dl, K, ch, it.explain(s, [x for x in (dl, ch) if x is not None])),
                      fact={'class': cname, 'offset': K})
            ok = dl is not None and bl is not None and s.cons.entails_le(dl + 1, bl) and s.cons.entails_le(0, dl)
            sink.inst(rule, name, 'class %s: accepted digit is below the base' % cname, ok, w,
                      'a character in %s with digit value %r is accumulated although it is not provably '
                      'smaller than the base %r (e.g. \'9\' in base 8)' % (cname, dl, bl))
        bad = None
        allgaps = list(gaps)
        for (cname, lo, hi, K) in DIGIT_CLASSES:
            if all(c[0] != cname for c in classes):
                allgaps.append((lo, hi))
        for (lo, hi) in allgaps:
            if feasible(it, st, [(lo, ch), (ch, hi)]) is not None:
                bad = (lo, hi)
        sink.inst(rule, name, 'only digit characters are accumulated', bad is None, w,
                  None if bad is None else 'a character with code in %d..%d can reach the accumulation' % bad)
    return hook


def guarded_outptr_rule(rep, rule, f, name, idx):
    """every store through pointer parameter idx is executed only after the parameter compared unequal to null"""
    n = 0
    for i in f.all_insts():
        if i.op == 'store' and i.ops[1].k == 'arg' and i.ops[1].argno == idx:
            n += 1
            ok = False
            for b in f.blocks:
                t = b.term
                if t.op == 'br' and 'f' in t.d and t.ops[0].k == 'inst':
                    c = f.insts[t.ops[0].id]
                    if c.op == 'icmp' and c.pred in ('ne', 'eq') and any(o.k == 'arg' and o.argno == idx for o in c.ops) \
                            and any(o.k == 'null' for o in c.ops):
                        good = f.bmap[t.d['t'] if c.pred == 'ne' else t.d['f']]
                        other = f.bmap[t.d['f'] if c.pred == 'ne' else t.d['t']]
                        if good is not other and len(good.preds) == 1 and f.dominates_block(good, i.block):
                            ok = True
            rep.inst(rule, name, 'store through the end pointer is guarded by a null test', ok, i.where(),
                     'the end pointer parameter is written without a dominating test against NULL')
    return n


def bool_root(f, v):
    """peel  icmp ne (zext/trunc ... (b)), 0  wrappers around an i1 value"""
    for _ in range(8):
        if v.k != 'inst':
            return v
        i = f.insts[v.id]
        if i.op == 'icmp' and i.pred == 'ne' and i.ops[1].k == 'ci' and i.ops[1].ival == 0:
            v = strip(f, i.ops[0])
            continue
        if i.op in CASTS:
            v = i.ops[0]
            continue
        return v
    return v
