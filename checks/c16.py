"""C16 timers (igris/time/timer_manager.h, igris/datastruct/stimer.c): statically decided clauses.

Three engines are combined:
  * IR path/dataflow rules (lock depth over every CFG path, who-may-link, re-arm order, shape of the due test
    and of the sorted-insert predicate) - valid for lists of any length;
  * abstract interpretation of the small accessors (check/finish/shift/set_*, stimer_*) against closed forms on
    case splits (including the modulo-2^32 behaviour of an unsigned tick counter);
  * abstract interpretation of plan()/exec()/unplan()/... on *explicit* pending lists of up to three timers with
    symbolic start/interval/now and a modelled callback (noop / unplan itself / unplan another timer): the
    resulting pointer graph, the sequence of callbacks, the re-armed deadlines and the lock depth are compared
    with a reference scheduler written on sequences.
Nothing is executed; ordering/drift over unbounded histories is not decided (see rep.explanation)."""
import os
import subprocess

from common import *
from irlib import tyname
from absval import State, PtrVal, IntVal, CondVal
from lin import Lin
from contracts import Env, assume_text, entails_text

LOCKS = ('system_lock', 'system_lock_impl')
UNLOCKS = ('system_unlock', 'system_unlock_impl')
LINKERS = {'move_prev', 'move_next', 'move_front', 'move_back', 'move_prev_than', 'move_next_than',
           'unlink_and_move_all_nodes_from_other', 'round_left'}
UNLINKERS = {'unlink', 'pop', 'pop_node', 'pop_front', 'pop_back', 'clear'}

# (tag, template arguments as printed in debug info, bit width, signed)
INSTANCES = [('int64', 'long, long', 64, True),
             ('uint32', 'unsigned int, unsigned int', 32, False)]


# ---------------------------------------------------------------------------
# anchors
# ---------------------------------------------------------------------------
class Anchors:
    """resolved functions / struct fields of one instantiation; a vanished anchor raises AnalysisBroken"""

    def __init__(self, mod, tag, targs, W, signed):
        self.mod, self.tag, self.W, self.signed = mod, tag, W, signed
        self.TH = 'igris::timer_head_basic<igris::timer_spec<%s>' % targs
        self.TM = 'igris::timer_manager_basic<igris::timer_spec<%s>' % targs
        self.DL = 'igris::dlist<igris::timer_head_basic<igris::timer_spec<%s>' % targs

        def fn(cls, m, **kw):
            return mod.fn(cxx(mod, cls, m, **kw))
        self.check = fn(self.TH, 'check')
        self.finish = fn(self.TH, 'finish')
        self.is_planned = fn(self.TH, 'is_planned')
        self.unplan = fn(self.TH, 'unplan')
        self.shift = fn(self.TH, 'shift')
        self.set_start = fn(self.TH, 'set_start')
        self.set_interval = fn(self.TH, 'set_interval')
        self.ctor = fn(self.TH, 'timer_head_basic')
        d = [f for f in mod.defined() if f.scope.startswith(self.TH) and f.srcname == '~timer_head_basic'
             and f.name.endswith('D2Ev')]
        if len(d) != 1:
            raise AnalysisBroken('base destructor of %s not instantiated in the witness' % self.TH)
        self.dtor = d[0]
        self.plan = fn(self.TM, 'plan', param_count=2)
        self.plan3 = fn(self.TM, 'plan', param_count=4)
        self.exec_ = fn(self.TM, 'exec')
        self.empty = fn(self.TM, 'empty')
        self.minimal_interval = fn(self.TM, 'minimal_interval')
        lam = [f for f in mod.defined() if f.scope.startswith(self.TM) and '::plan::' in f.scope
               and f.srcname.startswith('operator()')]
        if len(lam) > 1:
            raise AnalysisBroken('search predicate (lambda) of %s::plan is ambiguous: %d candidates' % (self.TM, len(lam)))
        # the insertion search may also be written as an explicit loop; then there is no predicate function to look at
        # and the sort order is decided by the R-PLAN scenarios alone (which decide it in either form)
        self.lam = lam[0] if lam else None
        self.first = fn(self.DL, 'first')
        self.th_struct = tyname(self.check.params[0]['ty']['elem'])
        self.tm_struct = tyname(self.exec_.params[0]['ty']['elem'])
        fl = {f['name']: f for f in mod.flat_fields(self.th_struct)}
        for need in ('lnk.next', 'lnk.prev', '_start', '_interval'):
            if need not in fl:
                raise AnalysisBroken('field %s of %s not found in debug info (anchor vanished)' % (need, self.th_struct))
        self.off_lnk = fl['lnk.next']['off']
        if fl['lnk.prev']['off'] != self.off_lnk + 8:
            raise AnalysisBroken('unexpected dlist_node layout in %s' % self.th_struct)
        self.off_start = fl['_start']['off']
        self.off_interval = fl['_interval']['off']
        if fl['_start']['size'] * 8 != W or fl['_interval']['size'] * 8 != W:
            raise AnalysisBroken('%s: _start/_interval are not %d bit wide' % (self.th_struct, W))
        if (fl['_start']['signed'] == 1) != signed:
            raise AnalysisBroken('%s: signedness of _start differs from the witness instantiation' % self.th_struct)
        self.th_size = mod.structs[self.th_struct]['size']
        ml = {f['name']: f for f in mod.flat_fields(self.tm_struct)}
        if 'timer_list.list.next' not in ml:
            raise AnalysisBroken('field timer_list of %s not found in debug info' % self.tm_struct)
        self.off_list = ml['timer_list.list.next']['off']
        self.tm_size = mod.structs[self.tm_struct]['size']
        self.scoped = [f for f in mod.defined() if f.scope.startswith(self.TH) or f.scope.startswith(self.TM)]

    def nm(self, f):
        n = f.qualname
        if f.srcname == 'plan':
            n += '(tim)' if len(f.params) == 2 else '(tim,start,interval)'
        if f is self.lam:
            n = self.plan.qualname + '::<search predicate>'
        return n


def callee_fn(mod, i):
    c = i.callee
    return mod.fn(c) if c else None


def callee_base(mod, i):
    """source-level base name of the callee ('find_if', 'move_prev', ...); '<indirect>' for indirect calls"""
    if i.callee is None:
        return '<indirect>'
    g = mod.fn(i.callee)
    if g is not None and g.srcname:
        return base_name(g)
    return i.callee


def calls_of(mod, f, base):
    return [i for i in f.all_insts() if i.op in ('call', 'invoke') and callee_base(mod, i) == base]


def is_intrinsic(i):
    c = i.callee
    return c is not None and c.startswith('llvm.')


def trace_const(fn, v):
    """follow bitcast / constant-offset GEP chains: (root value, constant byte offset) or (value, None)"""
    off = 0
    for _ in range(40):
        if v.k != 'inst':
            break
        i = fn.insts[v.id]
        if i.op in ('bitcast', 'addrspacecast'):
            v = i.ops[0]
        elif i.op == 'getelementptr':
            d = 0
            for s in i.d['gep']['steps']:
                if s['k'] == 'field':
                    d += s['off']
                else:
                    iv = s['v']
                    if iv['k'] != 'ci':
                        return v, None
                    d += s['stride'] * iv['v']
            off += d
            v = i.ops[0]
        else:
            break
    return v, off


def loads_field(fn, v, argno, off):
    """v is a load of the field at byte offset off of the object pointed to by parameter argno"""
    if v.k != 'inst':
        return False
    i = fn.insts[v.id]
    if i.op != 'load':
        return False
    r, o = trace_const(fn, i.ops[0])
    return r.k == 'arg' and r.argno == argno and o == off


# ---------------------------------------------------------------------------
# R-LOCKBAL / R-GUARDED : lock depth over every CFG path
# ---------------------------------------------------------------------------
def lock_flow(mod, f, lockers):
    """forward dataflow: set of possible lock depths before every call / ret of f.  'lockers' are functions of
    the unit that take and release the system lock themselves (depth unchanged across the call)."""
    IN = {b: set() for b in f.blocks}
    IN[f.entry] = {0}
    at = {}
    work = [f.entry]
    bound = False
    while work:
        b = work.pop()
        cur = set(IN[b])
        for i in b.insts:
            if i.op == 'dbg':
                continue
            if i.op in ('call', 'invoke', 'ret'):
                at.setdefault(i.id, set()).update(cur)
            if i.op in ('call', 'invoke'):
                c = i.callee
                if c in LOCKS:
                    cur = {d + 1 for d in cur}
                elif c in UNLOCKS:
                    cur = {d - 1 for d in cur}
                if any(d > 4 or d < -4 for d in cur):
                    bound = True
                    cur = {max(-4, min(4, d)) for d in cur}
        for s in b.succs:
            if not cur <= IN[s]:
                IN[s] |= cur
                work.append(s)
    return at, bound


def lock_rules(rep, A):
    mod = A.mod
    direct = [f for f in A.scoped if any(i.callee in LOCKS + UNLOCKS for i in f.calls())]
    lockers = set(f.name for f in direct)
    # closure: members that call a locking member
    changed = True
    while changed:
        changed = False
        for f in A.scoped:
            if f.name not in lockers and any(i.callee in lockers for i in f.calls()):
                lockers.add(f.name)
                changed = True
    targets = [f for f in A.scoped if f.name in lockers]
    for must in (A.plan, A.exec_):
        if must not in targets:
            targets.append(must)
    flows = {}
    for f in targets:
        at, unbounded = lock_flow(mod, f, lockers)
        flows[f.name] = at
        name = A.nm(f)
        where = '%s:%d' % (f.file, f.line)
        rets = f.returns()
        bad = [r for r in rets if at.get(r.id, set()) - {0}]
        rep.inst('R-LOCKBAL', name, 'every-return-at-depth-0', not bad and not unbounded and bool(rets),
                 bad[0].where() if bad else where,
                 None if not bad else 'a path reaches this return with the system lock depth in %s '
                 '(system_lock/system_unlock do not pair up on it)' % sorted(at[bad[0].id]),
                 fact={'returns': len(rets)})
        under = [i for i in f.calls() if i.callee in UNLOCKS and any(d <= 0 for d in at.get(i.id, ()))]
        rep.inst('R-LOCKBAL', name, 'no-unlock-without-lock', not under, under[0].where() if under else where,
                 None if not under else 'system_unlock() is reachable on a path on which the lock is not held')
        nested = [i for i in f.calls() if (i.callee in LOCKS or i.callee in lockers)
                  and any(d >= 1 for d in at.get(i.id, ()))]
        rep.inst('R-LOCKBAL', name, 'no-nested-lock', not nested, nested[0].where() if nested else where,
                 None if not nested else 'the (non recursive) system lock is taken again while held: %s is reached '
                 'at depth %s' % (callee_base(mod, nested[0]), sorted(at[nested[0].id])))
    # R-GUARDED: designated accesses to the pending list happen with the lock held, the callback without it
    table = [(A.plan, {'unplan': 1, 'begin': 1, 'end': 1, 'find_if': 1, 'move_prev': 1}),
             (A.exec_, {'empty': 1, 'first': 1, '<indirect>': 0})]
    for f, want in table:
        at = flows[f.name]
        for base, depth in want.items():
            cs = calls_of(mod, f, base)
            if not cs:
                continue      # nothing to guard (the floors catch a rule that matches nothing)
            bad = [c for c in cs if at.get(c.id, set()) != {depth}]
            what = 'callback' if base == '<indirect>' else base
            rep.inst('R-GUARDED', A.nm(f), '%s-at-lock-depth-%d' % (what, depth), not bad,
                     (bad or cs)[0].where(),
                     None if not bad else '%s is reached with lock depth %s, expected exactly %d (%s)'
                     % (what, sorted(at.get(bad[0].id, ())), depth,
                        'the pending list is read/modified only under the system lock' if depth else
                        'callbacks must run without the lock: they may plan/unplan timers, and the lock is not recursive'))


# ---------------------------------------------------------------------------
# R-WHOLINKS
# ---------------------------------------------------------------------------
def who_links(rep, A):
    mod = A.mod
    writers_ok = {A.set_start.name: ('_start',), A.set_interval.name: ('_interval',), A.shift.name: ('_start',),
                  A.ctor.name: ('_start', '_interval')}
    for f in A.scoped:
        name = A.nm(f)
        where = '%s:%d' % (f.file, f.line)
        link, unlink = [], []
        for i in f.calls():
            g = callee_fn(mod, i)
            if g is None or not g.scope.startswith('igris::dlist'):
                continue
            b = base_name(g)
            if b in LINKERS:
                link.append(i)
            if b in UNLINKERS:
                unlink.append(i)
        ok = not link or f is A.plan
        rep.inst('R-WHOLINKS', name, 'inserts-into-a-list:only-plan', ok, link[0].where() if link else where,
                 None if ok else '%s links a node into a list (%s); only timer_manager_basic::plan(tim) may do that, '
                 'because it is the only place that keeps the pending list sorted by deadline'
                 % (name, callee_base(mod, link[0])))
        ok = not unlink or f is A.unplan
        rep.inst('R-WHOLINKS', name, 'removes-from-a-list:only-unplan', ok, unlink[0].where() if unlink else where,
                 None if ok else '%s unlinks list nodes directly (%s) instead of going through unplan()'
                 % (name, callee_base(mod, unlink[0])))
        direct, fields = [], set()
        fstores = []
        for i in f.all_insts():
            if i.op != 'store':
                continue
            p = i.ops[1]
            if p.k == 'inst' and f.insts[p.id].op == 'getelementptr':
                for s in f.insts[p.id].d['gep']['steps']:
                    if s['k'] == 'field' and s['struct'] == 'class.igris::dlist_node':
                        direct.append(i)
            r, o = trace_const(f, p)
            if r.k == 'arg' and tyname(f.params[r.argno]['ty'].get('elem', '')) == A.th_struct and o is not None:
                if o == A.off_start:
                    fields.add('_start')
                    fstores.append((i, r))
                elif o == A.off_interval:
                    fields.add('_interval')
                    fstores.append((i, r))
                elif A.off_lnk <= o < A.off_lnk + 16:
                    direct.append(i)
        rep.inst('R-WHOLINKS', name, 'no-direct-store-to-link-fields', not direct,
                 direct[0].where() if direct else where,
                 None if not direct else 'stores into next/prev of a list node directly')
        allowed = set(writers_ok.get(f.name, ()))
        ok = fields <= allowed
        if not ok and f is not A.plan:
            # the setters written out in place (the manager is a friend of the timer): as good as calling them when every such
            # store is followed, on every path, by plan(tim) of the same timer - the timer is unplanned and sorted in again
            replans = [c for c in f.calls() if c.callee == A.plan.name and len(c.ops) >= 2]
            ok = bool(fstores) and all(
                any(trace_const(f, c.ops[1])[0].key() == r.key() and f.dominates(st_, c) and
                    f.postdominates_block(c.block, st_.block) for c in replans)
                for (st_, r) in fstores)
        rep.inst('R-WHOLINKS', name, 'deadline-fields-written-only-by-set_start/set_interval/shift', ok, where,
                 None if ok else '%s writes %s; a deadline may change only through set_start, set_interval and shift '
                 '(the re-arm rule relies on it)' % (name, sorted(fields - allowed)))
    # plan links exactly its own argument, once, through the typed list of the manager
    mv = calls_of(mod, A.plan, 'move_prev')
    ok = len(mv) == 1
    detail = None if ok else 'plan(tim) must contain exactly one list insertion, found %d' % len(mv)
    if ok:
        c = mv[0]
        r, o = trace_const(A.plan, c.ops[0])
        if not (r.k == 'arg' and r.argno == 0 and o == A.off_list):
            ok, detail = False, 'the insertion does not go into this->timer_list'
        elif not (c.ops[1].k == 'arg' and c.ops[1].argno == 1):
            ok, detail = False, 'the node inserted is not the timer passed to plan()'
    rep.inst('R-WHOLINKS', A.nm(A.plan), 'plan-inserts-its-argument-into-timer_list', ok,
             mv[0].where() if mv else '%s:%d' % (A.plan.file, A.plan.line), detail)
    un = calls_of(mod, A.unplan, 'unlink')
    ok = len(un) == 1
    detail = None if ok else 'unplan() must unlink exactly its own node'
    if ok:
        r, o = trace_const(A.unplan, un[0].ops[0])
        if not (r.k == 'arg' and r.argno == 0 and o == A.off_lnk):
            ok, detail = False, 'unplan() unlinks something else than this->lnk'
    rep.inst('R-WHOLINKS', A.nm(A.unplan), 'unplan-unlinks-own-node', ok,
             '%s:%d' % (A.unplan.file, A.unplan.line), detail)


def private_witness(rep, repo):
    src = os.path.join(WIT, 'w_c16_private.cpp')
    if not os.path.exists(src):
        raise AnalysisBroken('witness unit %s missing' % src)
    r = subprocess.run(['clang++', '-std=gnu++20', '-fsyntax-only', '-I' + repo, src], capture_output=True, text=True)
    ok = r.returncode == 0
    if not ok and 'static_assert' not in r.stderr and 'static assertion' not in r.stderr:
        raise AnalysisBroken('witness w_c16_private.cpp does not compile for another reason than its static_asserts:\n'
                             + r.stderr[-1500:])
    rep.inst('R-WHOLINKS', 'igris::timer_head_basic', 'static_assert:lnk/_start/_interval/timer_list-private,not-copyable',
             ok, 'igris/time/timer_manager.h', None if ok else r.stderr[-900:])


# ---------------------------------------------------------------------------
# R-REARM : order of events inside exec
# ---------------------------------------------------------------------------
def cond_branch(f, call):
    """(br, block taken when the call returned true, block taken when false) for the branch testing a bool call"""
    v = ('i', call.id)
    neg = False
    for _ in range(6):
        us = [u for u in f.uses.get(v, []) if u.op != 'dbg']
        brs = [u for u in us if u.op == 'br' and 'f' in u.d and u.ops[0].key() == v]
        if brs:
            br = brs[0]
            t, e = f.bmap[br.d['t']], f.bmap[br.d['f']]
            return (br, e, t) if neg else (br, t, e)
        xs = [u for u in us if u.op == 'xor' and any(o.k == 'ci' and o.ival != 0 for o in u.ops)]
        if len(xs) == 1:
            neg = not neg
            v = ('i', xs[0].id)
            continue
        break
    return None


def rearm_rule(rep, A):
    """order of events inside exec.  The calls are the subject of the rule: a missing or duplicated call makes the
    clauses that need it fail (it is not treated as a vanished anchor)."""
    mod, f = A.mod, A.exec_
    name = A.nm(f)
    where = '%s:%d' % (f.file, f.line)
    R = 'R-REARM'
    NAMES = {'<indirect>': 'the timer callback (virtual execute())'}
    got = {}
    for base in ('first', 'empty', 'check', '<indirect>', 'is_planned', 'unplan', 'shift', 'plan'):
        cs = calls_of(mod, f, base)
        got[base] = cs[0] if len(cs) == 1 else None
        got[base + '#'] = len(cs)
    first, empty, check, cb = got['first'], got['empty'], got['check'], got['<indirect>']
    planned, unplan, shift, plan = got['is_planned'], got['unplan'], got['shift'], got['plan']

    def clause(key, needs, cond, detail):
        missing = [b for b in needs if got[b] is None]
        if missing:
            b = missing[0]
            rep.inst(R, name, key, False, where, 'exec contains %d call(s) of %s, exactly one is expected: %s'
                     % (got[b + '#'], NAMES.get(b, b + '()'), detail))
            return
        ok = bool(cond())
        rep.inst(R, name, key, ok, got[needs[0]].where() if needs else where, None if ok else detail)

    def same_timer(c, idx=0):
        return c.ops[idx].k == 'inst' and c.ops[idx].id == first.id

    def vtable_of_head():
        # the callback is the virtual execute() of the head timer: function pointer loaded from its vtable
        cv = cb.callee_v
        if cv.k == 'inst' and f.insts[cv.id].op == 'load':
            r, o = trace_const(f, f.insts[cv.id].ops[0])
            if r.k == 'inst' and f.insts[r.id].op == 'load':
                r2, o2 = trace_const(f, f.insts[r.id].ops[0])
                return r2.k == 'inst' and r2.id == first.id and o2 == 0
        return False
    clause('check/execute/is_planned/unplan/shift/plan-act-on-the-head-timer',
           ['check', 'first', '<indirect>', 'is_planned', 'unplan', 'shift', 'plan'],
           lambda: all(same_timer(c) for c in (check, cb, planned, unplan, shift)) and same_timer(plan, 1)
           and vtable_of_head(),
           'the calls inside the exec loop must all operate on the timer returned by timer_list.first() of this iteration')

    def reread():
        r, o = trace_const(f, first.ops[0])
        return r.k == 'arg' and r.argno == 0 and o == A.off_list and any(first.block in L['blocks'] for L in f.loops)
    clause('head-is-reread-from-timer_list-every-iteration', ['first'], reread,
           'first() must be taken from this->timer_list inside the loop')

    def nonempty():
        eb = cond_branch(f, empty)
        return eb is not None and eb[2] is not eb[1] and f.dominates_block(eb[2], first.block) \
            and not f.dominates_block(eb[1], first.block)
    clause('first()-only-when-not-empty', ['first', 'empty'], nonempty,
           'timer_list.first() must be reachable only after a negative empty() test')
    clause('due-test-uses-the-curtime-argument', ['check'],
           lambda: check.ops[1].k == 'arg' and check.ops[1].argno == 1,
           'check() must be called with the curtime parameter of exec')

    def guarded():
        cbr = cond_branch(f, check)
        return cbr is not None and cbr[1] is not cbr[2] and f.dominates_block(cbr[1], cb.block) \
            and not f.dominates_block(cbr[2], cb.block) and f.dominates(check, cb)
    clause('callback-only-after-check-returned-true', ['<indirect>', 'check'], guarded,
           'the callback must be reachable only on the path on which check(curtime) just returned true')

    def notdue_ends():
        cbr = cond_branch(f, check)
        loop = [L for L in f.loops if check.block in L['blocks']]
        if cbr is None or not loop or any(cbr[2] in L['blocks'] for L in loop):
            return False
        reach = f.reachable_blocks(cbr[2])
        return not any(i.op in ('call', 'invoke') and not is_intrinsic(i) and i.callee not in LOCKS + UNLOCKS
                       for b in reach for i in b.insts)
    clause('head-not-due-ends-exec', ['check'], notdue_ends,
           'when the head timer is not due, exec must stop (the list is sorted: nothing else is due); '
           'the false edge of check() must leave the loop without running further code')

    def sampled():
        pbr = cond_branch(f, planned)
        return f.dominates(cb, planned) and pbr is not None and pbr[1] is not pbr[2]
    clause('is_planned-sampled-after-the-callback', ['is_planned', '<indirect>'], sampled,
           'is_planned() must be evaluated after execute() returned and decide the re-arm')

    def only_if_planned():
        pbr = cond_branch(f, planned)
        if pbr is None or pbr[1] is pbr[2]:
            return False
        # the block entered on the true edge dominates the three calls and is entered by that edge only (then every execution
        # of them follows a true outcome in the same iteration); the false edge may be a `continue`, i.e. lead back to the
        # loop header, which dominates everything - so it is not required that the false target does not dominate them
        only_true_edge = len(pbr[1].preds) == 1 and pbr[1].preds[0] is pbr[0].block
        return all(f.dominates_block(pbr[1], c.block) and (only_true_edge or not f.dominates_block(pbr[2], c.block))
                   for c in (unplan, shift, plan))
    clause('re-arm-only-if-still-planned', ['shift', 'is_planned', 'unplan', 'plan'], only_if_planned,
           'unplan/shift/plan must run only on the branch on which the callback left the timer planned '
           '(a timer unplanned by its callback must not come back)')
    # the deadline is advanced after the callback has run (a callback that re-plans its timer must not be shifted on top,
    # seed C16-exec-shift-before-callback) and before the timer is re-inserted; plan() re-inserts a timer that was taken
    # out first.  The relative order of shift() and unplan() is immaterial: no user code runs between them.
    clause('re-arm-order-callback-then-shift-and-unplan-then-plan', ['shift', 'unplan', 'plan'],
           lambda: f.dominates(cb, shift) and f.dominates(shift, plan) and f.dominates(unplan, plan),
           'the re-arm sequence must be: callback, then shift() and unplan() (in either order), then plan(): the deadline '
           'is advanced by exactly one interval after the callback ran and the timer is re-inserted with the new deadline')
    others = [i for i in f.calls() if callee_base(mod, i) in ('set_start', 'set_interval')]
    stores = [i for i in f.all_insts() if i.op == 'store']
    ok = not others and not stores
    rep.inst(R, name, 'exec-changes-deadlines-only-through-shift', ok, (others + stores)[0].where() if not ok else where,
             None if ok else 'exec writes memory / deadline fields other than by shift() (drift: the new deadline must be '
             'the previous deadline plus the interval, not derived from curtime)')


def callback_forwarding(rep, mod):
    """igris::timer<Args...>::execute() (the body behind exec's virtual call) applies the stored delegate to the
    stored argument tuple, exactly once"""
    fs = [f for f in mod.defined() if f.scope.startswith('igris::timer_basic<') and f.srcname == 'execute']
    if not fs:
        raise AnalysisBroken('igris::timer_basic<...>::execute not instantiated in the witness')
    for f in fs:
        sn = tyname(f.params[0]['ty']['elem'])
        od, oa = mod.field_off(sn, 'dlg'), mod.field_off(sn, 'args')
        if od is None or oa is None:
            raise AnalysisBroken('fields dlg/args of %s not found in debug info' % sn)
        cs = [i for i in f.calls() if not is_intrinsic(i)]
        ok = len(cs) == 1 and callee_base(mod, cs[0]) == 'apply' and len(cs[0].ops) == 2
        if ok:
            (r0, o0), (r1, o1) = trace_const(f, cs[0].ops[0]), trace_const(f, cs[0].ops[1])
            ok = r0.k == 'arg' and r0.argno == 0 and o0 == od and r1.k == 'arg' and r1.argno == 0 and o1 == oa
        ok = ok and not f.loops and not any(i.op == 'store' for i in f.all_insts())
        rep.inst('R-REARM', f.qualname, 'execute-applies-stored-delegate-to-stored-args-once', ok,
                 '%s:%d' % (f.file, f.line),
                 None if ok else 'timer_basic::execute() must be exactly std::apply(dlg, args)')


# ---------------------------------------------------------------------------
# R-DUEFORM / R-SORTKEY : IR shape of the two comparisons
# ---------------------------------------------------------------------------
ORDER_PREDS = ('slt', 'sle', 'sgt', 'sge', 'ult', 'ule', 'ugt', 'uge')


def flows_to_ret(f, inst):
    seen, work = set(), [('i', inst.id)]
    while work:
        k = work.pop()
        if k in seen:
            continue
        seen.add(k)
        for u in f.uses.get(k, []):
            if u.op == 'ret':
                return True
            if u.op in ('phi', 'zext', 'select', 'and', 'or', 'freeze'):
                work.append(('i', u.id))
    return False


def cmp_polarity(f, c):
    """True: the comparison being true makes the function return non-zero (it IS the due test); False: it makes the function
    return zero (the due test is its negation); None: not recognised.  Value uses (zext / and / select / phi into the return)
    count as positive; a branch is followed to the constants returned on its two edges."""
    def const_ret(block, frm, depth=0):
        # the constant returned when control enters `block` from `frm` and no further decision is taken
        if depth > 6:
            return None
        t = block.term
        if t.op == 'ret' and t.ops:
            v = t.ops[0]
            for _ in range(4):
                if v.k == 'ci':
                    return v.ival
                i = f.inst_of(v)
                if i is None:
                    return None
                if i.op in ('zext', 'sext', 'trunc'):
                    v = i.ops[0]
                elif i.op == 'phi' and i.block is block:
                    nv = [x for (bb, x) in i.incoming if bb == frm.name]
                    if len(nv) != 1:
                        return None
                    v = nv[0]
                else:
                    return None
            return None
        if t.op == 'br' and 'f' not in t.d:
            return const_ret(f.bmap[t.d['t']], block, depth + 1)
        return None
    v = ('i', c.id)
    neg = False
    for _ in range(6):
        us = [u for u in f.uses.get(v, []) if u.op != 'dbg']
        brs = [u for u in us if u.op == 'br' and 'f' in u.d and u.ops[0].key() == v]
        if brs:
            br = brs[0]
            rt = const_ret(f.bmap[br.d['t']], br.block)
            rf = const_ret(f.bmap[br.d['f']], br.block)
            if rt is None or rf is None or bool(rt) == bool(rf):
                return None
            return bool(rt) != neg
        xs = [u for u in us if u.op == 'xor' and any(o.k == 'ci' and o.ival != 0 for o in u.ops)]
        if len(xs) == 1 and len(us) == 1:
            neg = not neg
            v = ('i', xs[0].id)
            continue
        sels = [u for u in us if u.op == 'select' and u.ops[0].key() == v]
        if sels and len(us) == len(sels):
            pols = set()
            for u in sels:
                a, b = u.ops[1], u.ops[2]
                if a.k == 'ci' and b.k == 'ci' and bool(a.ival) != bool(b.ival):
                    pols.add(bool(a.ival))
                else:
                    return None
            return (pols.pop() != neg) if len(pols) == 1 else None
        if us and all(u.op in ('zext', 'and', 'select', 'phi', 'ret', 'freeze') for u in us):
            return not neg
        return None
    return None


def dueform_rule(rep, name, f, now_arg, off_start, off_interval, signed, mod):
    R = 'R-DUEFORM'
    where = '%s:%d' % (f.file, f.line)
    cmps = [i for i in f.all_insts() if i.op == 'icmp' and i.pred in ORDER_PREDS]
    if len(cmps) != 1:
        rep.inst(R, name, 'due-test:single-ordering-comparison', False, where,
                 'expected exactly one ordering comparison in the due test, found %d' % len(cmps))
        return
    c = cmps[0]
    rep.inst(R, name, 'due-test:single-ordering-comparison', flows_to_ret(f, c), c.where(),
             'the comparison does not determine the result')
    lhs = f.inst_of(c.ops[0])
    ok = lhs is not None and lhs.op == 'sub' and lhs.ops[0].k == 'arg' and lhs.ops[0].argno == now_arg \
        and loads_field(f, lhs.ops[1], 0, off_start)
    rep.inst(R, name, 'due-test:left-side-is-now-minus-start', ok, c.where(),
             None if ok else 'the due test must compare the elapsed time (curtime - start); any other form '
             '(e.g. curtime >= start + interval) is wrong once the time base wraps')
    ok = loads_field(f, c.ops[1], 0, off_interval)
    rep.inst(R, name, 'due-test:right-side-is-interval', ok, c.where(),
             None if ok else 'the elapsed time must be compared with the interval field')
    want = 'sge' if signed else 'uge'
    pred = c.pred
    pol = cmp_polarity(f, c)
    if pol is None:
        raise AnalysisBroken('%s: how the outcome of the elapsed-time comparison determines the result is not recognised' % name)
    if pol is False:
        # `if (elapsed < interval) return 0; return 1;`: the comparison selects the NOT-due outcome - the due test is its negation
        pred = {'slt': 'sge', 'sge': 'slt', 'sgt': 'sle', 'sle': 'sgt', 'ult': 'uge', 'uge': 'ult', 'ugt': 'ule', 'ule': 'ugt'}[pred]
    rep.inst(R, name, 'due-test:predicate-is-%s' % want, pred == want, c.where(),
             None if pred == want else 'predicate is %s: a timer is due from the instant elapsed == interval on, and the '
             'comparison must have the signedness of the time type' % pred)
    adds = [i for i in f.all_insts() if i.op == 'add'] + \
        [i for i in f.calls() if callee_base(mod, i) in ('finish', 'stimer_finish')]
    rep.inst(R, name, 'due-test:no-deadline-sum', not adds, adds[0].where() if adds else where,
             None if not adds else 'the due test computes a sum (start + interval); that sum wraps before the clock does')


def sortkey_rule(rep, A):
    R = 'R-SORTKEY'
    f = A.lam
    if f is None:
        return False
    name = A.nm(f)
    where = '%s:%d' % (f.file, f.line)
    cmps = [i for i in f.all_insts() if i.op == 'icmp']
    rets = f.returns()
    ok = len(cmps) == 1 and len(rets) == 1 and rets[0].ops and rets[0].ops[0].k == 'inst' \
        and rets[0].ops[0].id == cmps[0].id
    rep.inst(R, name, 'search-predicate:is-one-comparison', ok, where,
             None if ok else 'the insertion search predicate is not a single comparison')
    if not ok:
        return
    c = cmps[0]
    want = 'slt' if A.signed else 'ult'
    rep.inst(R, name, 'search-predicate:strict-%s' % want, c.pred == want, c.where(),
             None if c.pred == want else 'predicate %s: plan must stop at the first timer whose deadline is strictly later, so '
             'that timers with equal deadlines keep their planning order' % c.pred)
    # left: the captured key (loaded through the closure), right: finish() of the visited element
    l = c.ops[0]
    depth = 0
    root = None
    while l.k == 'inst' and f.insts[l.id].op == 'load' and depth < 3:
        depth += 1
        root, o = trace_const(f, f.insts[l.id].ops[0])
        l = root
    okl = depth in (1, 2) and root is not None and root.k == 'arg' and root.argno == 0
    r = f.inst_of(c.ops[1])
    okr = r is not None and r.op in ('call', 'invoke') and r.callee == A.finish.name and r.ops[0].k == 'arg' \
        and r.ops[0].argno == 1
    rep.inst(R, name, 'search-predicate:captured-key-vs-finish()-of-visited-timer', okl and okr, c.where(),
             None if okl and okr else 'the predicate must be  key < visited.finish()  with key captured from plan')
    # in plan: the key is finish() of the timer being planned; the search runs from begin() to end() of timer_list
    p = A.plan
    # finish() of the planned timer (other finish() calls, e.g. on the last pending timer for an append fast path, are
    # not this rule's business: where the timer ends up is decided by the R-PLAN scenarios)
    fins = [i for i in p.calls() if i.callee == A.finish.name and i.ops[0].k == 'arg' and i.ops[0].argno == 1]
    ok = len(fins) >= 1
    if ok:
        st = [u for f_ in fins for u in p.uses.get(('i', f_.id), []) if u.op == 'store']
        ok = any(p.inst_of(x.ops[1]) is not None and p.inst_of(x.ops[1]).op == 'alloca' for x in st)
    rep.inst(R, A.nm(p), 'sort-key-is-finish()-of-the-planned-timer', ok, fins[0].where() if fins else where,
             None if ok else 'plan must order by tim.finish() of its own argument')
    ok = True
    for base in ('begin', 'end'):
        cs = calls_of(A.mod, p, base)
        if len(cs) != 1:
            ok = False
            continue
        thisarg = cs[0].ops[-1]
        r_, o_ = trace_const(p, thisarg)
        ok = ok and r_.k == 'arg' and r_.argno == 0 and o_ == A.off_list
    rep.inst(R, A.nm(p), 'search-range-is-whole-timer_list', ok, where,
             None if ok else 'the insertion search must run over [timer_list.begin(), timer_list.end())')


def member_offset_shape(mod):
    """member_offset<T,M>(M T::*m) is  ptrtoint(&((T*)0)->*m) : with the Itanium ABI its value is m itself.  The
    interpreter cannot evaluate null-based address arithmetic, so the call is summarised as 'returns its argument'
    after this shape test."""
    n = 0
    for f in mod.defined():
        if not f.srcname.startswith('member_offset<'):
            continue
        real = [i for i in f.all_insts()]
        ok = len(f.blocks) == 1 and len(f.params) == 1
        ret = f.returns()[0] if f.returns() else None
        v = ret.ops[0] if ret is not None and ret.ops else None
        seen_gep = False
        while ok and v is not None and v.k == 'inst':
            i = f.insts[v.id]
            if i.op in ('ptrtoint', 'bitcast'):
                v = i.ops[0]
            elif i.op == 'getelementptr':
                steps = i.d['gep']['steps']
                ok = i.ops[0].k == 'null' and len(steps) == 1 and steps[0]['k'] == 'index' and steps[0]['stride'] == 1 \
                    and steps[0]['v']['k'] == 'arg' and steps[0]['v'].get('i') == 0
                seen_gep = True
                break
            else:
                ok = False
        if not (ok and seen_gep and len(real) <= 5):
            raise AnalysisBroken('member_offset() no longer has the shape ptrtoint(gep i8 null, member): %s' % f.name)
        n += 1
    if n == 0:
        raise AnalysisBroken('member_offset<> not instantiated in the witness')
    return n


# ---------------------------------------------------------------------------
# closed forms of the accessors (abstract interpretation with contracts)
# ---------------------------------------------------------------------------
def accessor_contracts(rep, A):
    mod = A.mod
    TH = StructSpec(A.th_struct)
    M = 1 << A.W
    same = ['_start_post == _start', '_interval_post == _interval']
    if A.signed:
        # the elapsed time is representable in the (signed) time type: curtime - start overflows otherwise, which is undefined
        # in the signed type (and out of the property's scope: timers are planned within half the range of the clock)
        half = 1 << (A.W - 1)
        check = FnSpec(pre=['arg1 - _start >= %d' % -half, 'arg1 - _start <= %d' % (half - 1)], post=[
            dict(name='elapsed>=interval', when=['arg1 - _start >= _interval'], then=['ret == 1'] + same),
            dict(name='elapsed<interval', when=['arg1 - _start < _interval'], then=['ret == 0'] + same)])
        finish = FnSpec(post=[dict(name='sum', then=['ret == _start + _interval'] + same)])
        shift = FnSpec(post=[dict(name='adds-interval', then=['_start_post == _start + _interval',
                                                             '_interval_post == _interval'])])
    else:
        check = FnSpec(post=[
            dict(name='elapsed>=interval', when=['arg1 >= _start', 'arg1 - _start >= _interval'], then=['ret == 1'] + same),
            dict(name='elapsed<interval', when=['arg1 >= _start', 'arg1 - _start < _interval'], then=['ret == 0'] + same),
            dict(name='clock-wrapped:elapsed>=interval', when=['arg1 < _start', 'arg1 + %d - _start >= _interval' % M],
                 then=['ret == 1'] + same),
            dict(name='clock-wrapped:elapsed<interval', when=['arg1 < _start', 'arg1 + %d - _start < _interval' % M],
                 then=['ret == 0'] + same)])
        finish = FnSpec(post=[
            dict(name='sum', when=['_start + _interval <= %d' % (M - 1)], then=['ret == _start + _interval'] + same),
            dict(name='sum-wraps', when=['_start + _interval >= %d' % M], then=['ret == _start + _interval - %d' % M] + same)])
        shift = FnSpec(post=[
            dict(name='adds-interval', when=['_start + _interval <= %d' % (M - 1)],
                 then=['_start_post == _start + _interval', '_interval_post == _interval']),
            dict(name='adds-interval-wraps', when=['_start + _interval >= %d' % M],
                 then=['_start_post == _start + _interval - %d' % M, '_interval_post == _interval'])])
    specs = {
        A.check.name: check, A.finish.name: finish, A.shift.name: shift,
        A.set_start.name: FnSpec(post=[dict(name='sets-start', then=['_start_post == arg1', '_interval_post == _interval'])]),
        A.set_interval.name: FnSpec(post=[dict(name='sets-interval', then=['_interval_post == arg1', '_start_post == _start'])]),
    }
    it = Interp(mod)
    run = ContractRun(it, [TH])
    for n, s in specs.items():
        run.run(n, s)
    obs = summarize(it, run)
    for o in obs:
        f = mod.fn(o['function'])
        if f is not None:
            o['function'] = A.nm(f)
    rep.add_absint('R-CLOSEDFORM', obs)
    if it.unknown_calls:
        raise AnalysisBroken('accessors call unknown externals: %s' % sorted(it.unknown_calls))


# ---------------------------------------------------------------------------
# explicit pending lists: plan / exec / unplan / ... against a reference scheduler
# ---------------------------------------------------------------------------
class World:
    """managers (list heads) and timers as abstract objects; start/interval/now symbolic"""

    def __init__(self, A, lists, loose=(), scalars=()):
        self.A = A
        st = self.st = State()
        self.env = Env()
        self.objs = {}
        self.scalars = {}
        for nm_ in scalars:
            x = st.fresh_int(A.W, A.signed, nm_)
            self.scalars[nm_] = x
            self.env.bind(nm_, x.s if A.signed else x.u)
        self.mgrs = list(lists)
        self.timers = []
        W, sg = A.W, A.signed
        for m in lists:
            self.objs[m] = st.new_obj('param', Lin(A.tm_size), 'mgr_' + m, {'desc': 'timer manager ' + m})
        for names in list(lists.values()) + [list(loose)]:
            for c in names:
                o = st.new_obj('param', Lin(A.th_size), 'tim_' + c, {'desc': 'timer ' + c})
                self.objs[c] = o
                self.timers.append(c)
                s = st.fresh_int(W, sg, c + '.start')
                iv = st.fresh_int(W, sg, c + '.interval')
                st.mem[(o.id, A.off_start, W // 8)] = s
                st.mem[(o.id, A.off_interval, W // 8)] = iv
                self.env.bind(c + '.start', s.s if sg else s.u)
                self.env.bind(c + '.interval', iv.s if sg else iv.u)
        self.now = st.fresh_int(W, sg, 'now')
        self.env.bind('now', self.now.s if sg else self.now.u)
        for m, names in lists.items():
            ring = [m] + list(names)
            n = len(ring)
            for i, t in enumerate(ring):
                st.mem[(self.objs[t].id, self.base(t), 8)] = self.addr(ring[(i + 1) % n])
                st.mem[(self.objs[t].id, self.base(t) + 8, 8)] = self.addr(ring[(i - 1) % n])
        for t in loose:
            st.mem[(self.objs[t].id, self.base(t), 8)] = self.addr(t)
            st.mem[(self.objs[t].id, self.base(t) + 8, 8)] = self.addr(t)
        self.byid = {o.id: n for n, o in self.objs.items()}

    def base(self, t):
        return self.A.off_list if t in self.mgrs else self.A.off_lnk

    def addr(self, t):
        return PtrVal(self.objs[t].id, Lin(self.base(t)))

    def ptr(self, t):
        return PtrVal(self.objs[t].id, Lin(0))

    def link(self, T, t, which):
        v = T.mem.get((self.objs[t].id, self.base(t) + which, 8))
        if not isinstance(v, PtrVal) or v.obj not in self.byid or not v.off.is_const():
            return None
        n = self.byid[v.obj]
        return n if v.off.c == self.base(n) else None

    def ring(self, T, m):
        """pending list of manager m as a sequence of timer names; None when the cells do not form a proper
        doubly linked ring"""
        out, cur = [], m
        for _ in range(len(self.objs) + 1):
            nx = self.link(T, cur, 0)
            if nx is None or self.link(T, nx, 8) != cur:
                return None
            if nx == m:
                return out
            if nx in self.mgrs or nx in out:
                return None
            out.append(nx)
            cur = nx
        return None

    def self_linked(self, T, t):
        return self.link(T, t, 0) == t and self.link(T, t, 8) == t

    def field(self, T, t, which):
        A = self.A
        off = A.off_start if which == 'start' else A.off_interval
        v = T.mem.get((self.objs[t].id, off, A.W // 8))
        if not isinstance(v, IntVal):
            return None
        return T.as_s(v) if A.signed else T.as_u(v)

    def post_env(self, T):
        e = Env()
        e.names = dict(self.env.names)
        for t in self.timers:
            e.bind(t + '.start_post', self.field(T, t, 'start'))
            e.bind(t + '.interval_post', self.field(T, t, 'interval'))
        return e


def make_hook(W_, callbacks, check_due=True, guard_links=False):
    """call hook: ghost lock depth, member_offset summary, callback model (indirect call).  Violations of the
    side conditions are collected in ghost['viol']."""
    A = W_.A
    M = 1 << A.W

    def viol(st, msg):
        st.ghost['viol'] = st.ghost.get('viol', ()) + (msg,)

    def hook(interp, st, i, callee, args):
        if callee in LOCKS:
            d = st.ghost.get('depth', 0) + 1
            st.ghost['depth'] = d
            if d > 1:
                viol(st, 'system lock taken while already held (%s)' % i.where())
            return [(st, None)]
        if callee in UNLOCKS:
            d = st.ghost.get('depth', 0) - 1
            st.ghost['depth'] = d
            if d < 0:
                viol(st, 'system_unlock without a matching lock (%s)' % i.where())
            return [(st, None)]
        if callee is not None:
            g = interp.mod.fn(callee)
            if g is not None and g.srcname.startswith('member_offset<'):
                return [(st, args[0])]
            return None
        # indirect call: the timer callback
        p = args[0] if args else None
        t = W_.byid.get(p.obj) if isinstance(p, PtrVal) else None
        if t is None or t not in W_.timers or not p.off.is_const() or p.off.c != 0:
            viol(st, 'indirect call on something that is not a timer of the scenario (%s)' % i.where())
            return [(st, None)]
        st.ghost['fired'] = st.ghost.get('fired', ()) + (t,)
        if st.ghost.get('depth', 0) != 0:
            viol(st, 'callback of %s runs with the system lock held' % t)
        if W_.link(st, t, 0) in (None, t):
            viol(st, 'callback of %s runs although the timer is not planned' % t)
        if check_due:
            now = W_.env.names['now']
            s, iv = W_.field(st, t, 'start'), W_.field(st, t, 'interval')
            ok = s is not None and iv is not None and (
                st.cons.entails_le(iv, now - s) and (A.signed or st.cons.entails_le(s, now)) or
                (not A.signed and st.cons.entails_lt(now, s) and st.cons.entails_le(iv, now + M - s)))
            if not ok:
                viol(st, 'callback of %s runs before its deadline (elapsed >= interval not implied)' % t)
        act = (callbacks or {}).get(t, 'noop')
        if act == 'noop':
            return [(st, None)]
        target = t if act == 'unplan-self' else act[1]
        outs = interp.run_function(A.unplan, st, [W_.ptr(target)])
        return [(s2, None) for (s2, _) in outs]

    def store_hook(interp, st, i, p, v):
        if not guard_links or not isinstance(p, PtrVal) or p.obj not in W_.byid or not p.off.is_const():
            return
        t = W_.byid[p.obj]
        b = W_.base(t)
        if b <= p.off.c < b + 16 and st.ghost.get('depth', 0) != 1:
            viol(st, 'link field of %s written at lock depth %d (%s)' % (t, st.ghost.get('depth', 0), i.where()))
    return hook, store_hook


class PeelInterp(Interp):
    """Interp whose bounded peeling (concrete execution of a loop whose trip count is decided by the state) accepts more
    iterations and more simultaneous paths than the engine default (MAX_PEEL = 3, 4 latch states): an exec over an
    explicit list of k timers with n due periods needs n+1 header visits and forks once per pair of re-armed deadlines.
    Same algorithm as absint.Interp.try_peel, only the two limits differ."""
    max_peel = 3
    max_latches = 4

    def try_peel(self, fn, L, st, frm, rets):
        header = L['header']
        cur = [(st.fork(), frm)]
        all_exits, all_rets = [], []
        self.recording += 1
        ok = False
        try:
            for k in range(self.max_peel + 1):
                nxt = []
                for (s, f) in cur:
                    self.eval_phis(fn, header, s, f)
                    latches, exits = self.run_region(fn, L, [(s, f)], all_rets)
                    nxt.extend(latches)
                    all_exits.extend(exits)
                if not nxt:
                    ok = True
                    break
                if len(nxt) > self.max_latches:
                    break
                cur = nxt
        except AnalysisBroken:
            ok = False
        finally:
            self.recording -= 1
        if not ok:
            return None
        cur = [(st, frm)]
        out = []
        for k in range(self.max_peel + 1):
            nxt = []
            for (s, f) in cur:
                self.eval_phis(fn, header, s, f)
                latches, exits = self.run_region(fn, L, [(s, f)], rets)
                nxt.extend(latches)
                out.extend(exits)
            if not nxt:
                break
            cur = nxt
        return out


class Scenarios:
    max_peel = 3
    max_latches = 4

    def __init__(self, rep, A):
        self.rep, self.A = rep, A
        self.n = 0

    def nowrap(self, timers, k=3, clock=True):
        """for the unsigned instantiation: neither the deadlines nor the clock wrap in this scenario"""
        if self.A.signed:
            # signed instantiation: the deadlines and the elapsed times are representable (their overflow is undefined in the
            # signed type); stated explicitly so that a due test written with wrapping arithmetic is decided as well
            half = 1 << (self.A.W - 1)
            out = []
            for t in timers:
                out += ['%s.start + %d * %s.interval <= %d' % (t, k, t, half - 1), '%s.interval >= 0' % t,
                        '%s.start >= %d' % (t, -half)]
                if clock:
                    out += ['now - %s.start <= %d' % (t, half - 1), 'now - %s.start - %d * %s.interval >= %d' % (t, k, t, -half)]
            return out
        M = (1 << self.A.W) - 1
        out = ['%s.start + %d * %s.interval <= %d' % (t, k, t, M) for t in timers]
        if clock:
            out += ['now >= %s.start' % t for t in timers]
        return out

    def run(self, rule, f, key, lists, loose=(), pre=(), args=(), fired=None, rings=None, sets=None, selfl=(),
            post=(), ret=None, callbacks=None, guard_links=False, check_due=True, sorted_after=True, scalars=(),
            counts=None):
        A, rep = self.A, self.rep
        self.n += 1
        Wd = World(A, lists, loose, scalars)
        st = Wd.st
        states = [st]
        for t in pre:
            nxt = []
            for s in states:
                nxt.extend(assume_text(s, Wd.env, t))
            states = nxt
        if len(states) != 1 or states[0].cons.unsat():
            raise AnalysisBroken('scenario %s of %s has unsatisfiable or disjunctive premises' % (key, A.nm(f)))
        st = states[0]
        it = PeelInterp(A.mod)
        it.max_peel, it.max_latches = self.max_peel, self.max_latches
        it.call_hook, it.store_hook = make_hook(Wd, callbacks, check_due, guard_links)
        argv = []
        for a in args:
            if a == 'now':
                argv.append(Wd.now)
            elif isinstance(a, tuple):       # ('int', name): scalar argument declared in 'scalars'
                argv.append(Wd.scalars[a[1]])
            else:
                argv.append(Wd.ptr(a))
        try:
            rets = it.run_function(f, st, argv)
        except AnalysisBroken as ex:
            if 'loop invariant inference did not converge' in str(ex):
                # the reference scheduler terminates within the peeling bound in every scenario; a loop that the
                # interpreter cannot unroll to its end under the scenario premises no longer does
                rep.inst(rule, A.nm(f), key, False, '%s:%d' % (f.file, f.line),
                         'scenario %s: the call does not terminate within the %d loop iterations the reference scheduler '
                         'needs (%s)' % (key, self.max_peel, ex))
                return
            raise AnalysisBroken('scenario %s of %s: %s' % (key, A.nm(f), ex))
        name = A.nm(f)
        where = '%s:%d' % (f.file, f.line)
        fullkey = '%s' % key
        problems = []
        bad = [o for o in it.obligs.values() if not o.ok]
        if bad:
            problems.append('memory safety: ' + (bad[0].detail or bad[0].kind))
        if it.unknown_calls:
            problems.append('unmodelled external call(s): %s' % sorted(it.unknown_calls))
        if not rets:
            problems.append('no feasible return')
        for (T, rv) in rets:
            for v in T.ghost.get('viol', ()):
                problems.append(v)
            if T.ghost.get('depth', 0) != 0:
                problems.append('returns with system lock depth %d' % T.ghost.get('depth', 0))
            if fired is not None and list(T.ghost.get('fired', ())) != list(fired):
                problems.append('callbacks ran in the order %s, the reference scheduler runs %s'
                                % (list(T.ghost.get('fired', ())), list(fired)))
            if counts is not None:
                # reference scheduler on this path: every timer fires once per elapsed period, and the callbacks of
                # one exec run in non-decreasing deadline order (deadline of the j-th run of t = start + j*interval)
                F = list(T.ghost.get('fired', ()))
                for t, k in counts.items():
                    if F.count(t) != k:
                        problems.append('timer %s ran %d time(s) in this exec, %d period(s) have elapsed' % (t, F.count(t), k))
                seen, prev = {}, None
                for t in F:
                    seen[t] = seen.get(t, 0) + 1
                    d = Wd.env.names[t + '.start'] + Wd.env.names[t + '.interval'] * seen[t]
                    if prev is not None and not T.cons.entails_le(prev[1], d):
                        problems.append('callback of %s (run %d) ran after %s although its deadline is not provably later '
                                        'or equal: callbacks out of deadline order %s' % (t, seen[t], prev[0], F))
                    prev = (t, d)
            e = Wd.post_env(T)
            for m in Wd.mgrs:
                got = Wd.ring(T, m)
                if got is None:
                    problems.append('pending list of manager %s is not a well formed ring after the call' % m)
                    continue
                if rings is not None and m in rings and got != list(rings[m]):
                    problems.append('pending list of %s is %s, the reference scheduler has %s' % (m, got, list(rings[m])))
                if sets is not None and m in sets and sorted(got) != sorted(sets[m]):
                    problems.append('pending set of %s is %s, expected %s' % (m, sorted(got), sorted(sets[m])))
                if sorted_after:
                    for p_, q_ in zip(got, got[1:]):
                        try:
                            okk = entails_text(T, e, '%s.start_post + %s.interval_post <= %s.start_post + %s.interval_post'
                                               % (p_, p_, q_, q_))
                        except KeyError:
                            okk = False
                        if not okk:
                            problems.append('pending list %s is not sorted by deadline after the call (%s before %s)'
                                            % (got, p_, q_))
            for t in selfl:
                if not Wd.self_linked(T, t):
                    problems.append('timer %s should be unplanned (self linked) after the call' % t)
            for t in post:
                try:
                    if not entails_text(T, e, t):
                        problems.append('"%s" not provable at return' % t)
                except KeyError as ex:
                    problems.append('"%s": %s not expressible at return' % (t, ex))
            if ret is not None:
                if isinstance(rv, CondVal):
                    d = it.decide(T, rv)
                    e.bind('ret', Lin(1 if d else 0) if d is not None else None)
                elif isinstance(rv, IntVal):
                    e.bind('ret', T.as_s(rv) if A.signed else T.as_u(rv))
                try:
                    if not entails_text(T, e, ret):
                        problems.append('result: "%s" not provable' % ret)
                except KeyError as ex:
                    problems.append('result: %s not expressible' % ex)
        rep.inst(rule, name, fullkey, not problems, where, None if not problems else
                 'scenario %s: %s' % (key, '; '.join(problems[:3])),
                 fact={'lists': {m: list(v) for m, v in lists.items()}, 'premises': list(pre), 'returns': len(rets)})


def fin(t):
    return '%s.start + %s.interval' % (t, t)


def sorted_pre(names):
    """class invariant of the manager: the pending list is sorted by deadline (plan is the only function that links a
    timer and keeps it so - R-WHOLINKS, R-PLAN); an implementation may rely on it (e.g. an append fast path that
    compares with the last element only)"""
    return ['%s <= %s' % (fin(a), fin(b)) for a, b in zip(names, names[1:])]


def plan_scenarios(rep, A, maxn):
    S = Scenarios(rep, A)
    R = 'R-PLAN'
    names = ['a', 'b', 'c', 'd', 'e'][:maxn]
    # x not planned, list of n other timers, every insertion position k
    for n in range(0, maxn + 1):
        oth = names[:n]
        for k in range(n + 1):
            pre = S.nowrap(oth + ['x'], 1, clock=False) + sorted_pre(oth)
            pre += ['%s <= %s' % (fin(c), fin('x')) for c in oth[:k]]
            if k < n:
                pre.append('%s < %s' % (fin('x'), fin(oth[k])))
            S.run(R, A.plan, 'list(%s)+x:unplanned->position-%d' % (' '.join(oth), k), {'h': oth}, ['x'], pre,
                  ['h', 'x'], rings={'h': oth[:k] + ['x'] + oth[k:]}, guard_links=True, sorted_after=False,
                  post=['x.start_post == x.start', 'x.interval_post == x.interval'])
    # x already planned in the same list at position j (re-plan)
    for n in range(0, maxn):
        oth = names[:n]
        for j in range(n + 1):
            before = oth[:j] + ['x'] + oth[j:]
            for k in range(n + 1):
                pre = S.nowrap(oth + ['x'], 1, clock=False) + sorted_pre(oth)
                pre += ['%s <= %s' % (fin(c), fin('x')) for c in oth[:k]]
                if k < n:
                    pre.append('%s < %s' % (fin('x'), fin(oth[k])))
                S.run(R, A.plan, 'list(%s):replan-x->position-%d' % (' '.join(before), k), {'h': before}, [], pre,
                      ['h', 'x'], rings={'h': oth[:k] + ['x'] + oth[k:]}, guard_links=True, sorted_after=False)
    # x planned in another manager's list: it moves
    for k in range(2):
        pre = S.nowrap(['a', 'x'], 1, clock=False)
        pre.append('%s <= %s' % (fin('a'), fin('x')) if k else '%s < %s' % (fin('x'), fin('a')))
        S.run(R, A.plan, 'list(a)+x:planned-elsewhere(p x q)->position-%d' % k, {'h': ['a'], 'g': ['p', 'x', 'q']}, [], pre,
              ['h', 'x'], rings={'h': ['x', 'a'] if k == 0 else ['a', 'x'], 'g': ['p', 'q']}, sorted_after=False)
    # plan(tim, start, interval): stores both, then plans by the new deadline
    M = (1 << A.W) - 1
    for k in range(2):
        pre = S.nowrap(['a'], 1, clock=False)
        pre2 = [] if A.signed else ['s + i <= %d' % M]
        cmpx = '%s <= s + i' % fin('a') if k else 's + i < %s' % fin('a')

        S.run(R, A.plan3, 'list(a)+x:plan(tim,start,interval)->position-%d' % k, {'h': ['a']}, ['x'],
              pre + pre2 + [cmpx], ['h', 'x', ('int', 's'), ('int', 'i')], scalars=('s', 'i'),
              rings={'h': ['x', 'a'] if k == 0 else ['a', 'x']}, sorted_after=False,
              post=['x.start_post == s', 'x.interval_post == i'])
    # plan(tim, start, interval) on a timer that is ALREADY pending (also with an unchanged interval or an unchanged deadline):
    # start and interval are stored and the timer moves to the place of its new deadline
    for k in range(2):
        before = ['x', 'a'] if k else ['a', 'x']
        pre = S.nowrap(['a', 'x'], 1, clock=False) + ['%s <= %s' % (fin(before[0]), fin(before[1]))]
        pre2 = [] if A.signed else ['s + i <= %d' % M]
        cmpx = '%s <= s + i' % fin('a') if k else 's + i < %s' % fin('a')
        S.run(R, A.plan3, 'list(%s):replan-x-with-plan(tim,start,interval)->position-%d' % (' '.join(before), k), {'h': before}, [],
              pre + pre2 + [cmpx], ['h', 'x', ('int', 's'), ('int', 'i')], scalars=('s', 'i'),
              rings={'h': ['x', 'a'] if k == 0 else ['a', 'x']}, guard_links=True, sorted_after=False,
              post=['x.start_post == s', 'x.interval_post == i'])
    return S.n




def due(t, k):
    """timer t has exactly k elapsed periods at 'now'"""
    out = ['%s.interval >= 1' % t]
    if k > 0:
        out.append('now - %s.start >= %d * %s.interval' % (t, k, t))
    out.append('now - %s.start < %d * %s.interval' % (t, k + 1, t))
    return out


def exec_scenarios(rep, A, tier):
    S = Scenarios(rep, A)
    R = 'R-EXEC'
    f = A.exec_
    H = ['h', 'now']

    def run(key, timers, pre, **kw):
        S.run(R, f, key, {'h': timers}, [], pre, H, **kw)
    run('empty-list', [], [], fired=[], rings={'h': []})
    # one timer: not due / due once / catch-up of 2 and 3 periods
    run('one-timer:not-due', ['a'], S.nowrap(['a'], 1) + due('a', 0), fired=[], rings={'h': ['a']},
        post=['a.start_post == a.start', 'a.interval_post == a.interval'])
    for k in (1, 2, 3):
        run('one-timer:%d-period(s)-elapsed' % k, ['a'], S.nowrap(['a'], k + 1) + due('a', k), fired=['a'] * k,
            rings={'h': ['a']}, post=['a.start_post == a.start + %d * a.interval' % k, 'a.interval_post == a.interval'])
    run('one-timer:exactly-at-deadline', ['a'], S.nowrap(['a'], 2) + ['a.interval >= 1', 'now - a.start == a.interval'],
        fired=['a'], rings={'h': ['a']}, post=['a.start_post == now'])
    run('one-timer:one-tick-before-deadline', ['a'], S.nowrap(['a'], 2) + ['a.interval >= 1', 'now - a.start == a.interval - 1'],
        fired=[], rings={'h': ['a']}, post=['a.start_post == a.start'])
    # callback unplans its own timer: not re-armed, deadline untouched
    run('one-timer:callback-unplans-itself', ['a'], S.nowrap(['a'], 2) + due('a', 1), fired=['a'], rings={'h': []},
        selfl=['a'], post=['a.start_post == a.start', 'a.interval_post == a.interval'], callbacks={'a': 'unplan-self'})
    run('one-timer:callback-unplans-itself-during-catch-up', ['a'], S.nowrap(['a'], 4) + due('a', 3), fired=['a'],
        rings={'h': []}, selfl=['a'], post=['a.start_post == a.start'], callbacks={'a': 'unplan-self'})
    # two timers, list sorted by deadline on entry
    two = S.nowrap(['a', 'b'], 3) + ['%s <= %s' % (fin('a'), fin('b'))]
    run('two-timers:none-due', ['a', 'b'], two + due('a', 0) + due('b', 0), fired=[], rings={'h': ['a', 'b']})
    run('two-timers:head-due,re-armed-before-the-other', ['a', 'b'],
        two + due('a', 1) + due('b', 0) + ['a.start + 2 * a.interval < %s' % fin('b')], fired=['a'], rings={'h': ['a', 'b']},
        post=['a.start_post == a.start + a.interval', 'b.start_post == b.start'])
    run('two-timers:head-due,re-armed-behind-the-other', ['a', 'b'],
        two + due('a', 1) + due('b', 0) + ['a.start + 2 * a.interval >= %s' % fin('b')], fired=['a'], rings={'h': ['b', 'a']},
        post=['a.start_post == a.start + a.interval', 'b.start_post == b.start'])
    run('two-timers:both-due-once:second-re-armed-first', ['a', 'b'],
        two + due('a', 1) + due('b', 1) + ['b.start + 2 * b.interval < a.start + 2 * a.interval'], fired=['a', 'b'],
        rings={'h': ['b', 'a']}, post=['a.start_post == a.start + a.interval', 'b.start_post == b.start + b.interval'])
    run('two-timers:both-due-once:first-re-armed-first-or-tie', ['a', 'b'],
        two + due('a', 1) + due('b', 1) + ['b.start + 2 * b.interval >= a.start + 2 * a.interval'], fired=['a', 'b'],
        rings={'h': ['a', 'b']}, post=['a.start_post == a.start + a.interval', 'b.start_post == b.start + b.interval'])
    run('two-timers:equal-deadlines-fire-in-planning-order', ['a', 'b'],
        S.nowrap(['a', 'b'], 3) + ['%s == %s' % (fin('a'), fin('b'))] + due('a', 1) + due('b', 1), fired=['a', 'b'],
        sets={'h': ['a', 'b']})
    run('two-timers:catch-up-interleaves-by-deadline', ['a', 'b'],
        two + due('a', 2) + due('b', 1) + ['a.start + 2 * a.interval < %s' % fin('b')], fired=['a', 'a', 'b'],
        sets={'h': ['a', 'b']}, post=['a.start_post == a.start + 2 * a.interval', 'b.start_post == b.start + b.interval'])
    run('two-timers:catch-up-yields-to-earlier-or-equal-deadline', ['a', 'b'],
        two + due('a', 2) + due('b', 1) + ['a.start + 2 * a.interval >= %s' % fin('b')], fired=['a', 'b', 'a'],
        sets={'h': ['a', 'b']}, post=['a.start_post == a.start + 2 * a.interval', 'b.start_post == b.start + b.interval'])
    # a timer unplanned by another timer's callback never fires although it is due
    run('two-timers:callback-unplans-the-other-due-timer', ['a', 'b'], two + due('a', 1) + due('b', 1), fired=['a'],
        rings={'h': ['a']}, selfl=['b'], post=['b.start_post == b.start', 'a.start_post == a.start + a.interval'],
        callbacks={'a': ('unplan', 'b')})
    run('two-timers:second-unplans-itself', ['a', 'b'], two + due('a', 1) + due('b', 1), fired=['a', 'b'],
        rings={'h': ['a']}, selfl=['b'], post=['b.start_post == b.start'], callbacks={'b': 'unplan-self'})
    # three timers due once each: deadline order
    three = S.nowrap(['a', 'b', 'c'], 3) + ['%s <= %s' % (fin('a'), fin('b')), '%s <= %s' % (fin('b'), fin('c'))]
    nxt = lambda t: '%s.start + 2 * %s.interval' % (t, t)
    run('three-timers:all-due-once-fire-in-deadline-order', ['a', 'b', 'c'],
        three + due('a', 1) + due('b', 1) + due('c', 1) + ['%s <= %s' % (nxt('a'), nxt('b')), '%s <= %s' % (nxt('b'), nxt('c'))],
        fired=['a', 'b', 'c'], rings={'h': ['a', 'b', 'c']},
        post=['a.start_post == a.start + a.interval', 'b.start_post == b.start + b.interval',
              'c.start_post == c.start + c.interval'])
    run('three-timers:all-due-once:re-armed-in-reverse-order', ['a', 'b', 'c'],
        three + due('a', 1) + due('b', 1) + due('c', 1) + ['%s < %s' % (nxt('b'), nxt('a')), '%s < %s' % (nxt('c'), nxt('b'))],
        fired=['a', 'b', 'c'], rings={'h': ['c', 'b', 'a']})
    run('three-timers:only-the-first-two-due', ['a', 'b', 'c'],
        three + due('a', 1) + due('b', 1) + due('c', 0) + ['%s >= %s' % (nxt('a'), fin('c')), '%s >= %s' % (nxt('b'), nxt('a'))],
        fired=['a', 'b'], rings={'h': ['c', 'a', 'b']}, post=['c.start_post == c.start'])
    # unpinned families: only the number of elapsed periods per timer is fixed; the interpreter enumerates every relative
    # order of the deadlines and each path is compared with the reference (count per timer, deadline order, re-armed
    # deadline, sorted list)
    budget = 5 if tier == 'thorough' else 3
    for ka in range(0, budget + 1):
        for kb in range(0, budget + 1 - ka):
            if ka == 0:
                continue      # the list is sorted: if the head is not due nothing is
            run('two-timers:a-elapsed-%d,b-elapsed-%d:any-order' % (ka, kb), ['a', 'b'],
                S.nowrap(['a', 'b'], max(ka, kb) + 1) + ['%s <= %s' % (fin('a'), fin('b'))] + due('a', ka) + due('b', kb),
                counts={'a': ka, 'b': kb}, sets={'h': ['a', 'b']},
                post=['a.start_post == a.start + %d * a.interval' % ka, 'b.start_post == b.start + %d * b.interval' % kb])
    triples = [(1, 1, 1), (1, 1, 0), (2, 1, 1)]
    if tier == 'thorough':
        triples += [(1, 2, 1), (1, 1, 2), (2, 2, 1), (3, 1, 1), (2, 1, 0)]
    if True:
        for (ka, kb, kc) in triples:
            run('three-timers:elapsed-%d-%d-%d:any-order' % (ka, kb, kc), ['a', 'b', 'c'],
                S.nowrap(['a', 'b', 'c'], max(ka, kb, kc) + 1) + ['%s <= %s' % (fin('a'), fin('b')), '%s <= %s' % (fin('b'), fin('c'))]
                + due('a', ka) + due('b', kb) + due('c', kc), counts={'a': ka, 'b': kb, 'c': kc}, sets={'h': ['a', 'b', 'c']},
                post=['a.start_post == a.start + %d * a.interval' % ka, 'b.start_post == b.start + %d * b.interval' % kb,
                      'c.start_post == c.start + %d * c.interval' % kc])
    if tier == 'thorough':
        for k in (4, 5):
            run('one-timer:%d-period(s)-elapsed' % k, ['a'], S.nowrap(['a'], k + 1) + due('a', k), fired=['a'] * k,
                rings={'h': ['a']}, post=['a.start_post == a.start + %d * a.interval' % k])
    if not A.signed:
        M = 1 << A.W
        # the tick counter has wrapped since the timer was started: elapsed time is computed modulo 2^W
        wrapped = ['a.interval >= 1', 'now < a.start', 'a.start + a.interval <= %d' % (M - 1)]
        run('one-timer:clock-wrapped:due', ['a'], wrapped + ['now + %d - a.start >= a.interval' % M,
                                                             'now + %d - a.start < 2 * a.interval' % M],
            fired=['a'], rings={'h': ['a']}, post=['a.start_post == a.start + a.interval'])
        run('one-timer:deadline-beyond-wrap:not-due-after-the-clock-wrapped', ['a'],
            ['a.interval >= 1', 'now < a.start', 'now + %d - a.start < a.interval' % M],
            fired=[], rings={'h': ['a']}, post=['a.start_post == a.start'])
        # a deadline beyond the wrap point (start + interval overflows) is still not due before interval ticks passed
        run('one-timer:deadline-beyond-wrap:not-due-before-the-clock-wraps', ['a'], ['a.interval >= 1', 'now >= a.start', 'now - a.start < a.interval',
                                                             'a.start + a.interval >= %d' % M],
            fired=[], rings={'h': ['a']}, post=['a.start_post == a.start'])
        run('one-timer:deadline-beyond-wrap:due-after-the-clock-wrapped', ['a'],
            ['a.interval >= 1', 'now < a.start', 'a.start + a.interval >= %d' % M, 'a.start + 2 * a.interval <= %d' % (2 * M - 1),
             'now + %d - a.start >= a.interval' % M, 'now + %d - a.start < 2 * a.interval' % M],
            fired=['a'], rings={'h': ['a']}, post=['a.start_post == a.start + a.interval - %d' % M])
    return S.n


def head_scenarios(rep, A):
    S = Scenarios(rep, A)
    R = 'R-PENDING'
    kw = dict(sorted_after=False)
    S.run(R, A.is_planned, 'planned-timer', {'h': ['a']}, [], [], ['a'], ret='ret == 1', rings={'h': ['a']}, **kw)
    S.run(R, A.is_planned, 'planned-timer-among-others', {'h': ['b', 'a', 'c']}, [], [], ['a'], ret='ret == 1',
          rings={'h': ['b', 'a', 'c']}, **kw)
    S.run(R, A.is_planned, 'unplanned-timer', {'h': ['a']}, ['x'], [], ['x'], ret='ret == 0', rings={'h': ['a']},
          selfl=['x'], **kw)
    for pos, ring in (('first', ['x', 'a', 'b']), ('middle', ['a', 'x', 'b']), ('last', ['a', 'b', 'x']), ('only', ['x'])):
        rest = [t for t in ring if t != 'x']
        S.run(R, A.unplan, 'removes-%s-of(%s)' % (pos, ' '.join(ring)), {'h': ring}, [], [], ['x'], rings={'h': rest},
              selfl=['x'], post=['x.start_post == x.start', 'x.interval_post == x.interval'], **kw)
        S.run(R, A.dtor, 'destroyed-timer-leaves-list:%s-of(%s)' % (pos, ' '.join(ring)), {'h': ring}, [], [], ['x'],
              rings={'h': rest}, **kw)
    S.run(R, A.unplan, 'unplanned-timer-stays-unplanned', {'h': ['a']}, ['x'], [], ['x'], rings={'h': ['a']}, selfl=['x'], **kw)
    S.run(R, A.empty, 'empty-list', {'h': []}, [], [], ['h'], ret='ret == 1', rings={'h': []}, **kw)
    S.run(R, A.empty, 'one-timer', {'h': ['a']}, [], [], ['h'], ret='ret == 0', rings={'h': ['a']}, **kw)
    S.run(R, A.empty, 'three-timers', {'h': ['a', 'b', 'c']}, [], [], ['h'], ret='ret == 0', rings={'h': ['a', 'b', 'c']}, **kw)
    # time to the next deadline = deadline of the list head minus now (list sorted => minimum)
    nw = S.nowrap(['a'], 1, clock=False)
    mi = 'ret == a.start + a.interval - now'
    pre_mi = nw if A.signed else nw + ['now <= a.start + a.interval']
    S.run(R, A.minimal_interval, 'one-timer', {'h': ['a']}, [], pre_mi, ['h', 'now'], ret=mi, rings={'h': ['a']}, **kw)
    S.run(R, A.minimal_interval, 'head-of-three', {'h': ['a', 'b', 'c']}, [], pre_mi, ['h', 'now'], ret=mi,
          rings={'h': ['a', 'b', 'c']}, **kw)
    # a freshly constructed timer is unplanned with zero start/interval
    S.run(R, A.ctor, 'fresh-timer-is-unplanned', {'h': ['a']}, ['x'], [], ['x'], rings={'h': ['a']}, selfl=['x'],
          post=['x.start_post == 0', 'x.interval_post == 0'], **kw)
    return S.n


# ---------------------------------------------------------------------------
# stimer (plain C)
# ---------------------------------------------------------------------------
def stimer_rules(rep, repo):
    mod = witness('w_c16_stimer.c', repo)
    rep.units.append('witness/w_c16_stimer.c -> igris/datastruct/stimer.c, stimer.h (STIMER_PERIODIC)')
    fl = {f['name']: f for f in mod.flat_fields('struct.stimer_head')}
    for need in ('start', 'interval', 'planed'):
        if need not in fl:
            raise AnalysisBroken('struct stimer_head: field %s not found' % need)
    ST = StructSpec('struct.stimer_head')
    same = ['start_post == start', 'interval_post == interval', 'planed_post == planed']
    specs = {
        'stimer_check': FnSpec(post=[
            dict(name='planned,elapsed>=interval', when=['planed != 0', 'arg1 - start >= interval'], then=['ret == 1'] + same),
            dict(name='planned,elapsed<interval', when=['planed != 0', 'arg1 - start < interval'], then=['ret == 0'] + same),
            dict(name='not-planned-never-due', when=['planed == 0'], then=['ret == 0'] + same)]),
        'stimer_init': FnSpec(post=[dict(name='stores', then=['start_post == arg1', 'interval_post == arg2', 'planed_post == 0'])]),
        'stimer_plan': FnSpec(post=[dict(name='stores-and-arms', then=['start_post == arg1', 'interval_post == arg2',
                                                                      'planed_post == 1'])]),
        'stimer_start': FnSpec(post=[dict(name='restarts', then=['start_post == arg1', 'interval_post == interval',
                                                                 'planed_post == 1'])]),
        'stimer_swift': FnSpec(post=[dict(name='adds-interval', then=['start_post == start + interval',
                                                                     'interval_post == interval', 'planed_post == planed'])]),
        'stimer_finish': FnSpec(pre=['start + interval >= 0'],
                                post=[dict(name='sum', then=['ret == start + interval'] + same)]),
        'igris_verif_stimer_periodic': FnSpec(post=[
            dict(name='due:body-runs-and-deadline-advances-by-interval', when=['planed != 0', 'arg1 - start >= interval'],
                 then=['ret == 1', 'start_post == start + interval', 'interval_post == interval', 'planed_post == planed']),
            dict(name='not-due:nothing-happens', when=['planed != 0', 'arg1 - start < interval'], then=['ret == 0'] + same),
            dict(name='not-planned:nothing-happens', when=['planed == 0'], then=['ret == 0'] + same)]),
    }
    for n in specs:
        if mod.fn(n) is None or mod.fn(n).decl:
            raise AnalysisBroken('%s not found (anchor vanished)' % n)
    it, run = run_contracts(rep, 'R-STIMER', mod, [ST], specs)
    if it.unknown_calls:
        raise AnalysisBroken('stimer functions call unknown externals: %s' % sorted(it.unknown_calls))
    dueform_rule(rep, 'stimer_check', mod.fn('stimer_check'), 1, fl['start']['off'], fl['interval']['off'], True, mod)
    # the macro advances through stimer_swift only when stimer_check said due
    f = mod.fn('igris_verif_stimer_periodic')
    chk, sw = calls_of(mod, f, 'stimer_check'), calls_of(mod, f, 'stimer_swift')
    ok = len(chk) == 1 and len(sw) == 1 and f.dominates(chk[0], sw[0]) and sw[0].block is not chk[0].block
    rep.inst('R-STIMER', 'STIMER_PERIODIC', 'swift-only-after-check', ok, '%s:%d' % (f.file, f.line),
             None if ok else 'STIMER_PERIODIC must call stimer_swift only on the branch on which stimer_check returned true')
    # sibling agreement: stimer uses the same due rule / shift rule as timer_head_basic (both verified against the
    # same closed forms above); planed is written only by init/plan/start
    for g in mod.defined():
        w = [i for i in g.all_insts() if i.op == 'store' and
             (lambda r_o: r_o[0].k == 'arg' and r_o[1] == fl['planed']['off'] and
              tyname(g.params[r_o[0].argno]['ty'].get('elem', '')) == 'struct.stimer_head')(trace_const(g, i.ops[1]))]
        ok = not w or g.name in ('stimer_init', 'stimer_plan', 'stimer_start')
        rep.inst('R-STIMER', g.name, 'planed-flag-written-only-by-init/plan/start', ok, '%s:%d' % (g.file, g.line),
                 None if ok else '%s changes the planed flag' % g.name)


# ---------------------------------------------------------------------------
def run(rep, repo, tier):
    rep.explanation = (
        'Decided for every input (all starts, intervals, now; both the library instantiation timer_spec<int64_t> and a '
        '32 bit unsigned tick counter): (1) closed forms - check(now) <=> now - start >= interval evaluated in the time '
        'type (modulo 2^32 for unsigned ticks, incl. the wrapped-clock cases), finish() == start + interval, shift() adds '
        'exactly interval, set_start/set_interval store their argument, same for stimer_check/plan/start/swift/finish and '
        'the STIMER_PERIODIC macro; the due test has the subtraction shape on the IR (no start+interval sum). '
        '(2) over every CFG path of plan/exec the system lock depth stays in {0,1} and is 0 at every return (incl. the early '
        'return inside the loop); list reads/insertions happen at depth 1, the callback and the nested plan() at depth 0. '
        '(3) only plan(tim) links a timer into a list and it links its own argument into timer_list; only unplan() unlinks; '
        '_start/_interval are written only by set_start/set_interval/shift; lnk/_start/_interval/timer_list are private '
        '(compile-time witness). (4) in exec the callback is dominated by check(curtime)==true on the head timer, a head '
        'that is not due ends exec, is_planned is sampled after the callback and unplan->shift->plan run in this order only '
        'on the still-planned branch; exec stores nothing itself. (5) the insertion search predicate is key < t.finish() '
        '(strict) with key = finish() of the planned timer over the whole list. (6) Reference-scheduler equality on explicit '
        'pending lists: plan() on lists of 0..3 other timers (timer unplanned, planned in the same or another list, every '
        'insertion position, FIFO among equal deadlines), exec() on lists of up to 3 timers with up to 3 callback runs '
        '(nothing due, exactly at / one tick before the deadline, catch-up of 2 and 3 periods, interleaving of a catching-up '
        'timer with another one, equal deadlines, callbacks that unplan themselves or another due timer, wrapped tick '
        'counter), unplan/is_planned/destructor/empty/minimal_interval - sequence of callbacks, final list order, re-armed '
        'deadlines (previous deadline + interval, never derived from now), lock depth and "callback never before its '
        'deadline" are compared with the reference. NOT decided: order and drift over unbounded histories and longer lists '
        '(argued from the per-step verdicts: sortedness is an invariant of plan, exec only consumes the head), callbacks '
        'that re-plan timers with new parameters or destroy timers, concurrent use (property C20), overflow of start+interval '
        'in the sort key (the ordering key is not wrap-safe although the due test is).')
    rep.assumptions += [
        'signed time arithmetic does not overflow (int64 milliseconds): start + interval and now - start are representable',
        'for the unsigned 32 bit instantiation the list scenarios assume that deadlines of timers that are compared with '
        'each other do not wrap (the due test itself is verified with wrap-around)',
        'intervals are >= 1 in the exec scenarios (an interval of 0 re-arms forever inside one exec)',
        'minimal_interval is called on a non-empty list',
        'callbacks are modelled as: no effect / unplan own timer / unplan another timer',
        'member_offset(&T::m) equals the Itanium data-member-pointer value (shape-checked on the IR)']
    known = {'is_planned', 'unplan', 'finish', 'check', 'set_start', 'set_interval', 'shift', 'execute', 'plan', 'exec',
             'empty', 'minimal_interval', 'timer_head_basic', '~timer_head_basic', 'timer_basic', '~timer_basic',
             'timer_manager_basic', '~timer_manager_basic', 'operator()', 'start', 'interval'}

    def keep(name, dem, internal, in_main):
        # members of timer_head_basic / timer_manager_basic that no rule knows (helpers introduced by refactoring, e.g. a
        # private rearm()) are folded into their callers; everything else stays a function
        head = dem.split('(')[0]
        if head.startswith('igris::timer_manager_basic<') or head.startswith('igris::timer_head_basic<'):
            depth, last = 0, 0
            for k, ch in enumerate(head):
                depth += {'<': 1, '>': -1}.get(ch, 0)
                if ch == ':' and depth == 0:
                    last = k + 1
            base = head[last:].split('<')[0]
            scope = head[:last]
            if scope.count('::') and '{lambda' not in head and '::plan::' not in head and base not in known:
                return False
        return True
    mod = witness('w_c16_timer.cpp', repo, inline=keep)
    rep.units.append('witness/w_c16_timer.cpp -> igris/time/timer_manager.h, igris/container/dlist.h, dlist.cpp, '
                     'igris/sync/syslock.h, igris/util/memberxx.h')
    rep.units.append('witness/w_c16_private.cpp (-fsyntax-only) -> igris/time/timer_manager.h')
    member_offset_shape(mod)
    nscen = 0
    have_pred = True
    Scenarios.max_peel, Scenarios.max_latches = 6, 48
    for (tag, targs, W, signed) in INSTANCES:
        A = Anchors(mod, tag, targs, W, signed)
        lock_rules(rep, A)
        who_links(rep, A)
        rearm_rule(rep, A)
        dueform_rule(rep, A.nm(A.check), A.check, 1, A.off_start, A.off_interval, signed, mod)
        have_pred = sortkey_rule(rep, A) is not False and have_pred
        accessor_contracts(rep, A)
        nscen += plan_scenarios(rep, A, 5 if tier == 'thorough' else 3)
        nscen += exec_scenarios(rep, A, tier)
        nscen += head_scenarios(rep, A)
    callback_forwarding(rep, mod)
    private_witness(rep, repo)
    stimer_rules(rep, repo)
    rep.extra['scenarios'] = {'explicit_list_configurations': nscen}
    # floors: non-vacuity thresholds (about two thirds of what today's sources yield)
    rep.floor('R-LOCKBAL', 12)
    rep.floor('R-GUARDED', 8)
    rep.floor('R-WHOLINKS', 60)
    rep.floor('R-REARM', 20)
    rep.floor('R-DUEFORM', 12)
    if have_pred:
        rep.floor('R-SORTKEY', 8)
    rep.floor('R-CLOSEDFORM:post', 30)
    rep.floor('R-PLAN', 50)
    rep.floor('R-EXEC', 40)
    rep.floor('R-PENDING', 30)
    rep.floor('R-STIMER:post', 25)
    rep.floor('R-STIMER', 35)
