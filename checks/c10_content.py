"""C10, CONTENT and IDENTITY clauses of the allocators (extension of checks/c10.py, called at the end of c10.run).

c10.py decides every allocator operation on *symbolic* configurations (free-ring footprints, heap layouts with symbolic
sizes) with shape/arithmetic clauses.  This module adds what that analysis leaves out - which BYTES and which BLOCKS -
by interpreting the IR on small CONCRETE configurations whose contents stay symbolic:

HEAP (compat/mem/lin_malloc.cpp + lin_realloc.cpp, one module through witness/w_c10_heap.cpp).  A private arena object,
`__malloc_heap_start` pointing 16 guard bytes into it, `__brkval == __flp == NULL`.  Every history of up to 4 operations
out of  malloc(n) | free(live block) | realloc(live block | NULL, n)  with n in {0, 1, G-1, G, G+1} (G = the granule,
*measured*: the size granted for malloc(1); thorough tier: 8 and 9 as well) is interpreted operation by operation (every
offset a constant, so every loop runs on decided bounds and is executed, never abstracted).  Histories that reach the
same heap (break, free chunks, live blocks with their requested sizes) are continued once.  On top of that, 28 prepared
heaps with one to three free chunks under a live block (four mallocs, a subset freed - longer than the history bound)
get one more operation (thorough: two).  The live blocks are GHOST INTERVALS; the client's
data is one fresh 8-bit symbol per requested payload byte (written into the block when it is handed out).  After every
operation the whole allocator state is read back from the abstract memory and compared with an interval model:

  R-HEAP-HIST:block   the block handed out lies inside the arena (heap start .. break), is aligned for the free-list
                      link the code stores in it, is at least as large as the request and as that link, is DISJOINT from
                      every live block, and consists of bytes that were free (or above the old break, which rises only
                      when no free chunk fits)
  R-HEAP-HIST:frame   every payload byte of every OTHER live block still holds its own symbol, their size headers and the
                      guard bytes below the heap start are untouched, no access leaves the arena, the call returns
  R-HEAP-HIST:state   the free list read back through __flp equals the model (address ordered, merged, trimmed): after
                      free(p) exactly the bytes of p's chunk became reusable; the break equals the model
  R-HEAP-HIST:prefix  realloc(p, n): the first min(old request, n) payload bytes of the returned block are the OLD
                      symbols (byte identity), separately for: moved, shrunk in place, extended topmost block, grown
                      into the free neighbour, unchanged size
  R-HEAP-HIST:null    realloc(NULL, n) returns NULL (heap unchanged) or a block that satisfies every :block / :frame / :state
                      clause for a request of n bytes and is used, reallocated and freed in the further history like any
                      other block; realloc(p, 0) returns a live minimum block (as this port does) or frees p and returns NULL
  R-HEAP-HIST:noleak  from every reached heap with 1..3 live blocks, freeing them in EVERY order ends with the break
                      back at the heap start and an empty free list

POOLS (witness/w_c10_pool.cpp, witness/w_c10_content_pool.cpp).  pool_head/pool_engage/pool_alloc/pool_free,
igris::pool and static_object_pool<T, N> on zones of 0..4 elements (element sizes 8, 16, 24; static_object_pool cells
of 8 bytes and the padded 16-byte cell of a 12-byte element).  The reachable configurations (order of the free list x
set of handed-out slots) are explored to the FIXPOINT, so for these zones the clauses hold after every history:

  R-POOL-HIST:slot      get()/create()/pool_alloc() returns NULL iff every slot is handed out; otherwise a slot that is
                        not handed out, inside the zone, on an element boundary
  R-POOL-HIST:frame     every byte of every other handed-out slot keeps its symbol, no access outside zone and head
  R-POOL-HIST:state     after put()/destroy()/pool_free() exactly that slot is available again (free list as a set ==
                        model), the list is closed and duplicate-free
  R-POOL-HIST:counters  room()/avail()/size()/pool_avail()/cell_is_allocated(i) equal the reference after every operation
  R-POOL-HIST:typestate static_object_pool<VTr, N>: RAW/LIVE typestate of the slots (as checks/life_core.py): create()
                        runs exactly one constructor, on the RAW slot it returns, after the slot left the free list;
                        destroy() runs exactly one destructor on the LIVE object before the slot is linked; an
                        exhausted create() constructs nothing

Nothing is executed: the IR is interpreted by checks/absint.py (sub-classed here: loops run on their concrete bounds,
byte cells survive word copies).  A configuration that cannot be analysed exactly (opaque value, forked path, call
without a summary) is *unresolved*: it removes the `:analysed` instance of its function and is reported as
analysis-broken (exit 2), never as a verdict."""
import itertools

from common import *
from absval import State, PtrVal, IntVal, CondVal, NULL, TOP, mk_const
from lin import Lin
from irlib import AnalysisBroken, V

GUARD = 16              # bytes below the heap start / around a pool zone that nothing may touch
ARENA = 4096


class Unresolved(Exception):
    """the configuration cannot be analysed exactly (engine imprecision / unrecognised form): no verdict"""


# ----------------------------------------------------------------------------------------------------------------
# interpreter: concrete control, symbolic bytes
# ----------------------------------------------------------------------------------------------------------------
def ext_nop(interp, st, i, args):
    return [(st, None)]


def ext_zero(interp, st, i, args):
    return [(st, mk_const(i.ty.get('bits', 32), 0))]


class ConcInterp(Interp):
    """Interp for configurations in which every offset is a constant.  `tracked`: object id -> (lo, hi, label): accesses
    to these objects must lie in [lo, hi) - anything else is recorded in self.events and ends the path."""

    def __init__(self, mod, externals=None):
        ex = {'system_lock': ext_nop, 'system_unlock': ext_nop, 'critical_context_level': ext_zero,
              'abort': self.ext_stop('abort()'), '__assert_fail': self.ext_stop('assertion failure'),
              'memcpy': ext_move, 'memmove': ext_move, 'memset': ext_fill}
        if externals:
            ex.update(externals)
        Interp.__init__(self, mod, externals=ex)
        self.tracked = {}
        self.events = []
        self.max_iter = 5000

    def reset(self):
        self.events = []
        self.obligs = {}

    def ext_stop(self, what):
        def ext(interp, st, i, args):
            interp.events.append('%s reached in %s (%s)' % (what, i.fn.srcname or i.fn.name, i.where()))
            st.bottom = True
            return []
        return ext

    def lookup_external(self, name):
        if name.startswith('llvm.memcpy.') or name.startswith('llvm.memmove.'):
            return ext_move
        if name.startswith('llvm.memset.'):
            return ext_fill
        return Interp.lookup_external(self, name)

    def default_external(self, st, i, callee, args):
        raise Unresolved('call of %s at %s, which has no summary in the content analysis' % (callee, i.where()))

    def exec_call(self, fn, i, st):
        if i.callee is None:
            raise Unresolved('indirect call at %s' % i.where())
        return Interp.exec_call(self, fn, i, st)

    def do_gep(self, st, base, gep, fn):
        """nullptr + 0 is nullptr (the zone of a pool without slots: std::array<T, 0>::data()); the engine maps every
        arithmetic on a null base to an unknown pointer"""
        if isinstance(base, PtrVal) and base.is_null:
            total = 0
            for s in gep['steps']:
                if s['k'] == 'field':
                    total += s['off']
                else:
                    iv = self.val(st, V(s['v']), fn)
                    c = iv.sconst() if isinstance(iv, IntVal) else None
                    if c is None:
                        total = None
                        break
                    total += c * s['stride']
            if total == 0:
                return NULL
        return Interp.do_gep(self, st, base, gep, fn)

    def icmp(self, st, inst, a, b):
        if isinstance(a, PtrVal) and isinstance(b, PtrVal) and a.is_null and b.is_null:
            return CondVal('const', inst.pred in ('eq', 'ule', 'uge', 'sle', 'sge'))
        return Interp.icmp(self, st, inst, a, b)

    def binop(self, st, op, a, b, inst):
        r = Interp.binop(self, st, op, a, b, inst)
        if op == 'add' and isinstance(a, IntVal) and isinstance(b, IntVal) and isinstance(r, IntVal):
            # (uintptr_t)p + n keeps the provenance of p, so that range tests on addresses are decided on offsets
            for x, y in ((a, b), (b, a)):
                if x.pint is not None and x.pint.obj is not None and y.pint is None and y.const() is not None:
                    return IntVal(r.w, r.u, r.s, x.pint.moved(x.pint.off + y.const()))
        return r

    # ---- loops: executed on their concrete bounds, never abstracted -------------------------------------------------
    def run_loop(self, fn, L, st, frm, rets):
        header = L['header']
        phis = [i for i in header.insts if i.op == 'phi']
        cur = [(st, frm)]
        out = []
        seen = set()
        for _ in range(self.max_iter):
            nxt = []
            for (s, f) in cur:
                self.eval_phis(fn, header, s, f)
                if len(cur) == 1:
                    # same cursor values and not a single store since: the loop never ends (cyclic list)
                    sig = (tuple(repr(s.env.get(('i', ph.id))) for ph in phis), s.ghost.get('ver', 0))
                    if sig in seen:
                        self.events.append('the loop at %s of %s never ends: it comes back to its head with the same '
                                           'cursor values and unchanged memory (cyclic list)'
                                           % (header.term.where(), fn.srcname or fn.name))
                        continue
                    seen.add(sig)
                latches, exits = self.run_region(fn, L, [(s, f)], rets)
                nxt.extend(latches)
                out.extend(exits)
            if not nxt:
                return out
            if len(nxt) > 4:
                raise Unresolved('the paths through the loop at %s fork on a value that is not decided by the configuration'
                                 % header.term.where())
            cur = nxt
        raise Unresolved('the loop at %s of %s is not finished after %d iterations on a small concrete configuration'
                         % (header.term.where(), fn.name, self.max_iter))

    # ---- memory ------------------------------------------------------------------------------------------------------
    def check_access(self, st, p, size, inst, kind):
        if isinstance(p, PtrVal) and p.obj is not None and p.obj in self.tracked:
            if isinstance(size, Lin):
                size = size.c if size.is_const() else None
            if not p.off.is_const() or size is None:
                raise Unresolved('%s of %s at a non-constant offset/size (%r, %r) at %s'
                                 % (kind, self.tracked[p.obj][2], p.off, size, inst.where()))
            lo, hi, label = self.tracked[p.obj]
            self.checked += 1
            if p.off.c < lo or p.off.c + size > hi:
                self.events.append('%s of %d byte(s) at %s%+d, outside %s [%d, %d) in %s (%s)'
                                   % (kind, size, label, p.off.c - lo, label, 0, hi - lo,
                                      inst.fn.srcname or inst.fn.name, inst.where()))
                st.bottom = True
            return
        if isinstance(p, PtrVal) and p.is_null:
            self.events.append('%s through a null pointer in %s (%s)' % (kind, inst.fn.srcname or inst.fn.name, inst.where()))
            st.bottom = True
            return
        return Interp.check_access(self, st, p, size, inst, kind)

    @staticmethod
    def vkey(v):
        if isinstance(v, IntVal):
            return ('u', v.u.key()) if v.u is not None else ('s', v.s.key() if v.s is not None else id(v))
        return ('x', id(v))

    def load(self, st, p, ty, inst):
        if isinstance(p, PtrVal) and p.obj in self.tracked and p.off.is_const() and ty.get('k') == 'int':
            size = (ty['bits'] + 7) // 8
            c = p.off.c
            if size > 1 and (p.obj, c, size) not in st.mem:
                bs = [st.mem.get((p.obj, c + j, 1)) for j in range(size)]
                if any(b is not None for b in bs) and any(b is None for b in bs) and \
                        not any(k[0] == p.obj and k[2] > 1 and k[1] < c + size and c < k[1] + k[2] for k in st.mem):
                    # a word that is partly client data, partly never written (padding behind the requested bytes): the
                    # unwritten bytes get symbols of their own
                    for j in range(size):
                        if bs[j] is None:
                            bs[j] = st.mem[(p.obj, c + j, 1)] = IntVal(8, Lin.sym(State.fresh_name('W.uninit')), None)
                if all(isinstance(b, IntVal) for b in bs) and any(b.const() is None for b in bs):
                    # a word made of byte symbols (word-wise copy loop): the value remembers its bytes
                    self.check_access(st, p, size, inst, 'load')
                    if st.bottom:
                        return TOP
                    k = ('word', size, tuple(self.vkey(b) for b in bs))
                    w = st.conv.get(k)
                    if w is None:
                        w = IntVal(ty['bits'], Lin.sym(State.fresh_name('W.word')), None)
                        st.conv[k] = w
                        st.conv[('parts', w.u.key())] = bs
                    return w
        return Interp.load(self, st, p, ty, inst)

    def store(self, st, p, v, size, inst):
        if isinstance(p, PtrVal) and p.obj is not None:
            o = st.objs.get(p.obj)
            if o is not None and o.kind == 'unknown':
                raise Unresolved('store through a pointer of unknown origin at %s' % inst.where())
        st.ghost['ver'] = st.ghost.get('ver', 0) + 1
        if isinstance(p, PtrVal) and p.obj in self.tracked and p.off.is_const() and size > 1 and \
                isinstance(v, IntVal) and v.u is not None:
            ps = st.conv.get(('parts', v.u.key()))
            if ps is not None and len(ps) == size:
                self.check_access(st, p, size, inst, 'store')
                if st.bottom:
                    return
                wipe(st, p.obj, p.off.c, size)
                for j, b in enumerate(ps):
                    st.mem[(p.obj, p.off.c + j, 1)] = b
                return
        return Interp.store(self, st, p, v, size, inst)


def wipe(st, obj, off, size):
    """forget every cell that overlaps [off, off+size)"""
    for k in [k for k in st.mem if k[0] == obj and k[1] < off + size and off < k[1] + k[2]]:
        del st.mem[k]


def ext_move(interp, st, i, args):
    """memcpy / memmove: the cells that lie completely inside the source range move along (snapshot first, so an
    overlapping move has memmove semantics); destination bytes without a source cell become indeterminate"""
    d, s, n = args[0], args[1], args[2]
    c = n.const() if isinstance(n, IntVal) else None
    if c is None or not isinstance(d, PtrVal) or not isinstance(s, PtrVal):
        raise Unresolved('block copy of a size / between places that the configuration does not decide (%s)' % i.where())
    if c == 0:
        return [(st, d)]
    interp.check_access(st, s, c, i, 'memcpy-src')
    if not st.bottom:
        interp.check_access(st, d, c, i, 'memcpy-dst')
    if st.bottom:
        return []
    if not (d.off.is_const() and s.off.is_const()):
        raise Unresolved('block copy at non-constant offsets (%s)' % i.where())
    st.ghost['ver'] = st.ghost.get('ver', 0) + 1
    snap = [(off - s.off.c, sz, v) for (o, off, sz), v in st.mem.items()
            if o == s.obj and off >= s.off.c and off + sz <= s.off.c + c]
    wipe(st, d.obj, d.off.c, c)
    for (rel, sz, v) in snap:
        st.mem[(d.obj, d.off.c + rel, sz)] = v
    return [(st, d)]


def ext_fill(interp, st, i, args):
    d, v, n = args[0], args[1], args[2]
    c = n.const() if isinstance(n, IntVal) else None
    if c is None or not isinstance(d, PtrVal) or not d.off.is_const():
        raise Unresolved('block fill of a size / at a place that the configuration does not decide (%s)' % i.where())
    if c == 0:
        return [(st, d)]
    interp.check_access(st, d, c, i, 'memset-dst')
    if st.bottom:
        return []
    st.ghost['ver'] = st.ghost.get('ver', 0) + 1
    wipe(st, d.obj, d.off.c, c)
    b = v.const() if isinstance(v, IntVal) else None
    for j in range(c):
        st.mem[(d.obj, d.off.c + j, 1)] = mk_const(8, b & 0xff) if b is not None else IntVal(8, Lin.sym(State.fresh_name('W.fill')), None)
    return [(st, d)]


def byte_sym(label):
    """one payload byte: a fresh 8-bit symbol (no constraints are needed: nothing may compare it)"""
    return IntVal(8, Lin.sym(State.fresh_name('B.' + label)), None)


def is_sym(v, s):
    return isinstance(v, IntVal) and v.u is not None and isinstance(s, IntVal) and v.u == s.u


def describe_byte(st, obj, off, base=0, what='heap'):
    """what does the abstract memory hold at this byte?  (text, opaque?)"""
    v = st.mem.get((obj, off, 1))
    if v is not None:
        if isinstance(v, IntVal) and v.const() is not None:
            return 'the constant 0x%02x' % v.const(), False
        if isinstance(v, IntVal) and v.u is not None and len(v.u.t) == 1 and v.u.c == 0:
            n = str(next(iter(v.u.t))).split('#')[0]
            if n.startswith('B.'):
                return 'the byte %s' % n[2:], False
        return 'a value the analysis does not follow (%r)' % (v,), True
    for (o, coff, csz), cv in st.mem.items():
        if o == obj and coff <= off < coff + csz:
            opaque = isinstance(cv, IntVal) and cv.const() is None or cv is TOP
            return 'byte %d of the %d-byte value %r stored at %s%+d' % (off - coff, csz, cv, what, coff - base), opaque
    return 'an indeterminate byte (overwritten by a store the memory model does not keep, or never written)', False


# ----------------------------------------------------------------------------------------------------------------
# verdict book: (rule, function, clause) -> evaluations / first failure
# ----------------------------------------------------------------------------------------------------------------
class Book:
    def __init__(self):
        self.r = {}
        self.order = []
        self.unresolved = []        # (function, text)
        self.where = {}
        self.stats = {}
        self.last_fail = None

    def add(self, rule, fn, clause, ok, detail=None):
        k = (rule, fn, clause)
        e = self.r.get(k)
        if e is None:
            e = self.r[k] = [0, 0, None]
            self.order.append(k)
        e[0] += 1
        if not ok:
            self.last_fail = detail
            e[1] += 1
            if e[2] is None:
                e[2] = detail

    def unres(self, fn, text):
        self.unresolved.append((fn, text))

    def count(self, key, n=1):
        self.stats[key] = self.stats.get(key, 0) + n

    def flush(self, rep, analysed):
        """analysed: [(rule, function)] - the `:analysed` instances, withheld for functions with unresolved cases"""
        for k in self.order:
            n, bad, detail = self.r[k]
            if bad > 1:
                detail = '%s  (%d of %d evaluations fail)' % (detail, bad, n)
            rep.inst(k[0], k[1], k[2], bad == 0, self.where.get(k[1], ''), detail, fact={'evaluations': n})
        blocked = set(f for f, _ in self.unresolved)
        for (rule, fn) in analysed:
            if fn not in blocked:
                rep.inst(rule + ':analysed', fn, 'every-configuration-analysed-exactly', True, self.where.get(fn, ''))
        if self.unresolved:
            seen = []
            for f, t in self.unresolved:
                if (f, t) not in seen:
                    seen.append((f, t))
            rep.extra['c10_content_unresolved'] = ['%s: %s' % x for x in seen[:40]]
            rep.defer_broken('c10_content: %d configuration(s) could not be analysed exactly, first: %s: %s'
                             % (len(self.unresolved), seen[0][0], seen[0][1]))


def run_call(bk, it, rule, fname, f, T0, args, text, area):
    """interpret f on a fork of T0.  Exactly one return state and no event: (T, rv).  No return state: a verdict
    (access outside the tracked objects / abort / assertion / endless loop).  Anything else is unresolved."""
    it.reset()
    try:
        rets = it.run_function(f, T0.fork(), args)
    except (Unresolved, AnalysisBroken) as e:
        bk.unres(fname, '%s: %s' % (text, e))
        return None
    bad = [ob.detail for ob in it.obligs.values() if not ob.ok]
    if len(rets) > 1 or (rets and (it.events or bad)):
        bk.unres(fname, '%s: %d return state(s)%s - a branch depends on a value the configuration does not decide'
                 % (text, len(rets), ', and ' + (it.events + bad)[0] if (it.events or bad) else ''))
        return None
    outside = [e for e in it.events if 'outside' in e or 'null pointer' in e] + bad
    bk.add(rule + ':frame', fname, 'no-access-outside-' + area.replace(' ', '-'), not outside,
           '%s: %s' % (text, (outside or [''])[0]))
    if not outside:
        bk.add(rule + ':frame', fname, 'returns', bool(rets),
               '%s: the call does not return: %s' % (text, (it.events or ['no feasible path to a return'])[0]))
    return rets[0] if rets else None


# ----------------------------------------------------------------------------------------------------------------
# HEAP
# ----------------------------------------------------------------------------------------------------------------
HR = 'R-HEAP-HIST'


class Blk:
    __slots__ = ('name', 'start', 'p', 'end', 'req', 'syms')

    def __init__(self, name, start, p, end, req, syms):
        self.name, self.start, self.p, self.end, self.req, self.syms = name, start, p, end, req, syms

    @property
    def sz(self):
        return self.end - self.p


class HState:
    """one reached heap: abstract state + interval model + the shortest history that leads to it"""
    __slots__ = ('T', 'brk', 'free', 'live', 'hist', 'nnames')

    def __init__(self, T, brk, free, live, hist, nnames):
        self.T, self.brk, self.free, self.live, self.hist, self.nnames = T, brk, free, live, hist, nnames

    def key(self):
        return (self.brk, tuple(self.free), tuple((b.start, b.end, b.req) for b in self.live))

    def text(self, op):
        return '; '.join(self.hist + [op])


def iv_add(free, iv):
    """insert an interval into a sorted list of disjoint maximal intervals, merging neighbours"""
    out = sorted(free + [iv])
    merged = []
    for (s, e) in out:
        if merged and merged[-1][1] >= s:
            merged[-1] = (merged[-1][0], max(merged[-1][1], e))
        else:
            merged.append((s, e))
    return merged


def iv_sub(free, iv):
    """remove iv (which must lie inside one interval); None when it does not"""
    out = []
    hit = False
    for (s, e) in free:
        if s <= iv[0] and iv[1] <= e:
            hit = True
            if s < iv[0]:
                out.append((s, iv[0]))
            if iv[1] < e:
                out.append((iv[1], e))
        else:
            out.append((s, e))
    return out if hit else None


def model_release(free, brk, iv):
    """reference semantics of giving bytes back: insert, merge with touching free extents, give a free extent that
    touches the break back to the break"""
    free = iv_add(list(free), iv)
    if free and free[-1][1] == brk:
        brk = free[-1][0]
        free = free[:-1]
    return free, brk


class Heap:
    def __init__(self, bk, mod, tier):
        self.bk = bk
        self.mod = mod
        self.f = {}
        for n in ('malloc', 'free', 'realloc'):
            f = mod.fn(n)
            if f is None or f.decl:
                raise AnalysisBroken('heap function %s not defined in the witness module (anchor vanished)' % n)
            self.f[n] = f
            bk.where[n] = '%s:%d' % (f.file, f.line)
        self.HDR = mod.field_off('struct.__freelist', 'nx')
        szf = [x for x in mod.flat_fields('struct.__freelist') if x['name'] == 'sz']
        nxf = [x for x in mod.flat_fields('struct.__freelist') if x['name'] == 'nx']
        if self.HDR is None or not szf or not nxf or szf[0]['off'] != 0:
            raise AnalysisBroken('struct __freelist {sz; nx} not found (anchor vanished)')
        self.LINK = nxf[0]['ty'].get('size', 8)
        for g in ('__flp', '__brkval', '__malloc_heap_start'):
            if g not in mod.globals:
                raise AnalysisBroken('heap state variable %s not found (anchor vanished)' % g)
        self.it = ConcInterp(mod)
        st = State()
        self.arena = st.new_obj('param', Lin(ARENA), 'heap', {'desc': 'heap arena'}).id
        self.it.tracked[self.arena] = (GUARD, ARENA, 'heap')
        self.h0 = GUARD
        st.mem[('global:__flp', 0, 8)] = NULL
        st.mem[('global:__brkval', 0, 8)] = NULL
        st.mem[('global:__malloc_heap_start', 0, 8)] = PtrVal(self.arena, Lin(self.h0))
        if '__allocation_counter' in mod.globals:
            st.mem[('global:__allocation_counter', 0, 4)] = mk_const(32, 0)
        self.root = HState(st, self.h0, [], [], [], 0)
        self.ops = 0

    # ---- running one operation ----------------------------------------------------------------------------------------
    def call(self, fn, S, args, text):
        """-> (T, rv) | None (verdict recorded)"""
        self.ops += 1
        return run_call(self.bk, self.it, HR, fn, self.f[fn], S.T, args, text, 'the arena')

    # ---- reading the allocator state back -----------------------------------------------------------------------------
    def heap_ptr(self, v):
        """offset of an arena address, 'null', or None"""
        if isinstance(v, PtrVal):
            if v.is_null:
                return 'null'
            if v.obj == self.arena and v.off.is_const():
                return v.off.c
        return None

    def word(self, T, off):
        v = T.mem.get((self.arena, off, 8))
        return v.const() if isinstance(v, IntVal) else None

    def read_brk(self, T):
        b = self.heap_ptr(T.mem.get(('global:__brkval', 0, 8)))
        return self.h0 if b == 'null' else b

    def read_freelist(self, T):
        """([(start, end)], error text)"""
        p = self.heap_ptr(T.mem.get(('global:__flp', 0, 8)))
        out = []
        for _ in range(64):
            if p == 'null':
                return out, None
            if p is None:
                return out, 'a free-list link is not an address inside the arena'
            if p < self.h0 or p + self.HDR + self.LINK > ARENA:
                return out, 'free-list link heap%+d lies outside the arena' % (p - self.h0)
            sz = self.word(T, p)
            if sz is None:
                return out, 'the size field of the free chunk at heap%+d is not a known number (%s)' % (
                    p - self.h0, describe_byte(T, self.arena, p, self.h0)[0])
            out.append((p, p + self.HDR + sz))
            nx = T.mem.get((self.arena, p + self.HDR, 8))
            if nx is None:
                return out, 'the link field of the free chunk at heap%+d is indeterminate (%s)' % (
                    p - self.h0, describe_byte(T, self.arena, p + self.HDR, self.h0)[0])
            p = self.heap_ptr(nx)
        return out, 'the free list does not end after 64 chunks (cycle)'

    def iv(self, x):
        return '[heap%+d, heap%+d)' % (x[0] - self.h0, x[1] - self.h0)

    def ivs(self, l):
        return '{' + ', '.join(self.iv(x) for x in l) + '}'

    # ---- the state check after every operation ------------------------------------------------------------------------
    def check_state(self, fn, text, T, brk, free, live, skip=None):
        """free list, break, headers and payload of the live blocks against the model.  -> False when a clause failed"""
        bk = self.bk
        good = True
        fl, err = self.read_freelist(T)
        if err:
            bk.add(HR + ':state', fn, 'free-list-equals-the-interval-model', False, '%s: %s' % (text, err))
            good = False
        else:
            ok = fl == free
            good &= ok
            bk.add(HR + ':state', fn, 'free-list-equals-the-interval-model', ok,
                   '%s: the free list holds the chunks %s, the model (free bytes, address-ordered, neighbours merged, top '
                   'chunk given back to the break) has %s' % (text, self.ivs(fl), self.ivs(free)))
        b = self.read_brk(T)
        ok = b == brk
        good &= ok
        bk.add(HR + ':state', fn, 'break-equals-the-model', ok,
               '%s: __brkval is %s, the model has heap%+d' % (text, 'not an arena address' if b is None else 'heap%+d' % (b - self.h0),
                                                           brk - self.h0))
        for blk in live:
            sz = self.word(T, blk.start)
            ok = sz == blk.sz
            good &= ok
            bk.add(HR + ':frame', fn, 'size-headers-of-live-blocks-untouched', ok,
                   '%s: the size header of the live block %s (%d bytes) now reads %s' % (
                       text, blk.name, blk.sz, sz if sz is not None else describe_byte(T, self.arena, blk.start, self.h0)[0]))
            if blk is skip:
                continue
            r = self.payload(T, blk, blk.p, blk.req)
            if r is not None:
                if r[1]:
                    bk.unres(fn, '%s: %s' % (text, r[0]))
                    return False
                good = False
            bk.add(HR + ':frame', fn, 'payload-of-the-other-live-blocks-untouched', r is None,
                   '%s: %s' % (text, r[0] if r else ''))
        bad = None
        for j in range(GUARD):
            if not is_sym(T.mem.get((self.arena, j, 1)), self.guard[j]):
                bad = 'the byte %d below the heap start now holds %s' % (GUARD - j, describe_byte(T, self.arena, j, self.h0)[0])
        bk.add(HR + ':frame', fn, 'nothing-written-below-the-heap-start', bad is None, '%s: %s' % (text, bad))
        return good and bad is None

    def payload(self, T, blk, at, n):
        """do the n bytes at `at` hold the first n symbols of blk?  None | (text, opaque)"""
        for j in range(n):
            if not is_sym(T.mem.get((self.arena, at + j, 1)), blk.syms[j]):
                d, opaque = describe_byte(T, self.arena, at + j, self.h0)
                return ('byte %d of the %d bytes the client stored in block %s (malloc\'ed %d bytes at heap%+d) is %s at heap%+d'
                        % (j, blk.req, blk.name, blk.req, blk.p - self.h0, d, at + j - self.h0), opaque)
        return None

    def fill(self, T, blk):
        """the client stores its data: one fresh symbol per requested byte"""
        blk.syms = [byte_sym('%s[%d]' % (blk.name, j)) for j in range(blk.req)]
        if blk.req:
            wipe(T, self.arena, blk.p, blk.req)
        for j, s in enumerate(blk.syms):
            T.mem[(self.arena, blk.p + j, 1)] = s

    def forget(self, T, blk):
        """a released block: its stale payload cells are dropped (content indeterminate for the client)"""
        for j in range(blk.req):
            T.mem.pop((self.arena, blk.p + j, 1), None)

    # ---- a block handed out ---------------------------------------------------------------------------------------------
    def new_block(self, fn, text, S, T, rv, n, name, moved=False):
        """clauses of a block returned for a request of n bytes from state S.  -> (Blk, free', brk') | None.
        moved: realloc's move path - the old block was released in the same call, so the break read back is the one
        after that release (the model applies the release afterwards and check_state compares the final break)"""
        bk = self.bk
        R = HR + ':block'
        p = self.heap_ptr(rv)
        if p is None and isinstance(rv, PtrVal) and rv.obj != self.arena:
            bk.unres(fn, '%s returns an address of %s: the heap does not live in the arena that __malloc_heap_start designates'
                     % (text, rv.obj))
            return None
        ok = isinstance(p, int)
        bk.add(R, fn, 'a-satisfiable-request-gets-a-block', ok,
               '%s returns %s although the request can be satisfied (the arena has room)' % (text, 'NULL' if p == 'null' else repr(rv)))
        if not ok:
            return None
        hdr = p - self.HDR
        sz = self.word(T, hdr) if hdr >= 0 else None
        brk2 = self.read_brk(T)
        ok = sz is not None and hdr >= self.h0 and brk2 is not None and p + sz <= brk2
        bk.add(R, fn, 'block-inside-the-arena', ok,
               '%s returns heap%+d with size header %s: the chunk is not inside [heap start, break = %s)' % (
                   text, p - self.h0, sz, 'heap%+d' % (brk2 - self.h0) if brk2 is not None else '?'))
        if not ok:
            return None
        A = self.LINK
        bk.add(R, fn, 'payload-aligned-for-the-free-list-link', (p - self.h0) % A == 0 and sz % A == 0,
               '%s returns heap%+d, size %d: not a multiple of %d (free() stores a %d-byte link there; the next chunk '
               'header would be misaligned)' % (text, p - self.h0, sz, A, A))
        ok = sz >= n and sz >= self.LINK
        bk.add(R, fn, 'granted>=requested-and>=link', ok,
               '%s returns a block of %d bytes (request %d, free-list link %d)' % (text, sz, n, self.LINK))
        chunk = (hdr, p + sz)
        hit = [b for b in S.live if b.start < chunk[1] and chunk[0] < b.end]
        bk.add(R, fn, 'block-disjoint-from-every-live-block', not hit,
               '%s returns the chunk %s, which overlaps the live block %s %s' % (
                   text, self.iv(chunk), hit[0].name if hit else '', self.iv((hit[0].start, hit[0].end)) if hit else ''))
        if hit or not ok:
            return None
        free2 = iv_sub(S.free, chunk)
        grown = False
        if free2 is None:
            grown = chunk[0] == S.brk and (chunk[1] == brk2 or moved)
            ok = grown
            free2 = list(S.free)
            if moved:
                brk2 = chunk[1]
        else:
            # what is left of the free extent must be representable as chunks (header + link)
            rest = [x for x in free2 if x not in S.free]
            ok = (brk2 == S.brk or moved) and all(e - s >= self.HDR + self.LINK for (s, e) in rest)
            if moved:
                brk2 = S.brk
        bk.add(R, fn, 'block-made-of-free-bytes-or-of-the-raised-break', ok,
               '%s returns the chunk %s; free before: %s, break before heap%+d, after heap%+d: the chunk is neither part of '
               'one free extent (leaving nothing or a whole chunk) nor exactly the bytes the break was raised by'
               % (text, self.iv(chunk), self.ivs(S.free), S.brk - self.h0, brk2 - self.h0))
        if not ok:
            return None
        if grown:
            fits = [x for x in S.free if x[1] - x[0] - self.HDR >= sz]
            bk.add(R, fn, 'break-raised-only-when-no-free-chunk-fits', not fits,
                   '%s raises the break for a block of %d bytes although the free chunk %s fits'
                   % (text, sz, self.iv(fits[0]) if fits else ''))
        return Blk(name, hdr, p, p + sz, n, None), free2, brk2

    # ---- operations ---------------------------------------------------------------------------------------------------------
    def op_malloc(self, S, n, via_realloc=False):
        name = chr(ord('a') + S.nnames)
        fn = 'realloc' if via_realloc else 'malloc'
        op = '%s = %s(%s%d)' % (name, fn, 'NULL, ' if via_realloc else '', n)
        text = S.text(op)
        r = self.call(fn, S, ([NULL] if via_realloc else []) + [mk_const(64, n)], text)
        if r is None:
            return None
        T, rv = r
        if via_realloc and self.heap_ptr(rv) == 'null':
            # the property allows realloc(NULL, n) to refuse: then nothing may have changed
            if not self.check_state(fn, text, T, S.brk, list(S.free), S.live):
                return None
            return HState(T, S.brk, list(S.free), S.live, S.hist + [op], S.nnames), rv
        nb = self.new_block(fn, text, S, T, rv, n, name)
        if nb is None:
            return None
        blk, free2, brk2 = nb
        live2 = sorted(S.live + [blk], key=lambda b: b.start)
        if not self.check_state(fn, text, T, brk2, free2, live2, skip=blk):
            return None
        self.fill(T, blk)
        return HState(T, brk2, free2, live2, S.hist + [op], S.nnames + 1), rv

    def op_free(self, S, blk):
        op = 'free(%s)' % blk.name
        text = S.text(op)
        r = self.call('free', S, [PtrVal(self.arena, Lin(blk.p))], text)
        if r is None:
            return None
        T, rv = r
        free2, brk2 = model_release(S.free, S.brk, (blk.start, blk.end))
        live2 = [b for b in S.live if b is not blk]
        if not self.check_state('free', text, T, brk2, free2, live2):
            return None
        self.forget(T, blk)
        return HState(T, brk2, free2, live2, S.hist + [op], S.nnames)

    def op_realloc(self, S, blk, n):
        bk = self.bk
        op = '%s = realloc(%s, %d)' % (blk.name, blk.name, n)
        text = S.text(op)
        r = self.call('realloc', S, [PtrVal(self.arena, Lin(blk.p)), mk_const(64, n)], text)
        if r is None:
            return None
        T, rv = r
        q = self.heap_ptr(rv)
        others = [b for b in S.live if b is not blk]
        keep = min(blk.req, n)
        if q == 'null' and n == 0:
            # ISO C allows realloc(p, 0) to free p
            free2, brk2 = model_release(S.free, S.brk, (blk.start, blk.end))
            bk.add(HR + ':null', 'realloc', 'realloc(p,0)-keeps-a-live-minimum-block-or-frees-p', True)
            if not self.check_state('realloc', text, T, brk2, free2, others):
                return None
            self.forget(T, blk)
            return HState(T, brk2, free2, others, S.hist + [op], S.nnames)
        if q == blk.p:
            sz = self.word(T, blk.start)
            ok = sz is not None and sz >= n and sz >= self.LINK and sz % self.LINK == 0
            bk.add(HR + ':block', 'realloc', 'granted>=requested-and>=link', ok,
                   '%s keeps the block in place with size header %s (request %d, free-list link %d, alignment %d)'
                   % (text, sz, n, self.LINK, self.LINK))
            if not ok:
                return None
            free2, brk2 = list(S.free), S.brk
            nend = blk.p + sz
            if sz == blk.sz:
                case = 'same-size'
                ok = True
            elif sz < blk.sz:
                case = 'shrunk-in-place'
                ok = blk.end - nend >= self.HDR + self.LINK
                if ok:
                    free2, brk2 = model_release(S.free, S.brk, (nend, blk.end))
                d = '%s shrinks the block from %d to %d bytes: the %d bytes cut off cannot hold a chunk (header + link)' % (
                    text, blk.sz, sz, blk.end - nend)
            else:
                ext = (blk.end, nend)
                f2 = iv_sub(S.free, ext)
                if f2 is not None and all(e - s >= self.HDR + self.LINK for (s, e) in f2 if (s, e) not in S.free):
                    case, ok, free2 = 'grown-into-the-free-neighbour', True, f2
                elif blk.end == S.brk and self.read_brk(T) == nend:
                    case, ok, brk2 = 'extended-topmost-block', True, nend
                else:
                    case, ok = 'grown', False
                hit = [b for b in others if b.start < nend and blk.start < b.end]
                if hit:
                    ok = False
                bk.add(HR + ':block', 'realloc', 'block-disjoint-from-every-live-block', not hit,
                       '%s grows the block in place to %s, which overlaps the live block %s %s' % (
                           text, self.iv((blk.start, nend)), hit[0].name if hit else '',
                           self.iv((hit[0].start, hit[0].end)) if hit else ''))
                d = ('%s grows the block in place by the bytes %s; free before: %s, break before heap%+d: they are neither '
                     'the start of the free chunk above the block (leaving nothing or a whole chunk) nor the bytes the '
                     'break was raised by' % (text, self.iv(ext), self.ivs(S.free), S.brk - self.h0))
            if sz != blk.sz:
                bk.add(HR + ':block', 'realloc', 'block-made-of-free-bytes-or-of-the-raised-break', ok, d)
            if not ok:
                return None
            nblk = Blk(blk.name, blk.start, blk.p, nend, n, blk.syms)
        else:
            case = 'moved'
            nb = self.new_block('realloc', text, S, T, rv, n, blk.name, moved=True)
            if nb is None:
                return None
            nblk, free2, brk2 = nb
            nblk.syms = blk.syms
            # the old block is released after the copy
            free2, brk2 = model_release(free2, brk2, (blk.start, blk.end))
        r = self.payload(T, blk, nblk.p, keep)
        if r is not None and r[1]:
            bk.unres('realloc', '%s: %s' % (text, r[0]))
            return None
        bk.add(HR + ':prefix', 'realloc', 'first-min(old,new)-bytes-are-the-old-bytes:' + case, r is None,
               '%s (%s): the first %d byte(s) must be kept, but %s' % (text, case.replace('-', ' '), keep, r[0] if r else ''))
        if n == 0:
            bk.add(HR + ':null', 'realloc', 'realloc(p,0)-keeps-a-live-minimum-block-or-frees-p', True)
        if r is not None:
            return None
        live2 = sorted(others + [nblk], key=lambda b: b.start)
        if not self.check_state('realloc', text, T, brk2, free2, live2, skip=nblk):
            return None
        if case == 'moved':
            self.forget(T, blk)
        self.fill(T, nblk)
        return HState(T, brk2, free2, live2, S.hist + [op], S.nnames)

    def alloc_via_realloc(self, S, n):
        """realloc(NULL, n): NULL, or a block for n bytes like any other (the :block / :frame / :state clauses are recorded
        under realloc by op_malloc); the heap it leaves is explored further, so the block is written to, reallocated and
        freed like a malloc'ed one (it takes part in :noleak).  That it is the SAME block malloc(n) would give is not
        demanded: a larger block is a correct answer."""
        self.bk.last_fail = None
        r = self.op_malloc(S, n, via_realloc=True)
        self.bk.add(HR + ':null', 'realloc', 'realloc(NULL,n)-returns-NULL-or-a-block-for-n-bytes', r is not None,
                    self.bk.last_fail or '%s could not be analysed' % S.text('realloc(NULL, %d)' % n))
        return r[0] if r else None

    def free_all(self, S):
        """every order of releasing the live blocks of S; the last one must leave the pristine heap"""
        for blk in S.live:
            S2 = self.op_free(S, blk)
            if S2 is None:
                continue
            if S2.live:
                self.free_all(S2)
                continue
            T = S2.T
            flp = self.heap_ptr(T.mem.get(('global:__flp', 0, 8)))
            b = self.read_brk(T)
            self.bk.add(HR + ':noleak', 'free', 'all-blocks-freed:break-back-at-the-heap-start-and-free-list-empty',
                        flp == 'null' and b == self.h0,
                        '%s: every block is released, but %s' % ('; '.join(S2.hist), 'the free list is not empty' if flp != 'null'
                                                              else '__brkval is heap%+d' % ((b or 0) - self.h0)))

    # ---- exploration --------------------------------------------------------------------------------------------------------
    def step(self, frontier, seen, sizes, leak):
        """every operation from every state of the frontier -> the new states"""
        nxt = []
        for S in frontier:
            succ = []
            for n in sizes:
                r = self.op_malloc(S, n)
                succ.append(r[0] if r else None)
                if leak:        # not from the last level of the history bound (5 more operations per heap there)
                    succ.append(self.alloc_via_realloc(S, n))
            for blk in S.live:
                succ.append(self.op_free(S, blk))
                for n in sizes:
                    succ.append(self.op_realloc(S, blk, n))
            for S2 in succ:
                if S2 is None or S2.key() in seen:
                    continue
                seen.add(S2.key())
                nxt.append(S2)
                if leak and 1 <= len(S2.live) <= 3:
                    self.free_all(S2)
                    self.bk.count('heap_free_orders')
        return nxt

    def explore(self, tier):
        bk = self.bk
        root = self.root
        self.guard = [byte_sym('guard[%d]' % j) for j in range(GUARD)]
        for j, s in enumerate(self.guard):
            root.T.mem[(self.arena, j, 1)] = s
        # the granule is measured, not assumed: what malloc(1) grants on the fresh heap
        r = self.op_malloc(root, 1)
        if r is None:
            return
        G = r[0].live[0].sz
        # thorough: two more sizes around the free-list link (the minimum chunk); the history bound stays (a fifth operation
        # multiplies the number of heaps by ~12), the prepared heaps get a second operation instead
        sizes = sorted(set([0, 1, G - 1, G, G + 1] + ([self.LINK, self.LINK + 1] if tier == 'thorough' else [])))
        depth = 4
        frontier = [root]
        seen = {root.key()}
        nstates = 1
        for d in range(depth):
            frontier = self.step(frontier, seen, sizes, leak=d < depth - 1 or tier == 'thorough')
            nstates += len(frontier)
        # prepared heaps with several free chunks (beyond the history bound): four blocks, every non-empty subset of the
        # lower three released (every step checked like any other operation), then one more operation (thorough: two)
        seeds = []
        for pat in ((1, 1, 1, 1), (0, 1, G + 1, 0), (G + 1, 1, 0, 1), (0, 0, 0, 0)):
            S = root
            for n in pat:
                r = self.op_malloc(S, n) if S is not None else None
                S = r[0] if r else None
            if S is None:
                continue
            blocks = list(S.live)
            for k in (1, 2, 3):
                for sub in itertools.combinations(range(3), k):
                    S2 = S
                    for j in sub:
                        S2 = self.op_free(S2, [b for b in S2.live if b.name == blocks[j].name][0]) if S2 is not None else None
                    if S2 is not None and S2.key() not in seen:
                        seen.add(S2.key())
                        seeds.append(S2)
        nseeds = len(seeds)
        for d in range(2 if tier == 'thorough' else 1):
            seeds = self.step(seeds, seen, sizes, leak=True)
            nstates += len(seeds)
        bk.stats.update(heap_granule=G, heap_sizes=sizes, heap_history_depth=depth, heap_states=nstates, heap_prepared_heaps=nseeds,
                        heap_operations_interpreted=self.ops)


def heap_rules(bk, repo, tier):
    mod = witness('w_c10_heap.cpp', repo)
    h = Heap(bk, mod, tier)
    h.explore(tier)
    return h


# ----------------------------------------------------------------------------------------------------------------
# POOLS
# ----------------------------------------------------------------------------------------------------------------
PR = 'R-POOL-HIST'
RAW, LIVE = 'R', 'L'


class PState:
    __slots__ = ('T', 'order', 'out', 'hist', 'hidden', 'via', 'bad')

    def __init__(self, T, order, out, hist, via=None):
        self.T, self.order, self.out, self.hist, self.via = T, order, out, hist, via
        self.hidden = ()
        self.bad = set()

    def key(self):
        return (tuple(self.order), tuple(sorted(self.out)), self.hidden)


class PoolCfg:
    """one pool flavour on one zone: N slots of E bytes.  Sub-classes provide build() and the function table."""
    typed = False           # probe element: constructor / destructor events
    value_arg = False       # create(v): the value must end up in the slot

    def __init__(self, bk, mod, N, E):
        self.bk, self.mod, self.N, self.E = bk, mod, N, E
        self.it = ConcInterp(mod, externals=self.externals())
        self.calls = 0

    def externals(self):
        return None

    def reg(self, name, f):
        self.bk.where.setdefault(name, '%s:%d' % (f.file, f.line))
        return f

    def text(self, S, op):
        return '%s: %s' % (self.label, '; '.join(S.hist + [op]))

    def call(self, fname, f, T, args, text):
        self.calls += 1
        return run_call(self.bk, self.it, PR, fname, f, T, args, text, 'the pool')

    # ---- reading the pool back ------------------------------------------------------------------------------------
    def slot_of(self, v):
        """slot index of an address, 'null', or a text describing what it is instead"""
        if isinstance(v, PtrVal):
            if v.is_null:
                return 'null'
            if v.obj == self.zone[0] and v.off.is_const():
                d = v.off.c - self.zone[1]
                if d % self.E == 0 and 0 <= d // self.E < self.N:
                    return d // self.E
                return 'the address zone%+d, which is not the start of one of the %d slots of %d bytes' % (d, self.N, self.E)
        return 'the value %r, which is not an address of the zone' % (v,)

    def read_list(self, T):
        """([slot indices in list order], error)"""
        p = T.mem.get((self.head[0], self.head[1], 8))
        out = []
        for _ in range(self.N + 2):
            if isinstance(p, PtrVal) and p.obj == self.head[0] and p.off.is_const() and p.off.c == self.head[1]:
                return out, None
            s = self.slot_of(p) if p is not None else 'indeterminate'
            if not isinstance(s, int):
                return out, 'a free-list link is %s' % ('NULL' if s == 'null' else s)
            if s in out:
                return out, 'slot %d is on the free list twice (the list is cyclic)' % s
            out.append(s)
            p = T.mem.get((self.zone[0], self.zone[1] + s * self.E, 8))
        return out, 'the free list does not come back to its head'

    def fill(self, T, s):
        """the client uses the slot it was given: one fresh symbol per byte of the cell"""
        off = self.zone[1] + s * self.E
        wipe(T, self.zone[0], off, self.E)
        syms = [byte_sym('slot%d[%d]' % (s, j)) for j in range(self.E)]
        for j, b in enumerate(syms):
            T.mem[(self.zone[0], off + j, 1)] = b
        return syms

    # ---- checks after every operation -------------------------------------------------------------------------------
    def check_state(self, fname, text, T, out, want_free):
        """free list == model (as a set), handed-out slots untouched, guards untouched.  -> list order | None"""
        bk = self.bk
        order, err = self.read_list(T)
        ok = err is None and sorted(order) == sorted(want_free)
        bk.add(PR + ':state', fname, 'free-list-holds-exactly-the-slots-that-are-not-handed-out', ok,
               '%s: %s' % (text, err or 'the free list holds the slots %s, not handed out are %s'
                           % (sorted(order), sorted(want_free))))
        if not ok:
            return None
        for s, syms in out.items():
            off = self.zone[1] + s * self.E
            bad = None
            for j in range(self.E):
                if not is_sym(T.mem.get((self.zone[0], off + j, 1)), syms[j]):
                    d, opaque = describe_byte(T, self.zone[0], off + j, self.zone[1], 'zone')
                    bad = 'byte %d of the handed-out slot %d now holds %s' % (j, s, d)
                    if opaque:
                        bk.unres(fname, '%s: %s' % (text, bad))
                        return None
                    break
            bk.add(PR + ':frame', fname, 'contents-of-the-other-handed-out-slots-untouched', bad is None, '%s: %s' % (text, bad))
            if bad:
                return None
        bad = None
        for (obj, off), g in self.guards.items():
            if not is_sym(T.mem.get((obj, off, 1)), g):
                bad = 'a byte outside the zone (offset %d of its object) now holds %s' % (off, describe_byte(T, obj, off)[0])
        bk.add(PR + ':frame', fname, 'nothing-written-outside-the-zone', bad is None, '%s: %s' % (text, bad))
        return order if bad is None else None

    def hidden(self, T):
        """bookkeeping of the pool object that is not on the free list (part of a configuration's identity)"""
        return ()

    def observe(self, S, pred):
        """counters and membership against the reference.  A mismatch is charged to the observer when it was already
        wrong in the configuration before the operation (or the pool is fresh), otherwise to the operation that led here
        (fresh pool: to the constructor as well)"""
        bk = self.bk
        text = self.text(S, '')[:-2] if S.hist else self.label + ': fresh pool'
        nfree = self.N - len(S.out)
        for (fname, f, args, want, what) in self.observers(S, nfree):
            r = self.call(fname, f, S.T, args, text + '; ' + what)
            if r is None:
                S.bad.add(fname)
                continue
            T, rv = r
            got = None
            if isinstance(rv, IntVal):
                got = rv.const()
            elif isinstance(rv, CondVal):
                d = self.it.decide(T, rv)
                got = None if d is None else int(d)
            if got is None:
                bk.unres(fname, '%s; %s: the result %r is not a number' % (text, what, rv))
                S.bad.add(fname)
                continue
            if isinstance(want, bool):
                got = bool(got)
            ok = got == want
            detail = '%s; %s returns %r, the reference (%d slots, %d handed out: %s) gives %r' % (
                text, what, got, self.N, len(S.out), sorted(S.out), want)
            if not ok:
                S.bad.add(fname)
            mine = ok or pred is None or fname in pred.bad
            bk.add(PR + ':counters', fname, self.obs_clause[fname], ok or not mine, detail)
            if S.via is not None:
                bk.add(PR + ':counters', S.via, 'counters-and-membership-equal-the-reference-after-the-operation',
                       ok or (mine and pred is not None), detail)

    # ---- operations ---------------------------------------------------------------------------------------------------
    def op_get(self, S, variant):
        bk = self.bk
        fname, f, mkargs = variant
        op = self.get_text(fname)
        text = self.text(S, op)
        T0 = S.T.fork()
        args, extra = mkargs(T0)
        T0.ghost['ev'] = ()
        r = self.call(fname, f, T0, args, text)
        if r is None:
            return None
        T, rv = r
        s = self.slot_of(rv)
        exhausted = len(S.out) == self.N
        ev = T.ghost.get('ev', ())
        if exhausted:
            bk.add(PR + ':slot', fname, 'exhausted-pool-answers-NULL', s == 'null',
                   '%s: all %d slots are handed out, but the call returns %s' % (text, self.N, 'slot %d' % s if isinstance(s, int) else s))
            if s != 'null':
                return None
            if self.typed:
                bk.add(PR + ':typestate', fname, 'exhausted-create-constructs-nothing', not ev,
                       '%s: no slot is free, yet %s' % (text, self.ev_text(ev)))
            order = self.check_state(fname, text, T, S.out, [])
            if order is None:
                return None
            return PState(T, order, S.out, S.hist + [op], fname)
        bk.add(PR + ':slot', fname, 'NULL-only-when-every-slot-is-handed-out', s != 'null',
               '%s: %d of %d slots are handed out, but the call returns NULL' % (text, len(S.out), self.N))
        if s == 'null':
            return None
        ok = isinstance(s, int)
        bk.add(PR + ':slot', fname, 'returns-a-slot-start-inside-the-zone', ok, '%s: the call returns %s' % (text, s))
        if not ok:
            return None
        ok = s not in S.out
        bk.add(PR + ':slot', fname, 'slot-handed-out-is-not-already-handed-out', ok,
               '%s: the call returns slot %d, which is still handed out (two owners of the same memory)' % (text, s))
        if not ok:
            return None
        if self.typed:
            good = len(ev) == 1 and ev[0][0] == 'construct' and ev[0][1] == s
            bk.add(PR + ':typestate', fname, 'create-constructs-exactly-once-in-the-RAW-slot-it-returns', good,
                   '%s: returns slot %d, but %s' % (text, s, self.ev_text(ev)))
            if good:
                bk.add(PR + ':typestate', fname, 'construction-after-the-slot-left-the-free-list', not ev[0][2],
                       '%s: the object is constructed in slot %d while the slot is still on the free list' % (text, s))
        want = [x for x in range(self.N) if x not in S.out and x != s]
        order = self.check_state(fname, text, T, S.out, want)
        if order is None:
            return None
        if self.value_arg and extra is not None:
            v = T.mem.get((self.zone[0], self.zone[1] + s * self.E, extra[1]))
            bk.add(PR + ':typestate', fname, 'create(v)-constructs-the-value-in-the-returned-slot', is_sym(v, extra[0]),
                   '%s: slot %d holds %r after create(v), not the value v' % (text, s, v))
        out = dict(S.out)
        out[s] = self.fill(T, s)
        return PState(T, order, out, S.hist + [op], fname)

    def op_put(self, S, s):
        bk = self.bk
        fname, f, mkargs = self.put
        op = self.put_text(fname, s)
        text = self.text(S, op)
        T0 = S.T.fork()
        T0.ghost['ev'] = ()
        r = self.call(fname, f, T0, mkargs(T0, PtrVal(self.zone[0], Lin(self.zone[1] + s * self.E))), text)
        if r is None:
            return None
        T, rv = r
        if self.typed:
            ev = T.ghost.get('ev', ())
            good = len(ev) == 1 and ev[0][0] == 'destroy' and ev[0][1] == s
            bk.add(PR + ':typestate', fname, 'destroy-destroys-exactly-once-the-LIVE-object-handed-in', good,
                   '%s: %s' % (text, self.ev_text(ev)))
            if good:
                bk.add(PR + ':typestate', fname, 'destruction-before-the-slot-is-linked-into-the-free-list', not ev[0][2],
                       '%s: the destructor runs on slot %d after the slot was linked into the free list (the link overwrites '
                       'the object)' % (text, s))
        out = {k: v for k, v in S.out.items() if k != s}
        want = [x for x in range(self.N) if x not in out]
        order = self.check_state(fname, text, T, out, want)
        if order is None:
            return None
        wipe_syms(T, self.zone[0], self.zone[1] + s * self.E, self.E)
        return PState(T, order, out, S.hist + [op], fname)

    @staticmethod
    def ev_text(ev):
        if not ev:
            return 'no constructor / destructor runs'
        return 'the element events are: ' + ', '.join('%s on %s' % (k, 'slot %d' % s if isinstance(s, int) else s)
                                                        for (k, s, _) in ev)

    # ---- exploration to the fixpoint -----------------------------------------------------------------------------------
    def explore(self):
        S0 = self.build()
        if S0 is None:
            return 0
        S0.hidden = self.hidden(S0.T)
        self.observe(S0, None)
        seen = {S0.key()}
        work = [S0] if not S0.bad else []
        n = 1
        while work:
            S = work.pop(0)
            succ = [self.op_get(S, v) for v in self.gets] + [self.op_put(S, s) for s in sorted(S.out)]
            for S2 in succ:
                if S2 is None:
                    continue
                S2.hidden = self.hidden(S2.T)
                if S2.key() in seen:
                    continue
                seen.add(S2.key())
                n += 1
                self.observe(S2, S)
                if not S2.bad:          # a configuration whose books are already wrong is not continued
                    work.append(S2)
            if n > 400:
                raise AnalysisBroken('%s: more than 400 configurations' % self.label)
        self.bk.count('pool_configurations', n)
        self.bk.count('pool_calls_interpreted', self.calls)
        return n

    def new_zone(self, st):
        """zone object with guard bytes on both sides"""
        size = self.N * self.E
        z = st.new_obj('param', Lin(size + 2 * GUARD), 'zone', {'desc': 'pool zone'})
        self.zone = (z.id, GUARD)
        self.it.tracked[z.id] = (GUARD, GUARD + size, 'zone')
        self.guards = {}
        for j in list(range(GUARD)) + list(range(GUARD + size, size + 2 * GUARD)):
            g = byte_sym('guard')
            st.mem[(z.id, j, 1)] = g
            self.guards[(z.id, j)] = g
        return z

    def initial(self, fname, T, text):
        order = self.check_state(fname, text, T, {}, list(range(self.N)))
        if order is None:
            return None
        return PState(T, order, {}, [], fname)


def wipe_syms(st, obj, off, size):
    for j in range(size):
        st.mem.pop((obj, off + j, 1), None)


def F_(mod, srcname):
    return mod.fn(fn_named(mod, srcname))


class CPool(PoolCfg):
    """struct pool_head + pool_init / pool_engage / pool_alloc / pool_free / pool_avail / pool_in_freelist"""

    def __init__(self, bk, mod, N, E):
        PoolCfg.__init__(self, bk, mod, N, E)
        self.label = 'pool_head on a zone of %d x %d bytes' % (N, E)
        self.fn = {n: self.reg(n, F_(mod, n)) for n in ('pool_init', 'pool_engage', 'pool_alloc', 'pool_free',
                                                         'pool_avail', 'pool_in_freelist')}
        self.obs_clause = {'pool_avail': 'pool_avail==slots-not-handed-out',
                           'pool_in_freelist': 'pool_in_freelist(slot)==slot-not-handed-out'}

    def get_text(self, fname):
        return 'pool_alloc()'

    def put_text(self, fname, s):
        return 'pool_free(slot %d)' % s

    def build(self):
        st = State()
        h = st.new_obj('param', Lin(8), 'head', {'desc': 'pool head'})
        self.it.tracked[h.id] = (0, 8, 'pool head')
        self.head = (h.id, 0)
        z = self.new_zone(st)
        H = PtrVal(h.id, Lin(0))
        text = '%s: pool_init(); pool_engage(zone, %d, %d)' % (self.label, self.N * self.E, self.E)
        r = self.call('pool_init', self.fn['pool_init'], st, [H], text)
        if r is None:
            return None
        r = self.call('pool_engage', self.fn['pool_engage'], r[0],
                      [H, PtrVal(z.id, Lin(GUARD)), mk_const(64, self.N * self.E), mk_const(64, self.E)], text)
        if r is None:
            return None
        self.gets = [('pool_alloc', self.fn['pool_alloc'], lambda T: ([H], None))]
        self.put = ('pool_free', self.fn['pool_free'], lambda T, p: [H, p])
        self.H = H
        return self.initial('pool_engage', r[0], text)

    def observers(self, S, nfree):
        yield ('pool_avail', self.fn['pool_avail'], [self.H], nfree, 'pool_avail()')
        for i in range(self.N):
            yield ('pool_in_freelist', self.fn['pool_in_freelist'],
                   [self.H, PtrVal(self.zone[0], Lin(self.zone[1] + i * self.E))], i not in S.out,
                   'pool_in_freelist(slot %d)' % i)


class XPool(PoolCfg):
    """igris::pool"""
    P = 'igris::pool'

    def __init__(self, bk, mod, N, E):
        PoolCfg.__init__(self, bk, mod, N, E)
        self.label = 'igris::pool on a zone of %d x %d bytes' % (N, E)
        P = self.P
        self.fn = {}
        for n in ('get', 'put', 'room', 'avail', 'size', 'element_size', 'cell_is_allocated'):
            self.fn[n] = self.reg(P + '::' + n, mod.fn(cxx(mod, P, n)))
        self.fn['ctor'] = self.reg(P + '::pool', mod.fn(cxx(mod, P, 'pool', param_count=4)))
        self.sizeof = mod.structs['class.igris::pool']['size']
        fl = {f['name']: f for f in mod.flat_fields('class.igris::pool')}
        if 'head.free_blocks.next' not in fl:
            raise AnalysisBroken('igris::pool: free-list head not found (anchor vanished)')
        self.hoff = fl['head.free_blocks.next']['off']
        self.obs_clause = {P + '::room': 'room==slots-not-handed-out', P + '::avail': 'avail==slots-not-handed-out',
                           P + '::size': 'size==slots-of-the-zone', P + '::element_size': 'element_size==element-size',
                           P + '::cell_is_allocated': 'cell_is_allocated(i)==slot-i-handed-out'}

    def get_text(self, fname):
        return 'get()'

    def put_text(self, fname, s):
        return 'put(slot %d)' % s

    def build(self):
        P = self.P
        st = State()
        h = st.new_obj('param', Lin(self.sizeof), 'pool', {'desc': 'igris::pool object'})
        self.it.tracked[h.id] = (0, self.sizeof, 'igris::pool object')
        self.head = (h.id, self.hoff)
        z = self.new_zone(st)
        H = PtrVal(h.id, Lin(0))
        self.H = H
        text = '%s: pool(zone, %d, %d)' % (self.label, self.N * self.E, self.E)
        r = self.call(P + '::pool', self.fn['ctor'], st,
                      [H, PtrVal(z.id, Lin(GUARD)), mk_const(64, self.N * self.E), mk_const(64, self.E)], text)
        if r is None:
            return None
        self.gets = [(P + '::get', self.fn['get'], lambda T: ([H], None))]
        self.put = (P + '::put', self.fn['put'], lambda T, p: [H, p])
        return self.initial(P + '::pool', r[0], text)

    def hidden(self, T):
        return tuple(sorted((off, sz, repr(v)) for (o, off, sz), v in T.mem.items() if o == self.head[0] and off != self.head[1]))

    def observers(self, S, nfree):
        P = self.P
        yield (P + '::room', self.fn['room'], [self.H], nfree, 'room()')
        yield (P + '::avail', self.fn['avail'], [self.H], nfree, 'avail()')
        yield (P + '::size', self.fn['size'], [self.H], self.N, 'size()')
        yield (P + '::element_size', self.fn['element_size'], [self.H], self.E, 'element_size()')
        for i in range(-1, self.N + 1):
            yield (P + '::cell_is_allocated', self.fn['cell_is_allocated'], [self.H, mk_const(32, i)], i in S.out,
                   'cell_is_allocated(%d)' % i)


class SPool(PoolCfg):
    """igris::static_object_pool<T, N>"""

    def __init__(self, bk, mod, N, elem, cell):
        self.elem = elem
        self.typed = elem == 'VTr'
        self.value_arg = elem == 'int'
        PoolCfg.__init__(self, bk, mod, N, cell)
        self.tag = 'static_object_pool<%s>' % elem
        self.label = 'static_object_pool<%s, %d> (cells of %d bytes)' % (elem, N, cell)
        S = 'igris::static_object_pool<%s, %d' % (elem, N)
        self.fn = {'ctor': self.reg(self.tag + '::static_object_pool', mod.fn(cxx(mod, S, 'static_object_pool'))),
                   'destroy': self.reg(self.tag + '::destroy', mod.fn(cxx(mod, S, 'destroy'))),
                   'avail': self.reg(self.tag + '::avail', mod.fn(cxx(mod, S, 'avail')))}
        self.creates = sorted([f for f in class_methods(mod, S) if base_name(f) == 'create'], key=lambda f: f.name)
        if not self.creates:
            raise AnalysisBroken('%s::create not instantiated (witness out of date)' % S)
        for f in self.creates:
            self.reg(self.tag + '::create', f)
        from irlib import tyname
        this_ty = tyname(self.fn['ctor'].params[0]['ty']['elem'])
        stl = mod.structs.get(this_ty)
        fl = {f['name']: f for f in mod.flat_fields(this_ty)}
        if stl is None or 'head.free_blocks.next' not in fl:
            raise AnalysisBroken('%s: layout not found' % S)
        self.total = stl['size']
        self.hoff = fl['head.free_blocks.next']['off']
        if N:
            if 'storage._M_elems' not in fl:
                raise AnalysisBroken('%s: storage member not found' % S)
            self.soff = fl['storage._M_elems']['off']
            if self.total - self.soff != N * cell:
                raise AnalysisBroken('%s: %d bytes of storage for %d cells of %d bytes (layout not as the witness expects)'
                                     % (S, self.total - self.soff, N, cell))
        else:
            self.soff = self.total
        self.obs_clause = {self.tag + '::avail': 'avail==slots-not-handed-out'}

    def externals(self):
        import life_core
        ex = {}
        for name, (cls, what, has_src) in life_core.EVENTS.items():
            ex[name] = self.on_event(cls, what)
        return ex

    def on_event(self, cls, what):
        def ext(interp, st, i, args):
            this = args[0]
            s = self.slot_of(this)
            order, _ = self.read_list(st)
            st.ghost['ev'] = st.ghost.get('ev', ()) + ((cls, s, isinstance(s, int) and s in order),)
            if isinstance(this, PtrVal) and not this.is_null and this.obj in interp.tracked:
                interp.check_access(st, this, 8, i, what)
                if st.bottom:
                    return []
                if cls != 'destroy':
                    wipe(st, this.obj, this.off.c, 8)
            return [(st, this if cls == 'assign' else None)]
        return ext

    def get_text(self, fname):
        return 'create()'

    def put_text(self, fname, s):
        return 'destroy(slot %d)' % s

    def build(self):
        st = State()
        o = st.new_obj('param', Lin(self.total + 2 * GUARD), 'sop', {'desc': 'static_object_pool object'})
        base = GUARD
        self.it.tracked[o.id] = (base, base + self.total, 'static_object_pool object')
        self.head = (o.id, base + self.hoff)
        self.zone = (o.id, base + self.soff)
        self.guards = {}
        for j in list(range(GUARD)) + list(range(GUARD + self.total, self.total + 2 * GUARD)):
            g = byte_sym('guard')
            st.mem[(o.id, j, 1)] = g
            self.guards[(o.id, j)] = g
        H = PtrVal(o.id, Lin(base))
        self.H = H
        text = '%s: constructor' % self.label
        r = self.call(self.tag + '::static_object_pool', self.fn['ctor'], st, [H], text)
        if r is None:
            return None
        self.gets = []
        for f in self.creates:
            def mk(T, f=f):
                a = [H]
                extra = None
                for p in f.params[1:]:
                    ao = T.new_obj('param', Lin(8), 'ctor_arg', {'desc': 'constructor argument'})
                    if self.value_arg:
                        v = IntVal(32, Lin.sym(State.fresh_name('B.v')), None)
                        T.mem[(ao.id, 0, 4)] = v
                        extra = (v, 4)
                    a.append(PtrVal(ao.id))
                return a, extra
            self.gets.append((self.tag + '::create', f, mk))
        self.put = (self.tag + '::destroy', self.fn['destroy'], lambda T, p: [H, p])
        return self.initial(self.tag + '::static_object_pool', r[0], text)

    def observers(self, S, nfree):
        yield (self.tag + '::avail', self.fn['avail'], [self.H], nfree, 'avail()')


def pool_rules(bk, repo, tier):
    m1 = witness('w_c10_pool.cpp', repo)
    m2 = witness('w_c10_content_pool.cpp', repo)
    esz = (8, 16, 24) + ((40,) if tier == 'thorough' else ())
    nmax = 5 if tier == 'thorough' else 4
    bk.stats['pool_max_slots'] = nmax
    for E in esz:
        for N in range(0, nmax + 1):
            CPool(bk, m1, N, E).explore()
            XPool(bk, m1, N, E).explore()
    for (elem, cell) in (('VTr', 8), ('igris_verif_P12', 16), ('int', 8)):
        for N in range(0, 5):
            SPool(bk, m2, N, elem, cell).explore()


# ----------------------------------------------------------------------------------------------------------------
def run_ext(rep, repo, tier, only=None):
    """called at the end of c10.run"""
    import absint
    bk = Book()
    saved = absint.MAX_STATES
    absint.MAX_STATES = 64
    heap = pools = not only
    try:
        if not only or 'heap' in only:
            heap_rules(bk, repo, tier)
            heap = True
        if not only or 'pool' in only:
            pool_rules(bk, repo, tier)
            pools = True
    finally:
        absint.MAX_STATES = saved
    analysed = []
    if heap:
        analysed += [(HR, 'malloc'), (HR, 'free'), (HR, 'realloc')]
        rep.units.append('witness/w_c10_heap.cpp (concrete histories)')
    if pools:
        analysed += [(PR, f) for f in bk.where if f not in ('malloc', 'free', 'realloc')]
        rep.units.append('witness/w_c10_pool.cpp + witness/w_c10_content_pool.cpp (pool configurations to the fixpoint)')
    bk.flush(rep, analysed)
    rep.extra['c10_content'] = bk.stats
    if not bk.unresolved and not any(not i['ok'] for i in rep.instances if i['rule'].startswith((HR, PR))):
        # a silent run must have looked at enough: fewer states than this means the exploration did not take place
        if heap and bk.stats.get('heap_states', 0) < 600:
            raise AnalysisBroken('c10_content: only %d heap states explored' % bk.stats.get('heap_states', 0))
        if pools and bk.stats.get('pool_configurations', 0) < 500:
            raise AnalysisBroken('c10_content: only %d pool configurations explored' % bk.stats.get('pool_configurations', 0))
    rep.explanation += (
        ' CONTENTS AND IDENTITY (c10_content). HEAP: malloc/free/realloc are interpreted on a private arena for every history '
        'of up to %d operations with request sizes %s (granule measured from malloc(1)), plus one more operation on prepared '
        'heaps with up to three free chunks; histories reaching the same heap are continued once (%d heaps, %d operations '
        'interpreted). Live blocks are ghost intervals, every requested payload byte is its own symbol. After every operation: '
        'the block handed out is inside the arena, aligned for the free-list link, large enough, disjoint from every live '
        'block and made of bytes that were free (or of the raised break); every byte of every other live block still holds '
        'its symbol and their size headers are intact; the free list read back equals the interval model (free(p) makes '
        'exactly p\'s chunk reusable), the break equals the model; realloc keeps the first min(old, new) bytes as the OLD '
        'symbols when it moves, shrinks in place, extends the topmost block, grows into a free neighbour or keeps the size; '
        'realloc(NULL, n) returns NULL or a block for n bytes with all these clauses, which then takes part in the further '
        'history; realloc(p, 0) keeps a minimum block or frees p; from '
        'every heap with 1..3 live blocks, freeing in every order brings the break back to the heap start with an empty '
        'free list. POOLS: pool_head primitives, igris::pool and static_object_pool<T, N> on zones of 0..%d slots (element '
        'sizes 8/16/24, static_object_pool cells 8 and padded 16): all %d reachable configurations (free-list order x '
        'handed-out set x bookkeeping) are explored to the fixpoint; get/create returns NULL iff all slots are out, else a '
        'slot start inside the zone that is not handed out; put/destroy makes exactly that slot available; the contents of '
        'the other handed-out slots (one symbol per byte) are untouched; room/avail/size/pool_avail/pool_in_freelist/'
        'cell_is_allocated equal the reference in every configuration; static_object_pool<VTr>: one constructor on the RAW '
        'slot returned (after it left the list), one destructor on the LIVE object (before it is linked), none on an '
        'exhausted create. Not decided here: histories longer than the bound for the heap, request sizes outside the set, '
        'double free / foreign pointers, pools with more than %d slots.'
        % (bk.stats.get('heap_history_depth', 0), bk.stats.get('heap_sizes'), bk.stats.get('heap_states', 0),
           bk.stats.get('heap_operations_interpreted', 0), bk.stats.get('pool_max_slots', 4),
           bk.stats.get('pool_configurations', 0), bk.stats.get('pool_max_slots', 4)))
    rep.assumptions += ['content clauses (heap): the arena starts at __malloc_heap_start, aligned to sizeof(size_t); client data '
                        'occupies exactly the requested bytes; request sizes 0, 1, G-1, G, G+1 (G = granule); histories of at '
                        'most 4 operations plus prepared heaps (thorough tier: sizes 8 and 9 as well, two operations on the prepared heaps)',
                        'content clauses (pools): zones of 0..4 slots (5 in the thorough tier), element sizes 8/16/24; pointers '
                        'given to put/destroy/pool_free are slots that are handed out']
    if heap:
        for r, n in ((':block', 12), (':frame', 12), (':state', 6), (':prefix', 4), (':null', 2), (':noleak', 1), (':analysed', 3)):
            rep.floor(HR + r, n)
    if pools:
        for r, n in ((':slot', 16), (':frame', 60), (':state', 12), (':counters', 20), (':typestate', 6), (':analysed', 20)):
            rep.floor(PR + r, n)
    return bk
