"""C19 helpers: contract runner with pointer-valued results, parameter set-ups, summaries of the libc
string primitives (memchr, memcmp, strchr, strcmp) and of igris_memmem."""
from lin import Lin, _L
from absval import IntVal, PtrVal, CondVal, NULL, TOP, mk_const
from contracts import ContractRun, FnSpec, StructSpec
from irlib import AnalysisBroken

BIG = 1 << 40


class Run19(ContractRun):
    """ContractRun whose postconditions can talk about a pointer result:
       ret_null (1/0), ret_off (byte offset), ret_in_argN (1 when the result points into the object
       handed in as parameter N, else 0)"""

    def __init__(self, interp, struct_specs):
        ContractRun.__init__(self, interp, struct_specs)
        self.argobj = {}       # parameter index -> object id (filled by the set-up callbacks)
        self.bufobj = None     # buffer a struct under analysis points into (set-up callback)

    @staticmethod
    def byte_at(T, obj, off):
        o = T.objs.get(obj)
        n = o.info.get('cstr_len') if o is not None else None
        if n is not None and T.cons.entails_eq(off, n):
            return Lin(0)
        v = T.conv.get(('cstrbyte', obj, off.key()))
        if v is None:
            for k, w in T.conv.items():
                if isinstance(k, tuple) and len(k) == 3 and k[0] == 'cstrbyte' and k[1] == obj and isinstance(w, IntVal):
                    u = T.as_u(w)
                    # the same position written differently
                    if u is not None and getattr(w, 'pos', None) is not None and T.cons.entails_eq(off, w.pos):
                        v = w
                        break
        if isinstance(v, IntVal) and T.as_u(v) is not None:
            return T.as_u(v)
        return T.fresh_int(8, False, 'unread').u

    def check_return(self, fn, spec, env, struct_params, T, rv, posts=None):
        saved = env.names
        env.names = dict(saved)
        try:
            if isinstance(rv, PtrVal):
                if rv.is_null:
                    env.bind('ret_null', Lin(1))
                else:
                    if rv.nonnull:
                        env.bind('ret_null', Lin(0))
                    else:
                        env.bind('ret_null', T.fresh_int(1, False, 'maybe_null').u)
                    env.bind('ret_off', rv.off)
                    for n, oid in self.argobj.items():
                        env.bind('ret_in_arg%d' % n, Lin(1 if oid == rv.obj else 0))
                    # ret_ch / ret_ch1: the characters at the result and behind it, as far as this path has read them (a
                    # string that is only read keeps one symbol per position) - unknown otherwise
                    for nm_, d_ in (('ret_ch', 0), ('ret_ch1', 1)):
                        env.bind(nm_, self.byte_at(T, rv.obj, rv.off + d_))
            for (pname, so, sspec, fs, sname) in struct_params:
                if sspec is None:
                    continue
                for m in self.mod.flat_fields(sname):
                    if m['ty']['k'] != 'ptr':
                        continue
                    v = T.mem.get((so.id, m['off'], m['ty']['size']))
                    if isinstance(v, PtrVal) and not v.is_null:
                        env.bind('%s_post_off' % m['name'], v.off)
                        env.bind('%s_post_in_buf' % m['name'], Lin(1 if v.obj == self.bufobj else 0))
            for n, oid in self.argobj.items():
                o = T.objs.get(oid)
                if o is not None and o.info.get('cstr_len') is not None:
                    env.bind('still_cstr_arg%d' % n, Lin(1))
                else:
                    env.bind('still_cstr_arg%d' % n, Lin(0))
            return ContractRun.check_return(self, fn, spec, env, struct_params, T, rv, posts)
        finally:
            env.names = saved


def chain(*setups):
    def setup(run, st, env, pnames, args, sps):
        for s in setups:
            s(run, st, env, pnames, args, sps)
    return setup


def sized_params(*pairs, elem=1, nullable=False):
    """(pointer index, length index): the pointer parameter is a buffer of exactly elem*length bytes
    (not terminated, nothing readable behind it)"""
    def setup(run, st, env, pnames, args, sps):
        for (pi, li) in pairs:
            n = args[li]
            if not isinstance(n, IntVal):
                raise AnalysisBroken('parameter %d is not an integer length' % li)
            nl = env.names.get('arg%d' % li)
            o = st.new_obj('param', nl * elem, 'arg%d' % pi, {'desc': 'buffer arg%d[arg%d]' % (pi, li)})
            args[pi] = PtrVal(o.id, Lin(0))
            if hasattr(run, 'argobj'):
                run.argobj[pi] = o.id
    return setup


def cstr_args(*idx, maxlen=1 << 30, extra=0, inside=()):
    """the pointer parameters at the given positions are NUL-terminated strings of symbolic length
    len_argN held in objects of exactly len+1(+extra) bytes; parameters listed in 'inside' point to an
    arbitrary position pos_argN (0 <= pos <= len) of their string instead of its first character"""
    def setup(run, st, env, pnames, args, sps):
        for i in idx:
            n = st.fresh_int(64, False, 'len_arg%d' % i)
            st.cons.add_le(n.u, maxlen)
            o = st.new_obj('param', n.u + 1 + extra, 'arg%d' % i,
                           {'desc': 'C string arg%d' % i, 'cstr_len': n.u})
            off = Lin(0)
            if i in inside:
                pos = st.fresh_int(64, False, 'pos_arg%d' % i)
                st.cons.add_le(pos.u, n.u)
                off = pos.u
                env.bind('pos_arg%d' % i, pos.u)
            args[i] = PtrVal(o.id, off)
            env.bind('len_arg%d' % i, n.u)
            if hasattr(run, 'argobj'):
                run.argobj[i] = o.id
    return setup


def fixed_args(*pairs):
    """(pointer index, byte size): out-parameters of a fixed size"""
    def setup(run, st, env, pnames, args, sps):
        for (i, size) in pairs:
            o = st.new_obj('param', Lin(size), 'arg%d' % i, {'desc': 'out-parameter arg%d' % i})
            args[i] = PtrVal(o.id, Lin(0))
            if hasattr(run, 'argobj'):
                run.argobj[i] = o.id
    return setup


def const_table_args(*idx):
    """the pointer parameters at these positions point to caller-owned tables of unknown extent that the
    function only reads: two integer loads from the same (symbolic) offset yield the same value"""
    def content(interp, st, o, off, ty):
        if ty.get('k') != 'int' or ty.get('bits', 0) <= 1:
            return None
        key = ('tbl', o.id, _L(off).key(), ty['bits'])
        v = st.conv.get(key)
        if v is None:
            v = st.fresh_int(ty['bits'], True, 'tbl')
            st.conv[key] = v
        return v

    def setup(run, st, env, pnames, args, sps):
        for i in idx:
            o = st.new_obj('param', None, 'arg%d' % i, {'desc': 'table arg%d' % i, 'content': content,
                                                         'content_var': content})
            args[i] = PtrVal(o.id, Lin(0))
            if hasattr(run, 'argobj'):
                run.argobj[i] = o.id
    return setup


def const_strings(run, st, env, pnames, args, sps):
    """constant string literals of the unit are terminated strings (C-string model instead of opaque bytes)"""
    for name, g in run.mod.globals.items():
        init = g.get('init')
        if g.get('const') and isinstance(init, list) and init and all(isinstance(x, int) for x in init) \
                and init[-1] == 0 and 0 not in init[:-1] and g['ty'].get('size') == len(init):
            oid = 'global:' + name
            if oid not in st.objs:
                from absval import Obj
                st.objs[oid] = Obj(oid, 'global', Lin(len(init)),
                                   {'g': g, 'cstr_len': Lin(len(init) - 1), 'desc': 'string literal %s' % name})


def null_args(*idx):
    def setup(run, st, env, pnames, args, sps):
        for i in idx:
            args[i] = NULL
    return setup


# ----------------------------------------------------------------------------------------------
# libc summaries
# ----------------------------------------------------------------------------------------------
def _u(st, v, hint='n'):
    if isinstance(v, IntVal):
        return st.force_u(v, hint)
    return st.fresh_int(64, False, hint).u


def ext_memchr(interp, st, i, args):
    """memchr(s, c, n): reads up to n bytes of s; NULL or a pointer to one of them"""
    s, n = args[0], _u(st, args[2])
    if not (n.is_const() and n.c == 0):
        interp.check_access(st, s, n, i, 'memchr')
    if st.bottom:
        return []
    out = []
    s2 = st.fork()
    out.append((s2, NULL))
    if isinstance(s, PtrVal) and not s.is_null and not st.cons.entails_le(n, 0):
        k = st.fresh_int(64, False, 'hit')
        st.cons.add_lt(k.u, n)
        out.append((st, PtrVal(s.obj, s.off + k.u, s.lo, s.hi, True)))
    return out


def ext_memcmp(interp, st, i, args):
    n = _u(st, args[2])
    if not (n.is_const() and n.c == 0):
        interp.check_access(st, args[0], n, i, 'memcmp')
        interp.check_access(st, args[1], n, i, 'memcmp')
    if st.bottom:
        return []
    return [(st, st.fresh_int(32, True, 'memcmp'))]


def cstr_read(interp, st, p, i, kind):
    """a string function walks p up to its terminator: p must point into a terminated string"""
    if not isinstance(p, PtrVal):
        interp.unchecked += 1
        return
    if p.is_null:
        interp.oblige('deref-null', i, False, '%s of a null pointer' % kind)
        st.bottom = True
        return
    o = st.objs.get(p.obj)
    if o is None:
        interp.unchecked += 1
        return
    n = o.info.get('cstr_len')
    if n is not None:
        ok = st.cons.entails_le(0, p.off) and st.cons.entails_le(p.off, n)
        interp.checked += 1
        interp.oblige('bounds:' + kind, i, ok, None if ok else
                      '%s starts at offset %r of %s, not provably inside the string of length %r%s'
                      % (kind, p.off, interp.describe_obj(st, p.obj), n, interp.explain(st, [p.off, n])),
                      interp.describe_obj(st, p.obj))
        st.cons.add_le(0, p.off)
        st.cons.add_le(p.off, n)
        return
    g = o.info.get('g')
    if o.kind == 'global' and g and g.get('const') and isinstance(g.get('init'), list) and 0 in g['init']:
        return
    if o.size is not None:
        # a sized object that is not known to be terminated
        interp.checked += 1
        interp.oblige('bounds:' + kind, i, False,
                      '%s walks %s up to a NUL terminator, but the object is a buffer of %r bytes that is not '
                      'known to be terminated' % (kind, interp.describe_obj(st, p.obj), o.size),
                      interp.describe_obj(st, p.obj))
        return
    interp.unchecked += 1


def const_string(st, p):
    """bytes (without the terminator) of the constant global string p points to, or None"""
    if not isinstance(p, PtrVal) or p.is_null or not p.off.is_const():
        return None
    o = st.objs.get(p.obj)
    if o is None or o.kind != 'global':
        return None
    g = o.info.get('g')
    if not g or not g.get('const') or not isinstance(g.get('init'), list):
        return None
    b = [x & 0xff for x in g['init'][p.off.c:]]
    if 0 not in b:
        return None
    return b[:b.index(0)]


def ext_strchr(interp, st, i, args):
    """strchr(s, c): NULL exactly when c is neither in s nor NUL (the terminator counts as part of s)"""
    s, c = args[0], args[1]
    cstr_read(interp, st, s, i, 'strchr')
    if st.bottom:
        return []
    chars = const_string(st, s)
    cl = None
    if isinstance(c, IntVal):
        # strchr converts its int argument to char; callers pass a sign-extended char
        cl = st.as_s(c)
        if cl is None:
            cl = st.as_u(c)
    out = []
    if chars is not None and cl is not None:
        alls = sorted(set((x - 256 if x >= 128 else x) for x in chars) | {0})
        # decided?
        hit = [k for k in alls if st.cons.entails_eq(cl, k)]
        if hit:
            return [(st, PtrVal(s.obj, Lin(chars.index(hit[0] & 0xff) if hit[0] else len(chars)), None, None, True))]
        sn = st.fork()
        feasible = True
        for k in alls:
            if sn.cons.entails_eq(cl, k):
                feasible = False
                break
            if sn.cons.entails_lt(cl, k) or sn.cons.entails_lt(k, cl):
                continue
            sn.add_diseq(cl, k)
        if feasible:
            out.append((sn, NULL))
        for k in alls:
            if st.known_diseq(cl, k) or st.cons.entails_lt(cl, k) or st.cons.entails_lt(k, cl):
                continue
            sy = st.fork()
            sy.cons.add_eq(cl, k)
            if interp.infeasible(sy, cl, Lin(k)):
                continue
            out.append((sy, PtrVal(s.obj, Lin(chars.index(k & 0xff) if k else len(chars)), None, None, True)))
        return out
    sn = st.fork()
    if cl is not None:
        if sn.cons.entails_eq(cl, 0):
            sn = None
        else:
            sn.add_diseq(cl, 0)
    if sn is not None:
        out.append((sn, NULL))
    if isinstance(s, PtrVal) and not s.is_null:
        k = st.fresh_int(64, False, 'hit')
        o = st.objs.get(s.obj)
        n = o.info.get('cstr_len') if o is not None else None
        if n is not None:
            st.cons.add_le(s.off + k.u, n)
        out.append((st, PtrVal(s.obj, s.off + k.u, s.lo, s.hi, True)))
    else:
        out.append((st, interp.unknown_ptr(st, 'strchr', True)))
    return out


def ext_strcmp(interp, st, i, args):
    cstr_read(interp, st, args[0], i, 'strcmp')
    if st.bottom:
        return []
    cstr_read(interp, st, args[1], i, 'strcmp')
    if st.bottom:
        return []
    return [(st, st.fresh_int(32, True, 'strcmp'))]


def ext_strlen19(interp, st, i, args):
    from absint import ext_strlen
    cstr_read(interp, st, args[0], i, 'strlen')
    if st.bottom:
        return []
    return ext_strlen(interp, st, i, args)


def ext_igris_memmem(interp, st, i, args):
    """igris_memmem(l, l_len, s, s_len) as proved on igris/string/memmem.c (R-MEMMEM): reads l[0..l_len) and
    s[0..s_len); NULL when l_len == 0, s_len == 0 or l_len < s_len, otherwise NULL or l + k with
    0 <= k <= l_len - s_len"""
    l, s = args[0], args[2]
    ln, sn = _u(st, args[1], 'l_len'), _u(st, args[3], 's_len')
    if not (ln.is_const() and ln.c == 0):
        interp.check_access(st, l, ln, i, 'memmem-haystack')
    if st.bottom:
        return []
    if not (sn.is_const() and sn.c == 0):
        interp.check_access(st, s, sn, i, 'memmem-needle')
    if st.bottom:
        return []
    out = [(st.fork(), NULL)]
    if isinstance(l, PtrVal) and not l.is_null:
        k = st.fresh_int(64, False, 'found')
        st.cons.add_le(1, sn)
        st.cons.add_le(k.u + sn, ln)
        if not interp.infeasible(st, k.u + sn, ln):
            out.append((st, PtrVal(l.obj, l.off + k.u, l.lo, l.hi, True)))
    return out


def ext_std(interp, st, i, args):
    """a libstdc++ member/helper that is not analysed: it may write to the objects handed to it by pointer
    or reference (and to the heap it owns), to nothing else; result unknown"""
    for a in args:
        if isinstance(a, PtrVal) and a.obj is not None:
            interp.escape(st, a)
            interp.havoc_obj(st, a.obj)
    return [(st, None)]


class StdStringModel:
    """std::string objects reachable through reference parameters: s.data() points to an exactly-sized block
    of s.size() bytes (interior NULs allowed, the terminator is not part of the extent); size()/length()
    return that length.  append(ptr, n) reads n bytes at ptr."""

    def __init__(self, mod):
        from irlib import demangle
        names = [f.name for f in mod.functions.values() if 'basic_string' in f.name]
        self.ext = {}
        for n, d in zip(names, demangle(names)):
            if not d.startswith('std::__cxx11::basic_string<char'):
                continue
            tail = d.split('>::', 1)[1] if '>::' in d else ''
            if tail in ('data() const', 'c_str() const', 'data()'):
                self.ext[n] = self.data
            elif tail in ('size() const', 'length() const'):
                self.ext[n] = self.size
            elif tail.startswith('append(char const*, unsigned long)'):
                self.ext[n] = self.append_n
            elif tail == 'empty() const':
                self.ext[n] = self.empty
        self.found = set(self.ext.values())

    def model(self, st, this):
        if not isinstance(this, PtrVal) or this.is_null or not this.off.is_const():
            return None
        key = ('stdstring', this.obj, this.off.c)
        m = st.conv.get(key)
        if m is None:
            n = st.fresh_int(64, False, 'strsize')
            st.cons.add_le(n.u, BIG)
            o = st.new_obj('param', n.u, 'strdata', {'desc': 'characters of std::string %s' % str(this.obj).split('#')[0]})
            m = (o.id, n.u)
            st.conv[key] = m
        return m

    def data(self, interp, st, i, args):
        m = self.model(st, args[0])
        if m is None:
            return [(st, interp.unknown_ptr(st, 'strdata', True))]
        return [(st, PtrVal(m[0], Lin(0)))]

    def size(self, interp, st, i, args):
        m = self.model(st, args[0])
        if m is None:
            return [(st, st.fresh_int(64, False, 'strsize'))]
        return [(st, IntVal(64, m[1], None))]

    def empty(self, interp, st, i, args):
        # empty() is size() == 0
        m = self.model(st, args[0])
        if m is None:
            return [(st, CondVal('unknown'))]
        return [(st, CondVal('cmp', 'eq', IntVal(64, m[1], None), mk_const(64, 0), None, None))]

    def append_n(self, interp, st, i, args):
        n = _u(st, args[2])
        if not (n.is_const() and n.c == 0):
            interp.check_access(st, args[1], n, i, 'append-src')
        if st.bottom:
            return []
        if isinstance(args[0], PtrVal) and args[0].obj is not None:
            interp.havoc_obj(st, args[0].obj)
        return [(st, args[0])]


LIBC_EXT = {'memchr': ext_memchr, 'memcmp': ext_memcmp, 'strchr': ext_strchr, 'strcmp': ext_strcmp,
            'strlen': ext_strlen19, 'igris_memmem': ext_igris_memmem}
