"""C11 helpers: abstract interpreter specialisation for the libc text scanners (strto*, atol).

* ctype summaries (closed forms of igris_is*; proved from igris/util/ctype.h by rule R-CTYPE),
* targeted loop-invariant templates for cursor loops over a NUL-terminated string
  (|c| <= 255 * (len + 1 - cursor): "the byte in hand is the terminator when the cursor is one
  past it"), replacing the generic (much larger) template set,
* scenario strings (constant / class characters at fixed offsets),
* edge events of the digit loop (accept / reject / sticky) for the cut-off arithmetic.
"""
from common import *
from absval import IntVal, PtrVal, CondVal, mk_const, NULL
from lin import Lin, normalize
from irlib import V
import os

CTYPE_RANGES = {
    'isspace': [(9, 13), (32, 32)],
    'isdigit': [(48, 57)],
    'isalpha': [(65, 90), (97, 122)],
    'isupper': [(65, 90)],
    'islower': [(97, 122)],
    'isxdigit': [(48, 57), (65, 70), (97, 102)],
}


def classify(ranges):
    """summary of a ctype predicate: 1 iff the argument lies in one of the closed ranges.
    Decided by entailment when possible; otherwise one state per range (true) and a single
    unconstrained state (false) - an over-approximation that keeps the path count low."""
    ranges = sorted(ranges)

    def ext(interp, st, i, args):
        a = args[0]
        if not isinstance(a, IntVal):
            return [(st, None)]
        s = st.force_s(a)
        for (lo, hi) in ranges:
            if st.cons.entails_le(lo, s) and st.cons.entails_le(s, hi):
                return [(st, mk_const(32, 1))]
        prev = -(1 << 31)
        gaps = []
        for (lo, hi) in ranges:
            gaps.append((prev, lo - 1))
            prev = hi + 1
        gaps.append((prev, (1 << 31) - 1))
        for (lo, hi) in gaps:
            if st.cons.entails_le(lo, s) and st.cons.entails_le(s, hi):
                return [(st, mk_const(32, 0))]
        out = []
        for (lo, hi) in ranges:
            s2 = st.fork()
            s2.cons.add_le(lo, s)
            s2.cons.add_le(s, hi)
            if interp.infeasible(s2, s, Lin(0)):
                continue
            out.append((s2, mk_const(32, 1)))
        out.append((st, mk_const(32, 0)))
        return out
    return ext


CTYPE_EXT = {k: classify(v) for k, v in CTYPE_RANGES.items()}


class ScanInterp(Interp):
    """Interp with loop-invariant templates specialised for string cursors"""

    def __init__(self, mod, externals=None, opaque=(), extra_cands=None):
        e = dict(CTYPE_EXT)
        if externals:
            e.update(externals)
        Interp.__init__(self, mod, externals=e, opaque=opaque)
        self._inits = {}
        self.extra_cands = extra_cands      # f(interp, st, newsyms, inits) -> [Lin over ('$', n)]
        self.edge_hook = None               # f(interp, fn, block, st, frm)
        self.ret_hook = None                # f(interp, fn, term, st, rv)

    # -- loop heads ------------------------------------------------------
    def build_head(self, st, fn, L, phis, inits, modified, smashed, signs=None):
        self._inits = inits
        return Interp.build_head(self, st, fn, L, phis, inits, modified, smashed, signs)

    def gen_candidates(self, st, newsyms, partners=()):
        out = []
        seen = set()
        init_map = {}
        for n, (xl, init, what, w, signed) in enumerate(newsyms):
            if init is not None:
                init_map[('$', n)] = init

        def add(c):
            c = normalize(c)
            if not c.t or c.key() in seen:
                return
            seen.add(c.key())
            if st.cons.entails(c.subst(init_map)):
                out.append(c)
        for n, (xl, init, what, w, signed) in enumerate(newsyms):
            if init is None:
                continue
            x = Lin.sym(('$', n))
            if what[0] == 'pphi':
                add(-x)                                  # cursor never moves backwards
                iv = self._inits.get(what[1].id)
                o = st.objs.get(iv.obj) if isinstance(iv, PtrVal) else None
                if o is not None and o.info.get('cstr_len') is not None:
                    ln = o.info['cstr_len']
                    off = what[3] + x * what[2]
                    add(off - ln)                        # cursor <= len
                    add(off - ln - 1)                    # cursor <= len + 1
                    for m, (xc, ic, wc, ww, sg) in enumerate(newsyms):
                        if wc[0] != 'phi' or ic is None:
                            continue
                        c = Lin.sym(('$', m))
                        for sign in (1, -1):
                            # the byte in hand is 0 when the cursor is one past the terminator (`c = *p++`)
                            add(c * sign - (ln + 1 - off) * 255)
                            # ... or when the cursor is AT the terminator (`c = *p` ... `c = *++p`)
                            add(c * sign - (ln - off) * 255)
            elif what[0] == 'phi':
                for k in (0, 1, -1):
                    add(x - k)
                    add(Lin(k) - x)
                add(x - init)
                add(init - x)
                if w is not None and w >= 32:
                    # an index cursor (`s[i++]` instead of `*s++`): the same templates as for the pointer cursor, for every
                    # string it may index (Houdini drops those that do not hold)
                    for o in st.objs.values():
                        ln = o.info.get('cstr_len')
                        if ln is None:
                            continue
                        add(x - ln)
                        add(x - ln - 1)
                        for m, (xc, ic, wc, ww, sg) in enumerate(newsyms):
                            if wc[0] != 'phi' or ic is None or m == n:
                                continue
                            c = Lin.sym(('$', m))
                            for sign in (1, -1):
                                add(c * sign - (ln + 1 - x) * 255)
                                add(c * sign - (ln - x) * 255)
        if self.extra_cands is not None:
            for c in self.extra_cands(self, st, newsyms, self._inits):
                add(c)
        return out

    # -- events ----------------------------------------------------------
    def eval_phis(self, fn, b, st, frm):
        if self.edge_hook is not None and self.recording == 0:
            self.edge_hook(self, fn, b, st, frm)
        return Interp.eval_phis(self, fn, b, st, frm)

    def exec_term(self, fn, t, st, rets):
        if t.op == 'ret' and self.ret_hook is not None and self.recording == 0 and len(self.stack) <= 1:
            rv = self.val(st, t.ops[0], fn) if t.ops else None
            self.ret_hook(self, fn, t, st, rv)
        return Interp.exec_term(self, fn, t, st, rets)


# ----------------------------------------------------------------------
# text parameters
# ----------------------------------------------------------------------
def text_setup(chars=None, open_ended=True, endptr='obj', text_arg=0, end_arg=1, base=None, base_arg=2):
    """FnSpec.setup: argument text_arg is a NUL-terminated string.  chars: list of items for the
    leading characters - int (that character) or (lo, hi) (any character of that range, bound to
    the contract name c<k>); open_ended: the text continues arbitrarily after them, else it ends
    there.  endptr: 'obj' (valid char* slot), 'null', None (function has no such parameter)."""
    chars = chars or []

    def setup(run, st, env, pnames, args, sps):
        cstr_params(text_arg)(run, st, env, pnames, args, sps)
        p = args[text_arg]
        n = env.names['len_arg%d' % text_arg]
        if open_ended:
            st.cons.add_le(len(chars), n)
        else:
            st.cons.add_eq(n, Lin(len(chars)))
        for k, ch in enumerate(chars):
            if isinstance(ch, int):
                v = mk_const(8, ch)
            else:
                lo, hi = ch
                b = st.fresh_int(8, False, 'c%d' % k)
                st.cons.add_le(lo, b.u)
                st.cons.add_le(b.u, hi)
                v = b
                env.bind('c%d' % k, b.u)
            st.mem[(p.obj, k, 1)] = v
        if endptr == 'obj':
            o = st.new_obj('param', Lin(8), 'endptr', {'desc': '*endptr', 'role': 'endptr'})
            args[end_arg] = PtrVal(o.id, Lin(0))
        elif endptr == 'null':
            args[end_arg] = NULL
        if base is not None:
            args[base_arg] = mk_const(32, base)
    return setup


def end_store_hook(interp, st, i, p, v):
    """remember what is stored into *endptr: ghost_end = byte offset inside the text,
    ghost_end_in_text = 1 when the stored pointer points into the text object"""
    if isinstance(p, PtrVal) and p.obj is not None:
        o = st.objs.get(p.obj)
        if o is not None and o.info.get('role') == 'endptr':
            st.ghost['end_stores'] = st.ghost.get('end_stores', 0) + 1
            if isinstance(v, PtrVal) and v.obj is not None:
                vo = st.objs.get(v.obj)
                st.ghost['end'] = v.off
                st.ghost['end_in_text'] = 1 if (vo is not None and vo.info.get('desc', '').startswith('C string')) else 0
            else:
                st.ghost['end_in_text'] = 0
                st.ghost.pop('end', None)


def coarse(ranges):
    """cheaper ctype summary for the general (all texts) runs: true -> convex hull of the class,
    false -> unconstrained.  Sound over-approximation; keeps 'true implies the byte is not NUL'."""
    lo = min(r[0] for r in ranges)
    hi = max(r[1] for r in ranges)

    def ext(interp, st, i, args):
        a = args[0]
        if not isinstance(a, IntVal):
            return [(st, None)]
        s = st.force_s(a)
        for (l, h) in ranges:
            if st.cons.entails_le(l, s) and st.cons.entails_le(s, h):
                return [(st, mk_const(32, 1))]
        if st.cons.entails_lt(s, lo) or st.cons.entails_lt(hi, s):
            return [(st, mk_const(32, 0))]
        s2 = st.fork()
        s2.cons.add_le(lo, s)
        s2.cons.add_le(s, hi)
        out = []
        if not interp.infeasible(s2, s, Lin(0)):
            out.append((s2, mk_const(32, 1)))
        out.append((st, mk_const(32, 0)))
        return out
    return ext


COARSE_EXT = {k: coarse(v) for k, v in CTYPE_RANGES.items()}

CASTS = ('zext', 'sext', 'trunc')


def strip_casts(f, v):
    chain = []
    while v.k == 'inst' and f.insts[v.id].op in CASTS:
        chain.append(f.insts[v.id])
        v = f.insts[v.id].ops[0]
    return v, chain


# ----------------------------------------------------------------------
# digit loop anchors and the cut-off arithmetic (R-CUTOFF)
# ----------------------------------------------------------------------
def digit_loop(f):
    """structural anchors: P_acc/P_any header phis of the loop that accumulates the value,
    Q_acc/Q_any the phis merging one iteration's outcomes, the accumulate instructions."""
    w = f.ret.get('bits')
    found = []
    for L in f.loops:
        h = L['header']
        phis = [i for i in h.insts if i.op == 'phi']
        for pa in phis:
            if pa.ty.get('k') != 'int' or pa.bits != w:
                continue
            lat = [v for (bb, v) in pa.incoming if f.bmap[bb] in L['blocks']]
            if len(lat) != 1 or lat[0].k != 'inst':
                continue
            qa = f.insts[lat[0].id]
            if qa.op != 'phi' or qa.block is h:
                continue
            sites = []
            for (bb, v) in qa.incoming:
                if v.k != 'inst':
                    continue
                A = f.insts[v.id]
                if A.op not in ('add', 'sub'):
                    continue
                m = f.inst_of(A.ops[0])
                if m is None or m.op != 'mul':
                    continue
                mo = [o for o in m.ops if not (o.k == 'inst' and o.id == pa.id)]
                if len(mo) != 1:
                    continue
                sites.append({'edge': bb, 'A': A, 'M': m, 'base': mo[0], 'digit': A.ops[1]})
            if not sites:
                continue
            for pf in phis:
                if pf is pa or pf.ty.get('k') != 'int':
                    continue
                latf = [v for (bb, v) in pf.incoming if f.bmap[bb] in L['blocks']]
                if len(latf) != 1 or latf[0].k != 'inst':
                    continue
                qf = f.insts[latf[0].id]
                if qf.op != 'phi' or qf.block is not qa.block:
                    continue
                consts = set(v.ival for (bb, v) in qf.incoming if v.k == 'ci')
                if not consts or not consts <= {1, -1}:
                    continue
                found.append({'loop': L, 'P_acc': pa, 'P_any': pf, 'Q_acc': qa, 'Q_any': qf, 'sites': sites})
    if len(found) != 1:
        raise AnalysisBroken('%s: digit loop anchors (accumulator/flag phis) not resolvable: %d candidates'
                             % (f.name, len(found)))
    d = found[0]
    roots = set()
    for s in d['sites']:
        dr, dch = strip_casts(f, s['digit'])
        br, bch = strip_casts(f, s['base'])
        s['digit_root'], s['digit_chain'] = dr, dch
        s['base_root'], s['base_chain'] = br, bch
        roots.add((dr.key(), br.key(), tuple(c.op for c in dch)))
    if len(roots) != 1:
        raise AnalysisBroken('%s: accumulate sites disagree on the digit/base values' % f.name)
    # signedness of the accumulator variable (debug info)
    sg = None
    for b in f.blocks:
        for i in b.insts:
            if i.op == 'dbg' and i.ops and i.ops[0].k == 'inst' and i.ops[0].id == d['P_acc'].id and \
                    i.d.get('signed', -1) in (0, 1):
                sg = i.d['signed'] == 1
    if sg is None:
        raise AnalysisBroken('%s: signedness of the accumulator not in debug info' % f.name)
    d['acc_signed'] = sg
    qa, qf = d['Q_acc'], d['Q_any']
    return d


class Tally:
    def __init__(self, fname, label):
        self.fname = fname
        self.label = label
        self.r = {}

    def ob(self, kind, ok, where, detail=None):
        k = '%s: %s' % (self.label, kind)
        e = self.r.get(k)
        if e is None:
            e = self.r[k] = [True, where, None, 0]
        e[3] += 1
        if not ok and e[0]:
            e[0] = False
            e[1] = where
            e[2] = detail

    def need(self, kind, where, why):
        k = '%s: %s' % (self.label, kind)
        if k not in self.r:
            self.r[k] = [False, where, why, 0]

    def items(self, rule):
        return [(rule, self.fname, k, e[0], e[1], e[2]) for k, e in sorted(self.r.items())]


def unknown_text(sign_char, base):
    def content(interp, st, o, off, ty):
        if off == 0 and ty.get('bits') == 8:
            return mk_const(8, sign_char)
        return None

    def setup(run, st, env, pnames, args, sps):
        o = st.new_obj('param', None, 'text', {'desc': 'text', 'content': content})
        args[0] = PtrVal(o.id, Lin(0))
        e = st.new_obj('param', Lin(8), 'endptr', {'desc': '*endptr', 'role': 'endptr'})
        args[1] = PtrVal(e.id, Lin(0))
        args[2] = mk_const(32, base)
    return setup


def cutoff_run(mod, fname, base, neg, externals, model='LP64'):
    """one function, one base argument, texts '-...' (neg) or '+...': evaluate the obligations of
    the digit loop's edges.  Returns rule instances."""
    f = mod.fn(fname)
    if f is None or f.decl:
        raise AnalysisBroken('%s not defined (anchor vanished)' % fname)
    w = f.ret.get('bits')
    dit = f.d.get('ditypes') or []
    if not dit or dit[0].get('signed') not in (0, 1):
        raise AnalysisBroken('%s: result signedness unknown' % fname)
    rsigned = dit[0]['signed'] == 1
    d = digit_loop(f)
    M = 1 << w
    if not rsigned:
        mode, lo, hi, sgn = 'unsigned', 0, M - 1, 1
        clamp = M - 1
    elif not d['acc_signed']:
        mode, lo, hi, sgn = 'magnitude', 0, (M >> 1) - 1 + neg, 1
        clamp = (M >> 1) if neg else (M >> 1) - 1
    else:
        mode = 'direct'
        lo, hi, sgn = (-(M >> 1), 0, -1) if neg else (0, (M >> 1) - 1, 1)
        clamp = (M >> 1) if neg else (M >> 1) - 1
    T = Tally(fname, '%s, base %d, %s text' % (model, base, 'negative' if neg else 'non-negative'))
    pa, pf, qa, qf = d['P_acc'], d['P_any'], d['Q_acc'], d['Q_any']
    site0 = d['sites'][0]
    state = {'flag_clamped': True, 'rejects': 0}

    def acc_lin(st, v):
        return st.force_s(v) if mode == 'direct' else st.force_u(v)

    def digit_and_base(interp, st):
        dv = interp.val(st, site0['digit_root'], f)
        for c in reversed(site0['digit_chain']):
            dv = interp.cast(st, c, dv)
        bv = interp.val(st, site0['base_root'], f)
        for c in reversed(site0['base_chain']):
            bv = interp.cast(st, c, bv)
        if not isinstance(dv, IntVal) or not isinstance(bv, IntVal):
            return None, None
        return st.force_s(dv), bv.sconst()

    def edge(interp, fn, b, st, frm):
        if fn is not f or b is not qa.block:
            return
        vany = dict(qf.incoming).get(frm.name)
        vacc = dict(qa.incoming).get(frm.name)
        where = frm.term.where()
        anyv = st.env.get(('i', pf.id))
        accv = st.env.get(('i', pa.id))
        if vany is None or vacc is None or not isinstance(anyv, IntVal) or not isinstance(accv, IntVal):
            T.ob('edge-classified', False, where, 'edge %s of the digit loop not understood' % frm.name)
            return
        anyl = st.force_s(anyv)
        flagged = st.cons.entails_le(anyl, -1)
        clean = st.cons.entails_le(0, anyl)
        acc = acc_lin(st, accv)
        same_acc = vacc.k == 'inst' and vacc.id == pa.id
        if vany.k == 'ci' and vany.ival == 1:
            A = f.inst_of(vacc)
            site = [s for s in d['sites'] if A is not None and s['A'] is A]
            D, B = digit_and_base(interp, st)
            if not site or D is None or B is None or B <= 0:
                T.ob('accept-exact', False, where, 'accepted digit does not update the accumulator by acc*base+-digit '
                     '(base value %r)' % (B,))
                return
            T.ob('digit-below-base', st.cons.entails_le(0, D) and st.cons.entails_le(D, B - 1), where,
                 'digit value not provably in [0, %d]' % (B - 1))
            got = acc * B + D if A.op == 'add' else acc * B - D
            want = acc * B + D * sgn
            ok = (got - want).is_const() and (got - want).c == 0 and \
                st.cons.entails_le(lo, want) and st.cons.entails_le(want, hi)
            T.ob('accept-exact', ok and not flagged, where,
                 'accepted digit: new value %r not provably the exact value acc*%d%+d*digit inside [%d, %d]%s'
                 % (got, B, sgn, lo, hi, interp.explain(st, [acc, D])))
        elif (vany.k == 'ci' and vany.ival == -1 and clean):
            D, B = digit_and_base(interp, st)
            state['rejects'] += 1
            if D is None or B is None or B <= 0:
                T.ob('reject-overflows', False, where, 'digit/base not evaluable on the rejecting edge')
                return
            want = acc * B + D * sgn
            ok = st.cons.entails_le(hi + 1, want) if sgn > 0 else st.cons.entails_le(want, lo - 1)
            T.ob('reject-overflows', ok, where,
                 'digit rejected although acc*%d%+d*digit = %r is not provably outside [%d, %d]%s'
                 % (B, sgn, want, lo, hi, interp.explain(st, [acc, D])))
            nv = interp.val(st, vacc, f)
            is_clamp = isinstance(nv, IntVal) and nv.const() == clamp % M
            if not is_clamp:
                state['flag_clamped'] = False
            T.ob('reject-keeps-or-clamps', same_acc or is_clamp, where,
                 'accumulator after an overflow is neither unchanged nor the type limit %d' % clamp)
        elif flagged and ((vany.k == 'ci' and vany.ival == -1) or (vany.k == 'inst' and vany.id == pf.id)):
            T.ob('flag-sticky', same_acc, where, 'accumulator modified although the overflow flag is already set')
            # the subject sequence ends at the first character that is not a digit of the base, also once the value has
            # overflowed: the end pointer of "99999999999999999999abc" is the 'a'
            D, B = digit_and_base(interp, st)
            T.ob('digit-below-base-after-overflow', D is not None and B is not None and B > 0 and
                 st.cons.entails_le(0, D) and st.cons.entails_le(D, B - 1), where,
                 'once the overflow flag is set a character is consumed although its digit value is not provably in [0, %s]: '
                 'the scan (and the end pointer) runs on over characters that are not digits of the base' % (None if B is None else B - 1))
        else:
            T.ob('edge-classified', False, where,
                 'a digit passes the loop without being accumulated or rejected (flag value %r)' % (anyl,))

    def at_ret(interp, fn, t, st, rv):
        if fn is not f:
            return
        anyv = st.env.get(('i', pf.id))
        accv = st.env.get(('i', pa.id))
        if not isinstance(anyv, IntVal) or not isinstance(rv, IntVal):
            return
        anyl = st.force_s(anyv)
        if st.cons.entails_le(0, anyl):
            return
        flagged = st.cons.entails_le(anyl, -1)
        is_clamp = rv.const() == clamp % M
        is_acc = False
        if isinstance(accv, IntVal):
            a, r = acc_lin(st, accv), acc_lin(st, rv)
            is_acc = (a - r).is_const() and (a - r).c == 0
        if flagged:
            ok = is_clamp or (is_acc and state['flag_clamped'] and state['rejects'] > 0)
            T.ob('overflow-returns-type-limit', ok, t.where(),
                 'with the overflow flag set the function returns %r instead of the limit %d of its %d-bit %s result'
                 % (rv, clamp if not (rsigned and neg) else -clamp, w, 'signed' if rsigned else 'unsigned'))
        else:
            # flag not tested after the loop: only sound when every rejecting edge stored the limit
            ok = is_acc and state['flag_clamped']
            T.ob('overflow-returns-type-limit', ok, t.where(),
                 'the result does not depend on the overflow flag and the accumulator is not clamped when the flag is set')
    it = ScanInterp(mod, externals=externals)
    it.edge_hook = edge
    it.ret_hook = at_ret
    run = ContractRun(it, [])
    run.run(fname, FnSpec(setup=unknown_text(45 if neg else 43, base)))
    where = '%s:%d' % (f.file, f.line)
    for k in ('digit-below-base', 'accept-exact', 'reject-overflows', 'reject-keeps-or-clamps', 'flag-sticky',
              'overflow-returns-type-limit'):
        T.need(k, where, 'no such edge/return is reachable: the overflow handling is missing')
    return T.items('R-CUTOFF')


# ----------------------------------------------------------------------
# R-SIBLING: constants of sign / prefix / digit handling agree across the strto* family
# ----------------------------------------------------------------------
def scanner_facts(f):
    """facts read off the IR of one scanner (no source text involved)"""
    chars = set()          # SSA ids holding a text character (load i8 and its casts/phis)
    bases = set()          # SSA keys derived from the base argument
    ptrs = set()
    if len(f.params) < 3:
        raise AnalysisBroken('%s: expected (text, endptr, base)' % f.name)
    bases.add(('a', 2))
    ptrs.add(('a', 0))
    changed = True
    insts = list(f.all_insts())
    while changed:
        changed = False
        for i in insts:
            k = ('i', i.id)
            opk = [o.key() for o in i.ops if o.k in ('inst', 'arg')]
            if k not in ptrs and i.op in ('getelementptr', 'phi', 'bitcast', 'select') and i.ty.get('k') == 'ptr' and \
                    any(x in ptrs for x in opk):
                ptrs.add(k)
                changed = True
            if k not in chars and ((i.op == 'load' and i.bits == 8 and opk and opk[0] in ptrs) or
                                   (i.op in CASTS + ('phi',) and any(x in chars for x in opk))):
                chars.add(k)
                changed = True
            if k not in bases and i.op in ('phi', 'select') + CASTS and i.ty.get('k') == 'int' and \
                    any(x in bases for x in opk) and not any(x in chars for x in opk):
                bases.add(k)
                changed = True
    facts = {'text characters compared': set(), 'base values tested': set(), 'bases assigned': set(),
             'digit biases': set(), 'ctype predicates': set(), 'cursor steps': set()}

    def consts_of(v, depth=0):
        if v.k == 'ci':
            return {v.ival}
        i = f.inst_of(v)
        if i is not None and i.op == 'select' and depth < 3:
            return consts_of(i.ops[1], depth + 1) | consts_of(i.ops[2], depth + 1)
        return set()
    for i in insts:
        opk = [o.key() if o.k in ('inst', 'arg') else None for o in i.ops]
        if i.op == 'icmp' and i.pred in ('eq', 'ne'):
            for a, b in ((0, 1), (1, 0)):
                if i.ops[b].k == 'ci':
                    if opk[a] in chars:
                        facts['text characters compared'].add(i.ops[b].ival & 0xff)
                    elif opk[a] in bases:
                        facts['base values tested'].add(i.ops[b].ival)
        if i.op == 'switch' and opk and opk[0] in bases:
            facts['base values tested'].update(c['v'] for c in i.d['cases'])
        if i.op == 'switch' and opk and opk[0] in chars:
            facts['text characters compared'].update(c['v'] & 0xff for c in i.d['cases'])
        if ('i', i.id) in bases and i.op in ('phi', 'select'):
            ops = i.ops[1:] if i.op == 'select' else i.ops
            for o in ops:
                facts['bases assigned'].update(consts_of(o))
        if i.op == 'sub' and opk[0] in chars:
            facts['digit biases'].update(consts_of(i.ops[1]))
        if i.op == 'add' and opk[0] in chars and i.ops[1].k == 'ci':
            facts['digit biases'].add(-i.ops[1].ival)
        if i.op == 'call' and i.callee and i.callee.startswith('is'):
            facts['ctype predicates'].add(i.callee)
        if i.op == 'getelementptr' and opk and opk[0] in ptrs:
            for s in i.d['gep']['steps']:
                if s['k'] == 'index' and s['v']['k'] == 'ci':
                    facts['cursor steps'].add(s['v']['v'] * s['stride'])
    # the index form of the same walk (`s[i++]`, `i += 2`, `&s[i - 1]`): constant steps applied to integers that index the text
    idx, work = set(), []
    for i in insts:
        if i.op == 'getelementptr' and i.ops[0].k in ('inst', 'arg') and i.ops[0].key() in ptrs:
            for s in i.d['gep']['steps']:
                if s['k'] == 'index' and s['v']['k'] == 'inst':
                    work.append(s['v']['id'])
    while work:
        x = work.pop()
        if x in idx:
            continue
        idx.add(x)
        xi = f.insts[x]
        if xi.op in ('phi', 'add', 'sub', 'select') + CASTS:
            work.extend(o.id for o in (xi.ops[1:] if xi.op == 'select' else xi.ops) if o.k == 'inst')
    for x in idx:
        xi = f.insts[x]
        if xi.op in ('add', 'sub') and xi.ops[1].k == 'ci' and xi.ops[0].k == 'inst':
            facts['cursor steps'].add(xi.ops[1].ival if xi.op == 'add' else -xi.ops[1].ival)
    return {k: tuple(sorted(v)) for k, v in facts.items()}


def sibling_rule(rep, repo, scanners, compile_unit):
    allf = {}
    where = {}
    for (fname, rel) in scanners:
        mod = compile_unit(repo, rel)
        f = mod.fn(fname)
        if f is None or f.decl:
            raise AnalysisBroken('%s not defined in %s (anchor vanished)' % (fname, rel))
        allf[fname] = scanner_facts(f)
        where[fname] = '%s:%d' % (f.file, f.line)
    kinds = sorted(next(iter(allf.values())).keys())
    for k in kinds:
        votes = {}
        for fname, fa in allf.items():
            votes.setdefault(fa[k], []).append(fname)
        consensus = max(votes.items(), key=lambda kv: (len(kv[1]), kv[0]))[0]
        for fname, fa in allf.items():
            ok = fa[k] == consensus and len(consensus) > 0
            rep.inst('R-SIBLING', fname, k, ok, where[fname],
                     None if ok else '%s of %s are %s, the other strto* siblings use %s'
                     % (k, fname, list(fa[k]), list(consensus)), fact={'values': list(fa[k])})
    # the consensus itself must be the ISO alphabet
    want = {'text characters compared': (43, 45, 48, 88, 120), 'base values tested': (0, 16),
            'bases assigned': (8, 10, 16), 'digit biases': (48, 55, 87)}
    ref = scanners[0][0]
    for k, w in want.items():
        votes = {}
        for fname, fa in allf.items():
            votes.setdefault(fa[k], []).append(fname)
        consensus = max(votes.items(), key=lambda kv: (len(kv[1]), kv[0]))[0]
        rep.inst('R-SIBLING', 'strto* family', 'consensus: ' + k, consensus == w, where[ref],
                 None if consensus == w else 'the family agrees on %s = %s, ISO C needs %s' % (k, list(consensus), list(w)))


# ----------------------------------------------------------------------
# R-CTYPE: closed forms of the bundled ctype predicates
# ----------------------------------------------------------------------
def ctype_rule(rep, repo):
    mod = witness('w_c11_ctype.c', repo, flags=['-I' + os.path.join(repo, 'compat/libc/include')])
    # the witness must have picked the bundled header: its predicates forward to igris_is*
    names = set(f.name for f in mod.defined())
    for p in ('igris_isspace', 'igris_isdigit', 'igris_isalpha', 'igris_isupper'):
        if p not in names:
            raise AnalysisBroken('witness w_c11_ctype.c did not compile against compat/libc/include/ctype.h (%s missing)' % p)
    specs = {}
    for pred in ('isspace', 'isdigit', 'isalpha', 'isupper', 'isxdigit'):
        post = []
        prev = -(1 << 31)
        for (lo, hi) in sorted(CTYPE_RANGES[pred]):
            post.append(dict(name='false on [%d, %d]' % (prev, lo - 1), when=['arg0 >= %d' % prev, 'arg0 <= %d' % (lo - 1)],
                             then=['ret == 0']))
            post.append(dict(name='true on [%d, %d]' % (lo, hi), when=['arg0 >= %d' % lo, 'arg0 <= %d' % hi],
                             then=['ret >= 1']))
            prev = hi + 1
        post.append(dict(name='false on [%d, %d]' % (prev, (1 << 31) - 1), when=['arg0 >= %d' % prev], then=['ret == 0']))
        specs['igris_c11_' + pred] = FnSpec(post=post)
    run_contracts(rep, 'R-CTYPE', mod, [], specs)


# ----------------------------------------------------------------------
# R-FORWARD: atoi is (int) atol
# ----------------------------------------------------------------------
def forward_rule(rep, repo, mod):
    f = mod.fn('atoi')
    g = mod.fn('atol')
    if f is None or f.decl or g is None or g.decl:
        raise AnalysisBroken('atoi/atol not defined (anchor vanished)')
    where = '%s:%d' % (f.file, f.line)
    calls = [c for c in f.calls() if c.callee]
    ok = len(calls) == 1 and calls[0].callee == 'atol' and calls[0].ops and calls[0].ops[0].k == 'arg' and \
        calls[0].ops[0].argno == 0
    rep.inst('R-FORWARD', 'atoi', 'calls atol(text) once', ok, where,
             None if ok else 'atoi does not forward its argument to atol')
    rets = f.returns()
    ok2 = False
    if ok and len(rets) == 1 and rets[0].ops:
        v, chain = strip_casts(f, rets[0].ops[0])
        ok2 = v.k == 'inst' and v.id == calls[0].id and all(c.op == 'trunc' for c in chain)
    rep.inst('R-FORWARD', 'atoi', 'returns (int) of that result', ok2, where,
             None if ok2 else 'atoi does not return the truncated result of atol')



def summarize_sites(it, run):
    """contracts.summarize() with per-site identities: the object description of an access
    obligation is extended by the ordinal of the instruction among the instructions of the same
    opcode in its function ('load #3'), so that every access is its own rule instance without
    putting line numbers into the identity."""
    obs = summarize(it, run)
    obl = list(it.obligs.values())
    ordinals = {}
    for ob, o in zip(obl, obs):
        i = ob.inst
        if i is None or (o.get('objdesc') and '#' in str(o['objdesc'])):
            continue
        f = i.fn
        m = ordinals.get(f.name)
        if m is None:
            m = ordinals[f.name] = {}
            cnt = {}
            for x in f.all_insts():
                op = x.op if x.op != 'call' else 'call ' + (x.callee or 'indirect')
                cnt[op] = cnt.get(op, 0) + 1
                m[x.id] = '%s #%d' % (op, cnt[op])
        o['objdesc'] = '%s, %s' % (o.get('objdesc') or 'access', m.get(i.id, '?'))
    return obs
