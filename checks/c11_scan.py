"""C11 helpers: abstract interpreter specialisation for the libc text scanners (strto*, atol).

* ctype summaries (closed forms of igris_is*; proved from igris/util/ctype.h by rule R-CTYPE),
* targeted loop-invariant templates for cursor loops over a NUL-terminated string
  (|c| <= 255 * (len + 1 - cursor): "the byte in hand is the terminator when the cursor is one
  past it"), replacing the generic (much larger) template set,
* scenario strings (constant / class characters at fixed offsets),
* edge events of the digit loop (accept / reject / sticky) for the cut-off arithmetic.
"""
from common import *
from absval import IntVal, PtrVal, CondVal, mk_const, NULL
from lin import Lin, normalize
from irlib import V

CTYPE_RANGES = {
    'isspace': [(9, 13), (32, 32)],
    'isdigit': [(48, 57)],
    'isalpha': [(65, 90), (97, 122)],
    'isupper': [(65, 90)],
    'islower': [(97, 122)],
    'isxdigit': [(48, 57), (65, 70), (97, 102)],
}


def classify(ranges):
    """summary of a ctype predicate: 1 iff the argument lies in one of the closed ranges.
    Decided by entailment when possible; otherwise one state per range (true) and a single
    unconstrained state (false) - an over-approximation that keeps the path count low."""
    ranges = sorted(ranges)

    def ext(interp, st, i, args):
        a = args[0]
        if not isinstance(a, IntVal):
            return [(st, None)]
        s = st.force_s(a)
        for (lo, hi) in ranges:
            if st.cons.entails_le(lo, s) and st.cons.entails_le(s, hi):
                return [(st, mk_const(32, 1))]
        prev = -(1 << 31)
        gaps = []
        for (lo, hi) in ranges:
            gaps.append((prev, lo - 1))
            prev = hi + 1
        gaps.append((prev, (1 << 31) - 1))
        for (lo, hi) in gaps:
            if st.cons.entails_le(lo, s) and st.cons.entails_le(s, hi):
                return [(st, mk_const(32, 0))]
        out = []
        for (lo, hi) in ranges:
            s2 = st.fork()
            s2.cons.add_le(lo, s)
            s2.cons.add_le(s, hi)
            if interp.infeasible(s2, s, Lin(0)):
                continue
            out.append((s2, mk_const(32, 1)))
        out.append((st, mk_const(32, 0)))
        return out
    return ext


CTYPE_EXT = {k: classify(v) for k, v in CTYPE_RANGES.items()}


class ScanInterp(Interp):
    """Interp with loop-invariant templates specialised for string cursors"""

    def __init__(self, mod, externals=None, opaque=(), extra_cands=None):
        e = dict(CTYPE_EXT)
        if externals:
            e.update(externals)
        Interp.__init__(self, mod, externals=e, opaque=opaque)
        self._inits = {}
        self.extra_cands = extra_cands      # f(interp, st, newsyms, inits) -> [Lin over ('$', n)]
        self.edge_hook = None               # f(interp, fn, block, st, frm)
        self.ret_hook = None                # f(interp, fn, term, st, rv)

    # -- loop heads ------------------------------------------------------
    def build_head(self, st, fn, L, phis, inits, modified, smashed, signs=None):
        self._inits = inits
        return Interp.build_head(self, st, fn, L, phis, inits, modified, smashed, signs)

    def gen_candidates(self, st, newsyms, partners=()):
        out = []
        seen = set()
        init_map = {}
        for n, (xl, init, what, w, signed) in enumerate(newsyms):
            if init is not None:
                init_map[('$', n)] = init

        def add(c):
            c = normalize(c)
            if not c.t or c.key() in seen:
                return
            seen.add(c.key())
            if st.cons.entails(c.subst(init_map)):
                out.append(c)
        for n, (xl, init, what, w, signed) in enumerate(newsyms):
            if init is None:
                continue
            x = Lin.sym(('$', n))
            if what[0] == 'pphi':
                add(-x)                                  # cursor never moves backwards
                iv = self._inits.get(what[1].id)
                o = st.objs.get(iv.obj) if isinstance(iv, PtrVal) else None
                if o is not None and o.info.get('cstr_len') is not None:
                    ln = o.info['cstr_len']
                    off = what[3] + x * what[2]
                    add(off - ln)                        # cursor <= len
                    add(off - ln - 1)                    # cursor <= len + 1
                    for m, (xc, ic, wc, ww, sg) in enumerate(newsyms):
                        if wc[0] != 'phi' or ic is None:
                            continue
                        c = Lin.sym(('$', m))
                        for sign in (1, -1):
                            # the byte in hand is 0 when the cursor is one past the terminator
                            add(c * sign - (ln + 1 - off) * 255)
            elif what[0] == 'phi':
                for k in (0, 1, -1):
                    add(x - k)
                    add(Lin(k) - x)
                add(x - init)
                add(init - x)
        if self.extra_cands is not None:
            for c in self.extra_cands(self, st, newsyms, self._inits):
                add(c)
        return out

    # -- events ----------------------------------------------------------
    def eval_phis(self, fn, b, st, frm):
        if self.edge_hook is not None and self.recording == 0:
            self.edge_hook(self, fn, b, st, frm)
        return Interp.eval_phis(self, fn, b, st, frm)

    def exec_term(self, fn, t, st, rets):
        if t.op == 'ret' and self.ret_hook is not None and self.recording == 0 and len(self.stack) <= 1:
            rv = self.val(st, t.ops[0], fn) if t.ops else None
            self.ret_hook(self, fn, t, st, rv)
        return Interp.exec_term(self, fn, t, st, rets)


# ----------------------------------------------------------------------
# text parameters
# ----------------------------------------------------------------------
def text_setup(chars=None, open_ended=True, endptr='obj', text_arg=0, end_arg=1):
    """FnSpec.setup: argument text_arg is a NUL-terminated string.  chars: list of items for the
    leading characters - int (that character) or (lo, hi) (any character of that range, bound to
    the contract name c<k>); open_ended: the text continues arbitrarily after them, else it ends
    there.  endptr: 'obj' (valid char* slot), 'null', None (function has no such parameter)."""
    chars = chars or []

    def setup(run, st, env, pnames, args, sps):
        cstr_params(text_arg)(run, st, env, pnames, args, sps)
        p = args[text_arg]
        n = env.names['len_arg%d' % text_arg]
        if open_ended:
            st.cons.add_le(len(chars), n)
        else:
            st.cons.add_eq(n, Lin(len(chars)))
        for k, ch in enumerate(chars):
            if isinstance(ch, int):
                v = mk_const(8, ch)
            else:
                lo, hi = ch
                b = st.fresh_int(8, False, 'c%d' % k)
                st.cons.add_le(lo, b.u)
                st.cons.add_le(b.u, hi)
                v = b
                env.bind('c%d' % k, b.u)
            st.mem[(p.obj, k, 1)] = v
        if endptr == 'obj':
            o = st.new_obj('param', Lin(8), 'endptr', {'desc': '*endptr', 'role': 'endptr'})
            args[end_arg] = PtrVal(o.id, Lin(0))
        elif endptr == 'null':
            args[end_arg] = NULL
    return setup


def end_store_hook(interp, st, i, p, v):
    """remember what is stored into *endptr: ghost_end = byte offset inside the text,
    ghost_end_in_text = 1 when the stored pointer points into the text object"""
    if isinstance(p, PtrVal) and p.obj is not None:
        o = st.objs.get(p.obj)
        if o is not None and o.info.get('role') == 'endptr':
            st.ghost['end_stores'] = st.ghost.get('end_stores', 0) + 1
            if isinstance(v, PtrVal) and v.obj is not None:
                vo = st.objs.get(v.obj)
                st.ghost['end'] = v.off
                st.ghost['end_in_text'] = 1 if (vo is not None and vo.info.get('desc', '').startswith('C string')) else 0
            else:
                st.ghost['end_in_text'] = 0
                st.ghost.pop('end', None)
