"""C02 igris::vector (+ flat_map / flat_set): capacity/size invariant, allocation == recorded capacity,
every element access inside the allocation, ownership of the heap block."""
from common import *
from absval import PtrVal, IntVal
from lin import Lin
from c14 import VTR_EXT, SZ_VTR
from irlib import demangle1

CAP = 1 << 26


def vec_spec(esz):
    return StructSpec('igris::vector', inv=['m_size >= 0', 'm_size <= m_capacity', 'm_capacity <= %d' % CAP],
                      owns={'m_data': 'm_capacity * %d' % esz}, nullable=('m_data',))


def data_ptr(st, sp):
    """PtrVal stored in this->m_data"""
    o = sp[1]
    for (k, v) in st.mem.items():
        if k[0] == o.id and k[1] == 0 and k[2] == 8:
            return v
    raise AnalysisBroken('m_data cell not found')


def own_iters(esz, *names):
    """iterator parameters point into this vector's buffer at element positions 0 <= i1 <= i2 <= ... <= size"""
    def setup(run, st, env, pnames, args, sps):
        this = [sp for sp in sps if sp[0] == 'this'][0]
        d = data_ptr(st, this)
        prev = None
        for nm in names:
            x = st.fresh_int(64, False, nm + '_idx')
            if prev is not None:
                st.cons.add_le(prev, x.u)
            st.cons.add_le(x.u, this[3]['m_size'])
            prev = x.u
            args[pnames.index(nm)] = PtrVal(d.obj, x.u * esz, None, None, True)
            env.bind(nm + '_idx', x.u)
    return setup


def foreign_range(esz, a, b):
    def setup(run, st, env, pnames, args, sps):
        n = st.fresh_int(64, False, 'range_len')
        st.cons.add_le(n.u, CAP)
        o = st.new_obj('param', n.u * esz, 'range', {'desc': 'source range [%s,%s)' % (a, b)})
        args[pnames.index(a)] = PtrVal(o.id, Lin(0))
        args[pnames.index(b)] = PtrVal(o.id, n.u * esz)
        env.bind('range_len', n.u)
    return setup


def ilist(esz, byval):
    def setup(run, st, env, pnames, args, sps):
        i = pnames.index('initializers')
        n = st.fresh_int(64, False, 'il_len')
        st.cons.add_le(n.u, CAP)
        arr = st.new_obj('param', n.u * esz, 'il_array', {'desc': 'initializer_list backing array'})
        lo = st.new_obj('param', Lin(16), 'initializers', {'desc': 'initializer_list object'})
        st.mem[(lo.id, 0, 8)] = PtrVal(arr.id, Lin(0))
        st.mem[(lo.id, 8, 8)] = n
        args[i] = PtrVal(lo.id, Lin(0))
        env.bind('il_len', n.u)
    return setup


def pnames_of(f):
    return [p['name'] for p in f.params]


def table(esz):
    P = pnames_of
    return [
        (lambda f: base_name(f) == 'vector' and P(f) == ['this', 'alloc'], FnSpec(ctor=True)),
        (lambda f: base_name(f) == 'vector' and P(f) == ['this', 'initializers'], FnSpec(ctor=True, setup=ilist(esz, False),
            post=[dict(name='size', then=['m_size_post == il_len'])])),
        (lambda f: base_name(f) == 'vector' and P(f) == ['this', 'other'] and 'EOS' not in f.name and 'OS' not in f.name.split('C2')[-1][:3],
            FnSpec(ctor=True, post=[dict(name='size', then=['this.m_size_post == other.m_size'])])),
        (lambda f: base_name(f) == 'vector' and P(f) == ['this', 'other'],
            FnSpec(ctor=True, post=[dict(name='size', then=['this.m_size_post == other.m_size'])])),
        (lambda f: base_name(f) == 'vector' and P(f) == ['this', 'sz'], FnSpec(ctor=True, pre=['sz <= %d' % CAP],
            post=[dict(name='size', then=['m_size_post == sz'])])),
        (lambda f: base_name(f) == 'vector' and P(f) == ['this', 'a', 'b'], FnSpec(ctor=True, setup=foreign_range(esz, 'a', 'b'),
            post=[dict(name='size', then=['m_size_post == range_len'])])),
        (lambda f: base_name(f) == 'vector' and P(f) == ['this', 'first', 'last'], FnSpec(ctor=True, setup=foreign_range(esz, 'first', 'last'),
            post=[dict(name='size', then=['m_size_post == range_len'])])),
        ('~vector', FnSpec(dtor=True)),
        ('operator=', FnSpec(post=[dict(name='size', then=['this.m_size_post == other.m_size'])])),
        ('front', FnSpec(pre=['m_size >= 1'])),
        ('back', FnSpec(pre=['m_size >= 1'])),
        ('invalidate', FnSpec(post=[dict(name='empty', then=['m_size_post == 0', 'm_capacity_post == 0'])])),
        ('reserve', FnSpec(pre=['sz <= %d' % CAP], post=[dict(name='capacity', then=['m_capacity_post >= sz', 'm_size_post == m_size'])])),
        ('changeBuffer', FnSpec(pre=['sz <= %d' % CAP, 'sz >= m_size'], post=[dict(name='capacity', then=['m_capacity_post == sz', 'm_size_post == m_size'])])),
        ('clear', FnSpec(post=[dict(name='empty', then=['m_size_post == 0'])])),
        ('push_back', FnSpec(pre=['m_size <= %d' % (CAP - 1)], post=[dict(name='size', then=['m_size_post == m_size + 1'])])),
        ('emplace_back', FnSpec(pre=['m_size <= %d' % (CAP - 1)], post=[dict(name='size', then=['m_size_post == m_size + 1'])])),
        ('pop_back', FnSpec(pre=['m_size >= 1'], post=[dict(name='size', then=['m_size_post == m_size - 1'])])),
        ('emplace', FnSpec(pre=['m_size <= %d' % (CAP - 1)], setup=own_iters(esz, 'pos'),
                           post=[dict(name='size', then=['m_size_post == m_size + 1'])])),
        (lambda f: base_name(f) == 'insert' and P(f) == ['this', 'pos', 'value'] and f.params[1]['ty']['k'] == 'ptr',
            FnSpec(pre=['m_size <= %d' % (CAP - 1)], setup=own_iters(esz, 'pos'),
                   post=[dict(name='size', then=['m_size_post == m_size + 1'])])),
        (lambda f: base_name(f) == 'insert' and P(f) == ['this', 'pos', 'value'],
            FnSpec(pre=['m_size <= %d' % (CAP - 1), 'pos >= 0', 'pos <= m_size'],
                   post=[dict(name='size', then=['m_size_post == m_size + 1'])])),
        (lambda f: base_name(f) == 'insert' and P(f) == ['this', 'pos', 'first', 'last'],
            FnSpec(pre=['m_size <= %d' % (CAP // 4)], setup=own_iters(esz, 'pos', 'first', 'last'))),
        ('insert_sorted', FnSpec(pre=['m_size <= %d' % (CAP - 1)], post=[dict(name='size', then=['m_size_post == m_size + 1'])])),
        ('resize', FnSpec(pre=['n <= %d' % CAP], post=[dict(name='size', then=['m_size_post == n'])])),
        (lambda f: base_name(f) == 'erase' and P(f) == ['this', 'newend'], FnSpec(setup=own_iters(esz, 'newend'),
            post=[dict(name='size', then=['m_size_post == newend_idx'])])),
        (lambda f: base_name(f) == 'erase' and P(f) == ['this', 'first', 'last'], FnSpec(setup=own_iters(esz, 'first', 'last'),
            post=[dict(name='size', then=['m_size_post == m_size - (last_idx - first_idx)'])])),
        ('at', FnSpec(post=[dict(name='index-at-or-beyond-size-throws', when=['num >= m_size'], then=[], noreturn=True)])),
        ('operator[]', FnSpec()),
        ('size', FnSpec(post=[dict(name='value', then=['ret == m_size'])])),
        ('capacity', FnSpec(post=[dict(name='value', then=['ret == m_capacity'])])),
    ]


def ext_throw(interp, st, i, args):
    st.bottom = True
    return []


CXX_EXT = {'__cxa_allocate_exception': lambda interp, st, i, args: [(st, interp.unknown_ptr(st, 'exc', True))],
           '__cxa_throw': ext_throw, '__cxa_free_exception': lambda interp, st, i, args: [(st, None)],
           '_ZNSt12out_of_rangeC1EPKc': lambda interp, st, i, args: [(st, None)]}


def tempref_rule(rep, mod, scopes):
    """R-TEMPREF: no member returns the address of one of its own locals (a reference to a temporary)"""
    from c01 import trace_const
    n = 0
    for f in mod.defined():
        if not any(f.scope.startswith(s_) for s_ in scopes) or f.ret.get('k') != 'ptr':
            continue
        n += 1
        bad = None
        for r in f.returns():
            work = [r.ops[0]] if r.ops else []
            seen = set()
            while work:
                v = work.pop()
                root, off = trace_const(f, v)
                if root.k != 'inst' or root.id in seen:
                    continue
                seen.add(root.id)
                i = f.insts[root.id]
                if i.op == 'alloca':
                    bad = i
                elif i.op == 'phi':
                    work.extend(x for (_, x) in i.incoming)
                elif i.op == 'select':
                    work.extend(i.ops[1:])
        rep.inst('R-TEMPREF', f.qualname + sig_suffix(f), 'returns-no-local-address', bad is None,
                 '%s:%d' % (f.file, f.line),
                 None if bad is None else 'returns a reference to its local temporary %s (dangling as soon as the '
                 'function returns)' % (bad.name or bad.id))
    return n


def flat_rules(rep, mod):
    names = {}
    for f in class_methods(mod, 'igris::flat_set<int'):
        if base_name(f) in ('insert', 'count'):
            cal = sorted(set(demangle1(c.callee).split('<')[0] for c in f.calls() if c.callee and
                             ('lower_bound' in c.callee or 'upper_bound' in c.callee or 'find' in c.callee)))
            names[base_name(f)] = (cal, f)
    if set(names) != {'insert', 'count'}:
        raise AnalysisBroken('flat_set::insert/count not instantiated')
    ok = names['insert'][0] == names['count'][0] and names['insert'][0] != []
    # every ordered search of flat_set is handed the container's comparator: the three-argument forms of lower_bound & co
    # compare with operator<, which agrees with _comp for the default std::less only
    def nparams(d):
        depth, cut = 0, None
        for k_, ch in enumerate(d):
            if ch == '<':
                depth += 1
            elif ch == '>':
                depth -= 1
            elif ch == '(' and depth == 0:
                cut = k_
                break
        if cut is None:
            return None
        depth, n = 0, 1
        for ch in d[cut + 1:d.rfind(')')]:
            if ch in '<(':
                depth += 1
            elif ch in '>)':
                depth -= 1
            elif ch == ',' and depth == 0:
                n += 1
        return n
    for f in class_methods(mod, 'igris::flat_set<int'):
        for c in f.calls():
            d = demangle1(c.callee) if c.callee else ''
            if any(d.startswith('std::' + w) or (' std::' + w) in d.split('(')[0] for w in
                   ('lower_bound', 'upper_bound', 'binary_search', 'equal_range')):
                n = nparams(d)
                okc = n is not None and n >= 4
                rep.inst('R-FLATSEARCH', f.qualname + sig_suffix(f), 'ordered-search-uses-the-container-comparator', okc, c.where(),
                         None if okc else '%s is called without the comparator of the set: it orders with operator<, the other '
                         'members with _comp - they disagree for every comparator but std::less' % d.split('<')[0])
    rep.inst('R-FLATSEARCH', 'igris::flat_set<int>', 'insert-and-count-use-the-same-search', ok,
             '%s:%d' % (names['insert'][1].file, names['insert'][1].line),
             None if ok else 'insert positions with %s but count looks up with %s' % (names['insert'][0], names['count'][0]),
             fact={'insert': names['insert'][0], 'count': names['count'][0]})
    want = {'find': 'find_if', 'at': 'find_if', 'operator[]': 'find_if', 'count': 'count_if', 'emplace': 'find_if',
            'insert': 'find_if'}
    seen = 0
    for f in class_methods(mod, 'igris::flat_map<int'):
        b = base_name(f)
        if b not in want:
            continue
        seen += 1
        cal = [demangle1(c.callee) for c in f.calls() if c.callee]
        # the storage of flat_map is NOT kept sorted (operator[] and emplace append): a lookup has to scan it by key equality
        # (std::find_if / std::count_if today, a hand-written loop is as good - WHICH element it returns is decided by
        # c02_flat on storages in several orders); a search that presupposes ascending keys is wrong whatever its form
        ordered = [x.split('<')[0].split('(')[0] for x in cal
                   if any(('std::' + w) in x for w in ('lower_bound', 'upper_bound', 'binary_search', 'equal_range'))]
        ok = not ordered
        if b == 'insert':
            # insert positions the new element with upper_bound and tests for a duplicate separately: which search serves
            # which purpose is not visible in the call list when the duplicate test is hand-written - c02_flat decides it
            if ordered and not any(('std::' + want[b]) in x for x in cal):
                continue
            ok = True
        rep.inst('R-FLATSEARCH', f.qualname + sig_suffix(f), 'lookup-by-key-equality-scan', ok, '%s:%d' % (f.file, f.line),
                 None if ok else '%s looks the key up with %s, which presupposes ascending keys; the storage of flat_map is in '
                 'insertion order (operator[] and emplace append)' % (b, ', '.join(sorted(set(ordered)))),
                 fact={'scan': 'std::' + want[b] if any(('std::' + want[b]) in x for x in cal) else 'hand-written'})
    if seen < 8:
        raise AnalysisBroken('flat_map lookups instantiated: %d' % seen)


def order_rule(rep, mod):
    """R-VECORDER: operator< is the lexicographic order of the two element sequences and nothing else: its result is the
    value of one element-wise comparison over [begin(), end()) of *this and [begin(), end()) of the argument, in that
    order.  A shortcut on the sizes ("shorter is smaller") disagrees with std::vector for {0,0} < {1}."""
    fs = [f for f in class_methods(mod, 'igris::vector<int') if base_name(f) == 'operator<']
    if len(fs) != 1:
        raise AnalysisBroken('igris::vector<int>::operator< not instantiated (witness out of date)')
    f = fs[0]
    where = '%s:%d' % (f.file, f.line)
    lex = [c for c in f.calls() if c.callee and 'lexicographical_compare' in c.callee]
    if len(lex) != 1:
        raise AnalysisBroken('vector::operator<: expected one std::lexicographical_compare call, found %d (form not recognised)' % len(lex))
    L = lex[0]
    srcs, work, seen = [], [r.ops[0] for r in f.returns() if r.ops], set()
    while work:
        v = work.pop()
        i = f.inst_of(v)
        if i is None:
            srcs.append(v)
            continue
        if i.id in seen:
            continue
        seen.add(i.id)
        if i.op in ('phi', 'zext', 'trunc', 'sext', 'freeze'):
            work.extend(i.ops)
        elif i.op == 'select':
            srcs.append(i.ops[0])
            work.extend(i.ops[1:])
        else:
            srcs.append(v)
    ok = bool(srcs) and all(v.k == 'inst' and v.id == L.id for v in srcs)
    rep.inst('R-VECORDER', f.qualname, 'result-is-the-lexicographic-comparison-alone', ok, where,
             None if ok else 'the value returned is not on every path the result of the element-wise comparison (e.g. a shortcut '
             'on the sizes): vectors of different length are then ordered differently from std::vector, {0,0} < {1} must hold')

    def who(v):
        """(member called, on parameter) for an iterator argument"""
        i = f.inst_of(v)
        if i is None or i.op not in ('call', 'invoke') or not i.ops or i.ops[0].k != 'arg':
            return None
        g = mod.fn(i.callee)
        return (base_name(g) if g is not None else None, i.ops[0].argno)
    got = [who(a) for a in L.ops[:4]]
    want = [('begin', 0), ('end', 0), ('begin', 1), ('end', 1)]
    rep.inst('R-VECORDER', f.qualname, 'compares-this-range-with-argument-range', got == want, L.where(),
             None if got == want else 'the comparison runs over %r, expected begin()/end() of *this then of the argument' % (got,))


def valueinit_rule(rep, mod):
    """R-VALUEINIT: growing a vector of a trivially constructible type value-initialises the new elements (std::vector:
    resize(n) appends default-inserted elements, int() == 0).  Decided for vector<int>::resize on an empty vector with
    n >= 1: some reachable store writes into the element storage (the block in m_data or a freshly allocated one); a resize
    that only moves m_size hands out indeterminate values (`resize(2); resize(5)` shows the old contents)."""
    fs = [f for f in class_methods(mod, 'igris::vector<int') if base_name(f) == 'resize']
    if len(fs) != 1:
        raise AnalysisBroken('igris::vector<int>::resize not instantiated (witness out of date)')
    f = fs[0]
    it = Interp(mod, externals=dict(CXX_EXT))
    hits = []

    def hook(interp, st, inst, p, v):
        if interp.recording == 0 and isinstance(p, PtrVal):
            o = st.objs.get(p.obj)
            if o is not None and o.kind in ('heap', 'deref'):
                hits.append(inst)
    it.store_hook = hook
    run = ContractRun(it, [vec_spec(4)])
    spec = FnSpec(pre=['m_size == 0', 'n >= 1', 'n <= %d' % CAP])
    spec.structs = {'this': vec_spec(4)}
    n = run.run(f.name, spec, fn=f)
    if not n:
        raise AnalysisBroken('vector<int>::resize: no return reachable for an empty vector and n >= 1')
    rep.inst('R-VALUEINIT', f.qualname, 'grow-writes-the-new-elements', bool(hits), '%s:%d' % (f.file, f.line),
             None if hits else 'resize(n) on an empty vector<int> with n >= 1 returns without a single write into the element '
             'storage: the new elements are not value-initialised (std::vector gives 0; here they show whatever the storage held, '
             'e.g. reserve(8), push 11..66, resize(2), resize(5) reads 11 22 33 44 55)', fact={'stores': len(hits)})


def run(rep, repo, tier):
    rep.explanation = (
        'Abstract interpretation of every instantiated member of igris::vector<int> and igris::vector<VTr> (probe '
        'element whose special members are external calls on the slot address) under the class invariant '
        'm_size <= m_capacity with m_data owning m_capacity*sizeof(T) bytes (or being null): the invariant and the '
        'ownership (the block stored in m_data really has the recorded capacity) are re-established by every '
        'constructor and method, every element read/write/construct/destroy/assign lies inside the allocation, size '
        'bookkeeping equals the definition (push +1, pop -1, resize n, erase range, ...). Equality of the element '
        'sequence with std::vector is not decided by this check.')
    rep.assumptions += ['iterator arguments point into the vector with positions <= size (insert/erase/emplace)',
                        'sizes up to 2^26 elements', 'operator new does not return null']
    mod = compile_ir(os.path.join(WIT, 'w_vector.cpp'), repo, exceptions=True)
    rep.units.append('witness/w_vector.cpp -> igris/container/vector.h, igris/util/ctrdtr.h')
    ext = dict(CXX_EXT)
    today = ('at', 'back', 'begin', 'capacity', 'changeBuffer', 'clear', 'data', 'emplace', 'emplace_back', 'empty', 'end', 'erase',
             'front', 'insert', 'insert_sorted', 'invalidate', 'operator!=', 'operator<', 'operator=', 'operator==', 'operator[]',
             'pop_back', 'push_back', 'rbegin', 'rend', 'reserve', 'resize', 'size', 'vector', '~vector')
    run_class(rep, 'R-VEC', mod, 'igris::vector<int', vec_spec(4), table(4), FnSpec(), externals=ext, min_methods=40, today=today)
    ext2 = dict(CXX_EXT)
    ext2.update(VTR_EXT)
    run_class(rep, 'R-VEC', mod, 'igris::vector<VTr', vec_spec(SZ_VTR), table(SZ_VTR), FnSpec(), externals=ext2,
              min_methods=35, today=today)
    from irlib import keep_known_members
    flat_known = ('at', 'operator=', 'operator[]', 'begin', 'cbegin', 'cend', 'clear', 'count', 'empty', 'end', 'find', 'flat_map',
                  'flat_set', 'insert', 'max_size', 'rbegin', 'rend', 'reserve', 'size', 'swap', 'emplace', 'erase', 'contains',
                  'lower_bound', 'upper_bound', 'data')
    # member helpers a refactoring may introduce (e.g. a shared private locate()) are folded into their callers
    modf = compile_ir(os.path.join(WIT, 'w_flat.cpp'), repo, exceptions=True,
                      inline=keep_known_members(('igris::flat_map<', 'igris::flat_set<'), flat_known))
    rep.units.append('witness/w_flat.cpp -> igris/container/flat_map.h, flat_set.h')
    tempref_rule(rep, modf, ['igris::flat_map<', 'igris::flat_set<'])
    tempref_rule(rep, mod, ['igris::vector<'])
    order_rule(rep, mod)
    rep.floor('R-VECORDER', 2)
    valueinit_rule(rep, mod)
    rep.floor('R-VALUEINIT', 1)
    flat_rules(rep, modf)
    rep.floor('R-TEMPREF', 10)
    rep.floor('R-FLATSEARCH', 7)
    rep.floor('R-VEC:invariant', 150)
    rep.floor('R-VEC:ownership', 60)
    rep.floor('R-VEC:bounds', 40)
    rep.floor('R-VEC:post', 30)
    import c02_life
    c02_life.run_life(rep, repo, tier)
    import c14_ident
    c14_ident.run_ext_vec(rep, repo, tier)
    import c02_flat
    c02_flat.run_ext(rep, repo, tier)
