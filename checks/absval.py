"""Abstract values and abstract state for the IR abstract interpreter."""
from lin import Lin, Cons, _L


class IntVal:
    """integer SSA value of width w.  u = linear form of its unsigned
    interpretation, s = linear form of its signed interpretation; either may
    be None when not known to be expressible."""
    __slots__ = ('w', 'u', 's', 'pint')

    def __init__(self, w, u=None, s=None, pint=None):
        self.w = w
        self.u = u
        self.s = s
        self.pint = pint   # PtrVal when this integer is ptrtoint(p)

    def const(self):
        if self.u is not None and self.u.is_const():
            return self.u.c
        if self.s is not None and self.s.is_const():
            return self.s.c % (1 << self.w)
        return None

    def sconst(self):
        c = self.const()
        if c is None:
            return None
        return c - (1 << self.w) if c >= (1 << (self.w - 1)) else c

    def __repr__(self):
        return 'i%d(u=%r,s=%r)' % (self.w, self.u, self.s)


def mk_const(w, v):
    v %= (1 << w)
    sv = v - (1 << w) if v >= (1 << (w - 1)) and w > 1 else v
    return IntVal(w, Lin(v), Lin(sv))


class PtrVal:
    """pointer = object + byte offset (+ optional sub-object window [lo,hi)
    relative to the object base). obj None = null pointer."""
    __slots__ = ('obj', 'off', 'lo', 'hi', 'nonnull')

    def __init__(self, obj, off=None, lo=None, hi=None, nonnull=True):
        self.obj = obj
        self.off = off if off is not None else Lin(0)
        self.lo = lo
        self.hi = hi
        self.nonnull = nonnull

    @property
    def is_null(self):
        return self.obj is None

    def moved(self, off, lo='keep', hi='keep'):
        return PtrVal(self.obj, off, self.lo if lo == 'keep' else lo,
                      self.hi if hi == 'keep' else hi, self.nonnull)

    def __repr__(self):
        if self.obj is None:
            return 'null'
        return '&%s[%r]%s' % (self.obj, self.off, '' if self.nonnull else '?')


NULL = PtrVal(None)


class CondVal:
    """i1 value kept symbolically: ('cmp', pred, a, b, ka, kb) | ('not', c) |
    ('and', c1, c2) | ('or', c1, c2) | ('const', bool) | ('unknown',)"""
    __slots__ = ('k', 'args')

    def __init__(self, k, *args):
        self.k = k
        self.args = args

    def __repr__(self):
        return 'cond(%s,%r)' % (self.k, self.args)


class FloatVal:
    __slots__ = ('c',)

    def __init__(self, c=None):
        self.c = c

    def __repr__(self):
        return 'fp(%r)' % (self.c,)


class AggVal:
    __slots__ = ('elems',)

    def __init__(self, elems):
        self.elems = elems


class Top:
    def __repr__(self):
        return 'T'


TOP = Top()


class Obj:
    """abstract memory object descriptor"""
    __slots__ = ('id', 'kind', 'size', 'info')

    def __init__(self, id, kind, size=None, info=None):
        self.id = id
        self.kind = kind      # param, alloca, global, heap, deref, unknown
        self.size = size      # Lin (bytes) or None when unknown
        self.info = info or {}

    def __repr__(self):
        return str(self.id)


class State:
    """path state: constraints + memory cells + frame environments"""
    _sym_counter = [0]

    def __init__(self):
        self.cons = Cons()
        self.mem = {}      # (objid, off:int, size:int) -> absval
        self.smashed = {}  # objid -> True when a variable-offset store happened
        self.frames = [{}]
        self.objs = {}     # objid -> Obj  (shared registry semantics, copied shallow)
        self.bottom = False
        self.notes = []    # trace of decisions (for witness output)
        self.written = None  # optional set collecting written cells (loop analysis)
        self.ghost = {}    # free-form analysis data (e.g. lock depth)
        self.conv = {}     # memo of signed<->unsigned conversions
        self.diseq = {}    # canonical key of d -> Lin d  meaning d != 0

    def fork(self):
        s = State.__new__(State)
        s.cons = self.cons.copy()
        s.mem = dict(self.mem)
        s.smashed = dict(self.smashed)
        s.frames = [dict(f) for f in self.frames]
        s.objs = self.objs  # registry is append-only: share
        s.bottom = self.bottom
        s.notes = list(self.notes)
        s.written = self.written
        s.ghost = dict(self.ghost)
        s.conv = dict(self.conv)
        s.diseq = dict(self.diseq)
        return s

    @property
    def env(self):
        return self.frames[-1]

    @classmethod
    def fresh_name(cls, hint='t'):
        cls._sym_counter[0] += 1
        return '%s#%d' % (hint, cls._sym_counter[0])

    def fresh_int(self, w, signed=False, hint='t'):
        n = self.fresh_name(hint)
        x = Lin.sym(n)
        if signed:
            self.cons.add_le(-(1 << (w - 1)), x)
            self.cons.add_le(x, (1 << (w - 1)) - 1)
            return IntVal(w, None, x)
        self.cons.add_le(0, x)
        self.cons.add_le(x, (1 << w) - 1)
        return IntVal(w, x, None)

    def new_obj(self, kind, size=None, hint=None, info=None):
        oid = self.fresh_name(hint or kind)
        o = Obj(oid, kind, size, info)
        self.objs[oid] = o
        return o

    @staticmethod
    def canon(d):
        """canonical orientation of a difference d (for d != 0 facts)"""
        if not d.t:
            return d
        k0 = min(d.t.keys(), key=str)
        return d if d.t[k0] > 0 else -d

    def add_diseq(self, a, b):
        d = self.canon(_L(a) - _L(b))
        self.diseq[d.key()] = d

    def known_diseq(self, a, b):
        d = self.canon(_L(a) - _L(b))
        if not d.t:
            return d.c != 0
        return d.key() in self.diseq

    # ---- interpretation helpers ----
    def as_u(self, v):
        """unsigned linear form of IntVal or None"""
        if v.u is not None:
            return v.u
        if v.s is not None:
            if self.cons.entails_le(0, v.s):
                return v.s
        return None

    def as_s(self, v):
        if v.s is not None:
            return v.s
        if v.u is not None:
            if self.cons.entails_le(v.u, (1 << (v.w - 1)) - 1):
                return v.u
        return None

    def force_u(self, v, hint='u'):
        """unsigned form. When only the signed form s is known the exact
        relation u = s + 2^w*k (k in {0,1}, 0 <= u < 2^w) is introduced with a
        fresh carry symbol, memoised per value so that every conversion of
        the same value yields the same form."""
        u = self.as_u(v)
        if u is not None:
            return u
        if v.s is None:
            return self.fresh_int(v.w, False, hint).u
        key = ('u', v.w, v.s.key())
        r = self.conv.get(key)
        if r is None:
            k = self.fresh_int(1, False, 'k' + hint)
            r = v.s + k.u * (1 << v.w)
            self.cons.add_le(0, r)
            self.cons.add_le(r, (1 << v.w) - 1)
            self.conv[key] = r
            self.conv[('s', v.w, r.key())] = v.s
        return r

    def force_s(self, v, hint='s'):
        s = self.as_s(v)
        if s is not None:
            return s
        if v.u is None:
            return self.fresh_int(v.w, True, hint).s
        key = ('s', v.w, v.u.key())
        r = self.conv.get(key)
        if r is None:
            k = self.fresh_int(1, False, 'k' + hint)
            r = v.u - k.u * (1 << v.w)
            self.cons.add_le(-(1 << (v.w - 1)), r)
            self.cons.add_le(r, (1 << (v.w - 1)) - 1)
            self.conv[key] = r
            self.conv[('u', v.w, r.key())] = v.u
        return r
