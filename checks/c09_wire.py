"""C09 helper: wire-grammar extraction.

A small symbolic executor over the JSON IR that walks the *resolved call tree*
of a serializer / deserializer instantiation (igris code and witness code is
inlined, libstdc++ members stay opaque uninterpreted calls) down to the leaf
calls that move bytes (virtual dump_data / load_data / skip of the archive
classes, serializer::dump / deserializer::load of the storage based family).
The result is, per path, an ordered token list

    raw(len)   - len bytes written to / read from the wire
    skip(len)  - len bytes consumed without copying
    nt(T)      - the (separately checked) grammar of another root type T
    loop(n){.} - n repetitions of a token list

with len / n symbolic terms.  Nothing is executed: values are terms, memory is
a map from (base, offset, size) to terms, loops are summarised from one
symbolic iteration and a recognised trip count idiom.

Terms are nested tuples:
  ('c', int)  ('arg', n)  ('ptr', base, off)  ('alloca', uid)  ('load', ptr, size)
  ('wire', k, bits)  ('call', srcname, args...)  ('size', container)
  ('op', name, a, b)  ('icmp', pred, a, b)  ('not', x)  ('select', c, a, b)
  ('zext'|'sext'|'trunc', bits, x)  ('iv'|'lv'|'hv'|'undef', ...)
"""
import itertools
import re

from irlib import AnalysisBroken, VERIF

WITDIR = VERIF + '/witness'


class Unsupported(AnalysisBroken):
    """construct outside the fragment handled by the wire extractor"""


def C(v):
    return ('c', v)


_uid = itertools.count(1)


def is_const(t):
    return t[0] == 'c'


def subterms(t):
    yield t
    if isinstance(t, tuple):
        for x in t[1:]:
            if isinstance(x, tuple):
                for y in subterms(x):
                    yield y


def has_kind(t, kinds):
    return any(isinstance(s, tuple) and s and s[0] in kinds for s in subterms(t))


class St:
    """one path: memory, emitted tokens, path conditions, container size facts"""
    __slots__ = ('mem', 'hav', 'tokens', 'conds', 'sizes', 'nwire')

    def __init__(self):
        self.mem = {}       # base term -> {(off, size): term}
        self.hav = {}       # base term -> havoc id (reads of unknown cells of that base)
        self.tokens = []
        self.conds = []     # (term, polarity)
        self.sizes = {}     # container pointer term -> size term (set by resize/clear)
        self.nwire = [0]    # shared counter (list cell) so that forks keep numbering unique

    def fork(self):
        s = St()
        s.mem = {b: dict(m) for b, m in self.mem.items()}
        s.hav = dict(self.hav)
        s.tokens = list(self.tokens)
        s.conds = list(self.conds)
        s.sizes = dict(self.sizes)
        s.nwire = self.nwire
        return s


def ptr_parts(p):
    if p[0] == 'ptr':
        return p[1], p[2]
    return p, 0


def mkptr(base, off):
    if base[0] == 'ptr':
        return mkptr(base[1], base[2] + off)
    return ('ptr', base, off)


class Frame:
    def __init__(self, f, args, stack):
        self.f = f
        self.args = args
        self.vals = {}
        self.uid = next(_uid)
        self.loops = []         # active loop contexts (innermost last)
        self.stack = stack
        self.headers = {L['header']: L for L in f.loops}


class Leaf:
    """what counts as a byte-moving leaf.
    virtual: slot name -> kind ('write'|'read'|'skip'|'pure'), args (this, ptr, len) / (this, len)
    direct : predicate(fn) -> kind or None"""

    def __init__(self, virtual, direct):
        self.virtual = virtual
        self.direct = direct


class Exec:
    def __init__(self, mod, repo, leaf, nt_funcs=None, start=None, max_depth=40):
        self.mod = mod
        self.repo = repo.rstrip('/') + '/'
        self.leafspec = leaf
        self.nt_funcs = nt_funcs or {}
        self.start = start
        self.max_depth = max_depth
        self._vt = None
        self.assumed = set()

    # ------------------------------------------------------------------ helpers
    def inlineable(self, f):
        return (not f.decl) and (f.file.startswith(self.repo) or f.file.startswith(WITDIR))

    def vtables(self):
        """class name -> [function name per virtual slot] for every vtable in the unit"""
        if self._vt is None:
            self._vt = {}
            for name, g in self.mod.globals.items():
                if not name.startswith('_ZTV') or not isinstance(g.get('init'), list):
                    continue
                rows = g['init'][0] if g['init'] and isinstance(g['init'][0], list) else None
                if rows is None:
                    continue
                slots = []
                for e in rows[2:]:
                    fn = None
                    if isinstance(e, dict):
                        if e.get('k') == 'func':
                            fn = e['name']
                        elif e.get('k') == 'cexpr' and e.get('ops') and e['ops'][0].get('k') == 'func':
                            fn = e['ops'][0]['name']
                    slots.append(fn)
                self._vt[name] = slots
        return self._vt

    def bases(self, vtsym):
        """transitive RTTI bases of the class of a vtable symbol, as vtable symbols"""
        out = set()
        todo = ['_ZTI' + vtsym[4:]]
        while todo:
            ti = todo.pop()
            g = self.mod.globals.get(ti)
            if g is None:
                continue
            for ref in _global_refs(g.get('init')):
                if ref.startswith('_ZTI') and ref != ti and ('_ZTV' + ref[4:]) not in out:
                    out.add('_ZTV' + ref[4:])
                    todo.append(ref)
        return out

    def slot_name(self, slot, this_ty):
        """source name of the virtual function in 'slot' of the hierarchy rooted at the static class
        this_ty: read from the vtables of the classes that (by their RTTI) derive from it"""
        vts = self.vtables()
        cls = this_ty.rstrip('*').strip('%"')
        cls = cls.split('.', 1)[1] if '.' in cls else cls
        base = [name for name in vts if _vt_class(name) == cls]
        if not base:
            raise Unsupported('virtual call on %s: no vtable of that class in the unit' % cls)
        names = set()
        for name, slots in vts.items():
            if name != base[0] and base[0] not in self.bases(name):
                continue
            if slot >= len(slots):
                continue
            fn = slots[slot]
            if fn in (None, '__cxa_pure_virtual'):
                continue
            f = self.mod.fn(fn)
            names.add(f.srcname if f is not None and f.srcname else fn)
        if len(names) != 1:
            raise Unsupported('virtual slot %d of %s resolves to %s' % (slot, cls, sorted(names)))
        return next(iter(names))

    # ------------------------------------------------------------------ values
    def val(self, fr, v):
        k = v.k
        if k == 'inst':
            if v.id not in fr.vals:
                raise Unsupported('value %%%d of %s used before its definition on this path' % (v.id, fr.f.name))
            return fr.vals[v.id]
        if k == 'arg':
            return fr.args[v.argno]
        if k == 'ci':
            return C(v.ival)
        if k == 'null':
            return C(0)
        if k in ('global', 'func'):
            return ('global', v.name)
        if k == 'undef':
            return ('undef', 0)
        return ('opaque', k, id(v.d))

    def load(self, st, p, size):
        base, off = ptr_parts(p)
        m = st.mem.get(base)
        if m is not None:
            if (off, size) in m:
                return m[(off, size)]
            for (o, s) in m:
                if isinstance(s, int) and o < off + size and off < o + s:
                    return ('partial', next(_uid))
        if base in st.hav:
            return ('hv', st.hav[base], off, size)
        if base[0] == 'alloca':
            return ('undef', base[1], off)
        return ('load', mkptr(base, off), size)

    def store(self, st, p, size, v):
        base, off = ptr_parts(p)
        m = st.mem.setdefault(base, {})
        for (o, s) in list(m):
            if isinstance(s, int) and o < off + size and off < o + s:
                del m[(o, s)]
        m[(off, size)] = v

    def havoc(self, st, p):
        base, _ = ptr_parts(p)
        st.mem[base] = {}
        st.hav[base] = next(_uid)

    # ------------------------------------------------------------------ execution
    def run(self, f, args, st, stack=()):
        """-> [(St, return term)]"""
        if len(stack) > self.max_depth:
            raise Unsupported('call depth exceeded at %s' % f.name)
        fr = Frame(f, list(args), stack + ((f.qualname, f.file, f.line),))
        outs = self.run_block(fr, f.entry, None, st)
        res = []
        for (s, kind, payload) in outs:
            if kind != 'ret':
                raise Unsupported('loop back edge escaped its loop in %s' % f.name)
            res.append((s, payload))
        return res

    def run_block(self, fr, b, prev, st, preset_phis=False):
        """-> [(St, 'ret', value) | (St, 'back', header)]"""
        f = fr.f
        while True:
            if b in fr.headers and not preset_phis and not any(c['L']['header'] is b for c in fr.loops):
                return self.run_loop(fr, b, prev, st)
            for i in b.insts:
                op = i.op
                if op == 'dbg':
                    continue
                if op == 'phi':
                    if preset_phis:
                        continue
                    got = None
                    for (bb, v) in i.incoming:
                        if prev is not None and bb == prev.name:
                            got = self.val(fr, v)
                    if got is None:
                        raise Unsupported('phi without incoming value for the path in %s' % f.name)
                    fr.vals[i.id] = got
                    continue
                if op in ('br', 'ret', 'switch', 'unreachable', 'invoke'):
                    break
                self.step(fr, i, st)
                if isinstance(fr.vals.get(i.id), list):
                    # an inlined call forked: continue each outcome separately
                    forks = fr.vals[i.id]
                    outs = []
                    rest = b.insts[i.idx + 1:]
                    for (s2, rv) in forks:
                        fr2 = self.clone_frame(fr)
                        fr2.vals[i.id] = rv
                        outs.extend(self.run_rest(fr2, b, rest, prev, s2))
                    return outs
            preset_phis = False
            t = b.term
            nxt = self.terminator(fr, b, t, st)
            if isinstance(nxt, list):
                return nxt
            prev, b = b, nxt

    def clone_frame(self, fr):
        fr2 = Frame(fr.f, fr.args, fr.stack[:-1])
        fr2.vals = dict(fr.vals)
        fr2.uid = fr.uid
        fr2.loops = fr.loops
        return fr2

    def run_rest(self, fr, b, rest, prev, st):
        for i in rest:
            if i.op == 'dbg':
                continue
            if i.op in ('br', 'ret', 'switch', 'unreachable', 'invoke'):
                break
            self.step(fr, i, st)
            if isinstance(fr.vals.get(i.id), list):
                forks = fr.vals[i.id]
                outs = []
                rest2 = b.insts[i.idx + 1:]
                for (s2, rv) in forks:
                    fr2 = self.clone_frame(fr)
                    fr2.vals[i.id] = rv
                    outs.extend(self.run_rest(fr2, b, rest2, prev, s2))
                return outs
        nxt = self.terminator(fr, b, b.term, st)
        if isinstance(nxt, list):
            return nxt
        return self.run_block(fr, nxt, b, st)

    def terminator(self, fr, b, t, st):
        """-> next block, or a list of outcomes"""
        f = fr.f
        if t.op == 'ret':
            return [(st, 'ret', self.val(fr, t.ops[0]) if t.ops else None)]
        if t.op == 'unreachable':
            return []
        if t.op != 'br':
            raise Unsupported('terminator %s in %s' % (t.op, f.name))
        tb = f.bmap[t.d['t']]
        if 'f' not in t.d:
            return self.goto(fr, b, tb, st)
        fb = f.bmap[t.d['f']]
        c = self.val(fr, t.ops[0])
        pol = True
        while c[0] == 'not':
            c, pol = c[1], not pol
        if is_const(c):
            taken = tb if (bool(c[1] & 1) == pol) else fb
            return self.goto(fr, b, taken, st)
        # loop exit test?
        if fr.loops:
            ctx = fr.loops[-1]
            L = ctx['L']
            tin, fin = tb in L['blocks'], fb in L['blocks']
            if b in L['blocks'] and tin != fin:
                stay, leave = (tb, fb) if tin else (fb, tb)
                ctx['exits'].append({'cond': c, 'stay': pol if tin else (not pol), 'to': leave, 'from': b,
                                     'st': st.fork(), 'vals': dict(fr.vals)})
                return self.goto(fr, b, stay, st)
            if b in L['blocks'] and not tin and not fin:
                raise Unsupported('loop in %s is left by a two-way branch' % f.name)
        outs = []
        for (blk, p) in ((tb, pol), (fb, not pol)):
            s2 = st.fork()
            s2.conds.append((c, p))
            fr2 = self.clone_frame(fr)
            o = self.goto(fr2, b, blk, s2)
            outs.extend(o if isinstance(o, list) else self.run_block(fr2, o, b, s2))
        return outs

    def goto(self, fr, b, nb, st):
        if fr.loops:
            ctx = fr.loops[-1]
            L = ctx['L']
            if nb is L['header'] and b in L['blocks']:
                ctx['latch_vals'].append(dict(fr.vals))
                return [(st, 'back', nb)]
            if b in L['blocks'] and nb not in L['blocks']:
                raise Unsupported('loop in %s is left by an unconditional jump (break)' % fr.f.name)
        return nb

    # ------------------------------------------------------------------ loops
    def run_loop(self, fr, H, prev, st):
        f = fr.f
        L = fr.headers[H]
        phis = [i for i in H.insts if i.op == 'phi']
        init = {}
        for p in phis:
            for (bb, v) in p.incoming:
                if prev is not None and bb == prev.name:
                    init[p.id] = self.val(fr, v)
        lid = next(_uid)

        def iterate(st_in):
            ctx = {'L': L, 'exits': [], 'latch_vals': []}
            fr2 = self.clone_frame(fr)
            fr2.loops = fr.loops + [ctx]
            for p in phis:
                fr2.vals[p.id] = ('iv', lid, p.id)
            s = st_in.fork()
            s.tokens = []
            s.conds = []
            outs = self.run_block(fr2, H, None, s, preset_phis=True)
            return outs, ctx

        # pass 1..n: cells written inside the loop are loop variant
        cur = st
        for _ in range(4):
            outs, ctx = iterate(cur)
            changed = False
            nxt = cur.fork()
            for (s, kind, _p) in outs:
                for base, m in s.mem.items():
                    if _younger(base, lid):
                        continue        # local of a frame inlined inside the iteration
                    m0 = cur.mem.get(base, {})
                    if m != m0 or s.hav.get(base) != cur.hav.get(base):
                        if not (base in nxt.hav and nxt.hav[base] == ('loop', lid)):
                            nxt.mem[base] = {}
                            nxt.hav[base] = ('loop', lid)
                            changed = True
                for cpt, sz in s.sizes.items():
                    if _younger(cpt, lid):
                        continue
                    if cur.sizes.get(cpt) != sz:
                        nxt.sizes[cpt] = ('lv', lid, 'size')
                        changed = changed or cur.sizes.get(cpt) != ('lv', lid, 'size')
                for cpt in cur.sizes:
                    if cpt not in s.sizes and cur.sizes[cpt] != ('lv', lid, 'size'):
                        nxt.sizes[cpt] = ('lv', lid, 'size')
                        changed = True
            if not changed:
                break
            cur = nxt
        else:
            raise Unsupported('loop state of %s did not stabilise' % f.name)
        if any(kind != 'back' for (_s, kind, _p) in outs):
            raise Unsupported('return inside a loop of %s' % f.name)
        if len(ctx['exits']) != 1 and outs:
            # every path through the body passes the same exit test once
            ex = ctx['exits']
            if not ex or any(e['from'] is not ex[0]['from'] for e in ex):
                raise Unsupported('loop of %s has %d exit tests' % (f.name, len(ex)))
        if not ctx['exits']:
            raise Unsupported('loop of %s has no recognisable exit' % f.name)
        ex = ctx['exits'][0]
        if grammar_tokens(ex['st'].tokens):
            raise Unsupported('loop of %s moves bytes before its exit test' % f.name)
        alts = [(s.conds, s.tokens) for (s, _k, _p) in outs]
        count = self.trip_count(fr, L, lid, phis, init, ex, ctx, st, alts)
        post = ex['st']
        after = cur.fork()
        after.mem = post.mem
        after.hav = post.hav
        after.sizes = post.sizes
        after.tokens = list(st.tokens) + [{'k': 'loop', 'count': count, 'alts': alts,
                                          'where': H.insts[0].where() if H.insts else '', 'stack': fr.stack}]
        after.conds = list(st.conds)
        for b in L['blocks']:
            for i in b.insts:
                if i.op != 'dbg':
                    fr.vals[i.id] = ('lv', lid, i.id)
        return self.run_block(fr, ex['to'], ex['from'], after)

    def trip_count(self, fr, L, lid, phis, init, ex, ctx, pre, alts):
        c, stay = ex['cond'], ex['stay']
        if c[0] == 'icmp':
            pred, a, b = c[1], strip_ext(c[2]), c[3]
            i0 = init.get(a[2]) if a[0] == 'iv' else None
            if a[0] == 'iv' and a[1] == lid and i0 is not None and is_const(i0) and not has_kind(b, ('iv', 'lv', 'hv')):
                ok_pred = (stay and pred in ('slt', 'ult', 'ne')) or ((not stay) and pred in ('sge', 'uge', 'eq'))
                incl = (stay and pred in ('sle', 'ule')) or ((not stay) and pred in ('sgt', 'ugt'))
                steps = set()
                phi = [p for p in phis if p.id == a[2]][0]
                for lv in ctx['latch_vals']:
                    for (bb, v) in phi.incoming:
                        if fr.f.bmap[bb] in L['blocks']:
                            t = lv.get(v.id) if v.k == 'inst' else None
                            steps.add(t)
                if (ok_pred or incl) and steps == {('op', 'add', a, C(1))}:
                    n = b
                    k = (1 if incl else 0) - i0[1]
                    return n if k == 0 else ('op', 'add', n, C(k))
            # counting down: `for (left = n; left != 0; --left)` / `while (left > 0) { ...; --left; }`: n trips
            if a[0] == 'iv' and a[1] == lid and i0 is not None and not has_kind(i0, ('iv', 'lv', 'hv')) and b == C(0):
                down = (stay and pred in ('ne', 'ugt', 'sgt')) or ((not stay) and pred in ('eq', 'ule', 'sle'))
                steps = set()
                phi = [p for p in phis if p.id == a[2]][0]
                for lv in ctx['latch_vals']:
                    for (bb, v) in phi.incoming:
                        if fr.f.bmap[bb] in L['blocks']:
                            steps.add(lv.get(v.id) if v.k == 'inst' else None)
                if down and steps == {('op', 'add', a, C(-1))}:
                    return i0
        if c[0] == 'call' and len(c) == 4:
            name = c[1]
            if (name.startswith('operator!=') and stay) or (name.startswith('operator==') and not stay):
                A, B = c[2], c[3]
                ia = self.load(pre, A, 8)
                ib = self.load(pre, B, 8)
                if ia[0] == 'call' and ib[0] == 'call' and ia[1] in ('begin', 'cbegin') and ib[1] in ('end', 'cend') \
                        and ia[2:] == ib[2:] and len(ia) == 3:
                    adv = 0
                    bad = False
                    for (_cn, toks) in alts:
                        n = 0
                        for t in toks:
                            if t['k'] == 'call' and t['impure'] and t['args'] and t['args'][0] in (A, B):
                                if t['name'].startswith('operator++') and t['args'][0] == A:
                                    n += 1
                                else:
                                    bad = True
                        adv = max(adv, n)
                        if n != 1:
                            bad = True
                    if not bad and adv == 1:
                        cont = ia[2]
                        return pre.sizes.get(cont, ('size', cont))
        raise Unsupported('loop of %s: trip count idiom not recognised (exit test %s)' % (fr.f.qualname, fmt_term(c)))

    # ------------------------------------------------------------------ instructions
    def step(self, fr, i, st):
        op = i.op
        ops = i.ops
        if op == 'alloca':
            fr.vals[i.id] = ('ptr', ('alloca', fr.uid, i.id), 0)
        elif op in ('bitcast', 'addrspacecast', 'inttoptr', 'ptrtoint', 'freeze'):
            fr.vals[i.id] = self.val(fr, ops[0])
        elif op == 'getelementptr':
            p = self.val(fr, ops[0])
            off = 0
            var = []
            for s in i.d['gep']['steps']:
                if s['k'] == 'field':
                    off += s['off']
                else:
                    from irlib import V
                    idx = self.val(fr, V(s['v']))
                    if is_const(idx):
                        off += idx[1] * s['stride']
                    else:
                        var.append(('op', 'mul', idx, C(s['stride'])) if s['stride'] != 1 else idx)
            if var:
                acc = p
                for v in var:
                    acc = ('padd', acc, v)
                fr.vals[i.id] = mkptr(acc, off) if off else acc
            else:
                fr.vals[i.id] = mkptr(p, off) if (p[0] in ('ptr',) or off) else p
        elif op == 'load':
            p = self.val(fr, ops[0])
            size = i.ty.get('size') or ((i.bits or 8) + 7) // 8
            fr.vals[i.id] = self.load(st, p, size)
        elif op == 'store':
            v = self.val(fr, ops[0])
            p = self.val(fr, ops[1])
            self.store(st, p, i.d.get('store_size') or 8, v)
        elif op in ('zext', 'sext', 'trunc'):
            x = self.val(fr, ops[0])
            bits = i.bits
            if is_const(x):
                v = x[1]
                if op == 'trunc':
                    v &= (1 << bits) - 1
                elif op == 'zext':
                    sb = ops[0].width or i.fn.insts[ops[0].id].bits if ops[0].k == 'inst' else ops[0].width
                    if v < 0 and sb:
                        v += 1 << sb
                fr.vals[i.id] = C(v)
            else:
                fr.vals[i.id] = (op, bits, x)
        elif op in ('add', 'sub', 'mul', 'shl', 'lshr', 'ashr', 'and', 'or', 'xor', 'udiv', 'sdiv', 'urem', 'srem'):
            a, b = self.val(fr, ops[0]), self.val(fr, ops[1])
            if op == 'xor' and i.bits == 1 and is_const(b) and (b[1] & 1):
                fr.vals[i.id] = ('not', a)
            elif is_const(a) and is_const(b) and op in ('add', 'sub', 'mul', 'shl', 'and', 'or', 'xor'):
                x, y = a[1], b[1]
                r = {'add': x + y, 'sub': x - y, 'mul': x * y, 'shl': x << y if 0 <= y < 64 else 0,
                     'and': x & y, 'or': x | y, 'xor': x ^ y}[op]
                fr.vals[i.id] = C(r)
            else:
                fr.vals[i.id] = ('op', op, a, b)
        elif op == 'icmp':
            a, b = self.val(fr, ops[0]), self.val(fr, ops[1])
            if is_const(a) and is_const(b):
                x, y = a[1], b[1]
                p = i.pred
                if p[0] == 'u':
                    w = i.fn.insts[ops[0].id].bits if ops[0].k == 'inst' else (ops[0].width or 64)
                    x &= (1 << (w or 64)) - 1
                    y &= (1 << (w or 64)) - 1
                r = {'eq': x == y, 'ne': x != y, 'lt': x < y, 'le': x <= y, 'gt': x > y, 'ge': x >= y}[p[-2:]]
                fr.vals[i.id] = C(1 if r else 0)
            else:
                fr.vals[i.id] = ('icmp', i.pred, a, b)
        elif op == 'select':
            c, a, b = (self.val(fr, o) for o in ops)
            pol = True
            while c[0] == 'not':
                c, pol = c[1], not pol
            if is_const(c):
                fr.vals[i.id] = a if (bool(c[1] & 1) == pol) else b
            else:
                fr.vals[i.id] = ('select', c, a, b) if pol else ('select', c, b, a)
        elif op == 'call':
            self.call(fr, i, st)
        elif op in ('fadd', 'fsub', 'fmul', 'fdiv', 'fcmp', 'fptosi', 'fptoui', 'sitofp', 'uitofp', 'fpext', 'fptrunc',
                    'extractvalue', 'insertvalue', 'fneg'):
            fr.vals[i.id] = ('opaque', op, fr.uid, i.id)
        else:
            raise Unsupported('instruction %s in %s' % (op, fr.f.name))

    def emit(self, fr, st, i, tok):
        tok['where'] = i.where()
        tok['stack'] = fr.stack
        st.tokens.append(tok)

    def leaf(self, fr, i, st, kind, args, name=''):
        if kind == 'pure':
            fr.vals[i.id] = ('call', 'leaf:' + name, fr.uid, i.id)
            st.tokens.append({'k': 'call', 'name': 'leaf:' + name, 'scope': '', 'args': list(args), 'impure': False,
                              'callee': None, 'where': i.where(), 'stack': fr.stack, 'result': fr.vals[i.id]})
            return
        if kind == 'skip':
            self.emit(fr, st, i, {'k': 'skip', 'len': args[1], 'dir': 'r'})
            return
        p, ln = args[1], args[2]
        tok = {'k': 'raw', 'len': ln, 'ptr': p, 'dir': 'w' if kind == 'write' else 'r', 'val': None, 'wire': None}
        if kind == 'write':
            if is_const(ln):
                tok['val'] = self.load(st, p, ln[1])
        else:
            k = st.nwire[0]
            st.nwire[0] += 1
            if is_const(ln):
                w = ('wire', k, ln[1] * 8)
                tok['wire'] = w
                self.store(st, p, ln[1], w)
            else:
                self.havoc(st, p)
        self.emit(fr, st, i, tok)

    def call(self, fr, i, st):
        args = [self.val(fr, o) for o in i.ops]
        callee = i.callee
        if callee is None:
            # virtual call: load (gep (load (bitcast this)), slot)
            cv = i.callee_v
            slot = None
            if cv.k == 'inst':
                ld = fr.f.insts[cv.id]
                if ld.op == 'load':
                    g = fr.f.inst_of(ld.ops[0])
                    if g is not None and g.op == 'getelementptr':
                        steps = g.d['gep']['steps']
                        if len(steps) == 1 and steps[0]['k'] == 'index' and steps[0]['v'].get('k') == 'ci':
                            slot = steps[0]['v']['v']
                    elif g is not None and g.op == 'load':
                        slot = 0
            if slot is None:
                raise Unsupported('indirect call in %s' % fr.f.name)
            this_v = i.ops[0]
            this_ty = fr.f.params[this_v.argno]['ty']['s'] if this_v.k == 'arg' else fr.f.insts[this_v.id].ty.get('s', '')
            name = self.slot_name(slot, this_ty)
            kind = self.leafspec.virtual.get(name)
            if kind is None:
                raise Unsupported('virtual call to %s in %s' % (name, fr.f.name))
            self.leaf(fr, i, st, kind, args, name)
            return
        if callee.startswith('llvm.'):
            if callee.startswith('llvm.memcpy') or callee.startswith('llvm.memmove'):
                self.copy(st, args[0], args[1], args[2])
            elif callee.startswith('llvm.memset'):
                self.havoc(st, args[0])
            fr.vals[i.id] = ('opaque', callee)
            return
        f = self.mod.fn(callee)
        if f is not None:
            kind = self.leafspec.direct(f)
            if kind is not None:
                self.leaf(fr, i, st, kind, args, f.srcname)
                return
        if callee in self.nt_funcs and callee != self.start:
            obj = args[-1] if not (f.params and f.params[0].get('sret')) else args[0]
            self.emit(fr, st, i, {'k': 'nt', 'type': self.nt_funcs[callee], 'ptr': obj, 'callee': callee})
            if obj[0] == 'ptr' and obj[1][0] == 'alloca' and not callee_is_writer(f):
                self.havoc(st, obj)
            return
        if f is not None and self.inlineable(f):
            res = self.run(f, args, st.fork(), fr.stack)
            if len(res) == 1:
                s2, rv = res[0]
                # adopt the callee's final state in place
                st.mem, st.hav, st.tokens, st.conds, st.sizes = s2.mem, s2.hav, s2.tokens, s2.conds, s2.sizes
                fr.vals[i.id] = rv if rv is not None else ('void',)
            elif not res:
                raise Unsupported('no return path through %s' % callee)
            else:
                fr.vals[i.id] = [(s2, rv if rv is not None else ('void',)) for (s2, rv) in res]
            return
        self.opaque(fr, i, st, f, callee, args)

    def copy(self, st, dst, src, n):
        if not is_const(n):
            self.havoc(st, dst)
            return
        sb, so = ptr_parts(src)
        db, do = ptr_parts(dst)
        m = st.mem.get(sb, {})
        moved = {}
        for (o, s), v in m.items():
            if isinstance(s, int) and so <= o and o + s <= so + n[1]:
                moved[(o - so + do, s)] = v
        dm = st.mem.setdefault(db, {})
        for (o, s) in list(dm):
            if isinstance(s, int) and o < do + n[1] and do < o + s:
                del dm[(o, s)]
        if not moved and sb not in st.mem and sb[0] != 'alloca':
            # copy of unknown memory: cells are loads of the source
            pass
        dm.update(moved)
        if not moved:
            st.hav[db] = ('copy', src, do)

    def opaque(self, fr, i, st, f, callee, args):
        src = (f.srcname if f is not None and f.srcname else None)
        if src is None:
            from irlib import demangle1
            d = demangle1(callee)
            src = d.split('(')[0].split('::')[-1] if d else callee
        scope = f.scope if f is not None else ''
        params = f.params if f is not None else []
        sret = bool(params and params[0].get('sret'))
        is_member = any(p['name'] == 'this' for p in params)
        const_member = callee.startswith('_ZNK')
        impure = is_member and not const_member
        base_src = src.split('<', 1)[0] if not src.startswith('operator') else src
        a = args[1:] if sret else args
        term = ('call', src) + tuple(a)
        std = scope.startswith('std::') or scope.startswith('__gnu_cxx::')
        if std and base_src in ('size', 'length') and const_member and len(a) == 1:
            term = st.sizes.get(a[0], ('size', a[0]))
        elif std and base_src == 'resize' and len(a) >= 2:
            st.sizes[a[0]] = a[1]
        elif std and base_src == 'clear' and len(a) == 1:
            st.sizes[a[0]] = C(0)
        elif std and impure and a and base_src in ('push_back', 'emplace_back', 'insert', 'emplace', 'pop_back',
                                                      'erase', 'append', 'assign', 'operator=', 'operator+=',
                                                      'swap', 'reserve', 'shrink_to_fit'):
            if base_src not in ('reserve', 'shrink_to_fit'):
                st.sizes[a[0]] = ('lv', next(_uid), 'size')
        st.tokens.append({'k': 'call', 'name': src, 'scope': scope, 'args': a, 'impure': impure, 'callee': callee,
                          'where': i.where(), 'stack': fr.stack})
        if impure and a and a[0][0] == 'ptr' and a[0][1][0] == 'alloca':
            # a non-const member may rewrite its object; container size facts are kept in st.sizes
            self.havoc(st, a[0])
        if sret:
            self.havoc(st, args[0])
            b, o = ptr_parts(args[0])
            st.mem.setdefault(b, {})[(o, 'obj')] = term
            fr.vals[i.id] = ('void',)
        else:
            fr.vals[i.id] = term


def _younger(t, lid):
    return any(isinstance(x, tuple) and x and x[0] == 'alloca' and x[1] > lid for x in subterms(t))


def _global_refs(x):
    if isinstance(x, dict):
        if x.get('k') == 'global':
            yield x['name']
        for v in x.values():
            for r in _global_refs(v):
                yield r
    elif isinstance(x, list):
        for v in x:
            for r in _global_refs(v):
                yield r


def callee_is_writer(f):
    n = f.srcname or ''
    return n.startswith('serialize')


def _vt_class(sym):
    from irlib import demangle1
    d = demangle1(sym)
    return d[len('vtable for '):] if d.startswith('vtable for ') else d


def strip_ext(t):
    while t[0] in ('zext', 'sext'):
        t = t[2]
    return t


def grammar_tokens(tokens):
    return [t for t in tokens if t['k'] in ('raw', 'skip', 'nt', 'loop')]


# ---------------------------------------------------------------------------
# normalisation
# ---------------------------------------------------------------------------
class Norm:
    """term normaliser.  Domain assumption (recorded in .used): a container size that is written as a
    16 bit count fits 16 bits (the property is stated for counts up to 65535)."""

    def __init__(self, fits16=(), param_bits=None):
        self.fits16 = set(fits16)
        self.param_bits = param_bits or {}
        self.subst = {}
        self.used = set()

    def bits(self, t):
        k = t[0]
        if k == 'c':
            return max(t[1], 0).bit_length() if t[1] >= 0 else 64
        if k == 'wire':
            return t[2]
        if k == 'N':
            return t[2]
        if k == 'size':
            self.used.add('container sizes fit the 16 bit count')
            return 16
        if k == 'arg':
            return self.param_bits.get(t[1], 64)
        if k in ('zext',):
            return min(t[1], self.bits(t[2]))
        if k == 'trunc':
            return min(t[1], self.bits(t[2]))
        if k == 'sext':
            return 64
        if k == 'load':
            return t[2] * 8 if isinstance(t[2], int) else 64
        if k == 'select':
            return max(self.bits(t[2]), self.bits(t[3]))
        if t in self.fits16:
            return 16
        return 64

    def norm(self, t):
        if not isinstance(t, tuple) or not t:
            return t
        if t in self.subst:
            return self.subst[t]
        k = t[0]
        if k in ('zext', 'sext'):
            return self.norm(t[2])
        if k == 'trunc':
            x = self.norm(t[2])
            while x[0] == 'trunc' and x[1] >= t[1]:
                x = x[2]
            if x in self.fits16 and t[1] >= 16:
                r = x
            elif self.bits(x) <= t[1]:
                r = x
            else:
                r = ('trunc', t[1], x)
            return self.subst.get(r, r)
        if k in ('c', 'arg', 'wire', 'N', 'alloca'):
            return t
        r = (k,) + tuple(self.norm(x) if isinstance(x, tuple) else x for x in t[1:])
        if r[0] == 'op' and r[1] == 'shl' and is_const(r[3]):
            r = ('op', 'mul', r[2], C(1 << r[3][1]))
        return self.subst.get(r, r)

    def lin(self, t):
        """-> (const, {atom: coef})"""
        t = self.norm(t)
        return self._lin(t)

    def _lin(self, t):
        k = t[0]
        if k == 'c':
            return (t[1], {})
        if k == 'op' and t[1] in ('add', 'sub'):
            a, b = self._lin(t[2]), self._lin(t[3])
            s = 1 if t[1] == 'add' else -1
            d = dict(a[1])
            for at, c in b[1].items():
                d[at] = d.get(at, 0) + s * c
            return (a[0] + s * b[0], {at: c for at, c in d.items() if c})
        if k == 'op' and t[1] == 'mul':
            a, b = self._lin(t[2]), self._lin(t[3])
            if not b[1]:
                return (a[0] * b[0], {at: c * b[0] for at, c in a[1].items() if c * b[0]})
            if not a[1]:
                return (b[0] * a[0], {at: c * a[0] for at, c in b[1].items() if c * a[0]})
        return (0, {t: 1})


def lin_key(l):
    return (l[0], tuple(sorted(((repr(a), c) for a, c in l[1].items()))))


def lin_add(a, b):
    d = dict(a[1])
    for at, c in b[1].items():
        d[at] = d.get(at, 0) + c
    return (a[0] + b[0], {at: c for at, c in d.items() if c})


def lin_scale(a, k):
    return (a[0] * k, {at: c * k for at, c in a[1].items() if c * k})


def fmt_term(t):
    if not isinstance(t, tuple):
        return str(t)
    k = t[0]
    if k == 'c':
        return str(t[1])
    if k == 'N':
        return 'N%d' % t[1]
    if k == 'wire':
        return 'w%d' % t[1]
    if k == 'size':
        return 'size(%s)' % fmt_term(t[1])
    if k == 'arg':
        return 'arg%d' % t[1]
    if k == 'ptr':
        return '%s+%d' % (fmt_term(t[1]), t[2]) if t[2] else fmt_term(t[1])
    if k == 'trunc':
        return 'u%d(%s)' % (t[1], fmt_term(t[2]))
    if k in ('zext', 'sext'):
        return fmt_term(t[2])
    if k == 'op':
        sym = {'add': '+', 'sub': '-', 'mul': '*'}.get(t[1], ' %s ' % t[1])
        return '(%s%s%s)' % (fmt_term(t[2]), sym, fmt_term(t[3]))
    if k == 'load':
        return '*(%s)' % fmt_term(t[1])
    if k == 'call':
        return '%s(%s)' % (t[1].split('<')[0], ','.join(fmt_term(x) for x in t[2:]))
    if k == 'alloca':
        return 'local'
    if k == 'padd':
        return '(%s + %s)' % (fmt_term(t[1]), fmt_term(t[2]))
    if k == 'select':
        return '(%s?%s:%s)' % (fmt_term(t[1]), fmt_term(t[2]), fmt_term(t[3]))
    if k == 'icmp':
        sym = {'eq': '==', 'ne': '!=', 'lt': '<', 'le': '<=', 'gt': '>', 'ge': '>='}.get(t[1][-2:], t[1])
        return '%s %s %s' % (fmt_term(t[2]), sym, fmt_term(t[3]))
    return k


def fmt_lin(l):
    parts = []
    for a, c in sorted(l[1].items(), key=lambda x: repr(x[0])):
        parts.append(('%d*' % c if c != 1 else '') + fmt_term(a))
    if l[0] or not parts:
        parts.append(str(l[0]))
    return '+'.join(parts).replace('+-', '-')


class Grammar:
    """canonical byte grammar of one path"""

    def __init__(self, tokens, side, param_bits=None, conds=()):
        self.side = side
        self.nz = Norm((), param_bits)
        self.flat = []          # grammar tokens in DFS order (for N numbering and members)
        self.raw_tokens = grammar_tokens(tokens)
        self._number(self.raw_tokens)
        self.nz.fits16 = fits16_from_conds(conds, self.nz)
        self.items = self._items(self.raw_tokens)

    # N numbering: every fixed-size token gets an ordinal; a later length / count that equals the
    # token's value (writer) or the symbol read by it (reader) is expressed as N<ordinal>
    def _all_terms(self, toks):
        for t in toks:
            if t['k'] in ('raw', 'skip'):
                yield t['len']
            elif t['k'] == 'loop':
                yield t['count']
                for (_c, body) in t['alts']:
                    for x in self._all_terms(grammar_tokens(body)):
                        yield x

    def _number(self, toks):
        order = []

        def walk(ts):
            for t in ts:
                if t['k'] == 'loop':
                    for (_c, body) in t['alts']:
                        walk(grammar_tokens(body))
                else:
                    order.append(t)
        walk(toks)
        self.flat = order
        n = 0
        later = [self.nz.norm(x) for x in self._all_terms(toks)]
        latersub = set()
        for x in later:
            latersub.update(subterms(x))
        k = 0
        for t in order:
            if t['k'] != 'raw' or not is_const(t['len']):
                continue
            t['ord'] = k
            k += 1
            bits = t['len'][1] * 8
            key = None
            if self.side == 'r' and t.get('wire') is not None:
                key = t['wire']
            elif self.side == 'w' and t.get('val') is not None:
                v = self.nz.norm(t['val'])
                if not is_const(v) and v[0] not in ('undef', 'partial', 'hv'):
                    key = v
            if key is not None and key in latersub and key not in self.nz.subst:
                self.nz.subst[key] = ('N', n, bits)
                t['count_id'] = n
                n += 1

    def _items(self, toks):
        out = []
        for t in toks:
            if t['k'] in ('raw', 'skip'):
                it = ('raw', self.nz.lin(t['len']))
            elif t['k'] == 'nt':
                it = ('nt', t['type'])
            else:
                alts = [self._items(grammar_tokens(body)) for (_c, body) in t['alts']]
                cnt = self.nz.lin(t['count'])
                uniq = []
                for a in alts:
                    if a not in uniq:
                        uniq.append(a)
                if len(uniq) == 1 and all(x[0] == 'raw' and not x[1][1] for x in uniq[0]) and uniq[0]:
                    total = sum(x[1][0] for x in uniq[0])
                    it = ('raw', lin_scale(cnt, total))
                else:
                    it = ('loop', cnt, uniq)
            if it[0] == 'raw' and out and out[-1][0] == 'raw':
                out[-1] = ('raw', lin_add(out[-1][1], it[1]))
            else:
                out.append(it)
        return out

    def key(self):
        def k(items):
            r = []
            for it in items:
                if it[0] == 'raw':
                    r.append(('raw', lin_key(it[1])))
                elif it[0] == 'nt':
                    r.append(it)
                else:
                    r.append(('loop', lin_key(it[1]), tuple(k(a) for a in it[2])))
            return tuple(r)
        return k(self.items)

    def text(self, names=None):
        def f(items):
            r = []
            for it in items:
                if it[0] == 'raw':
                    r.append('bytes[%s]' % fmt_lin(it[1]))
                elif it[0] == 'nt':
                    r.append('<%s>' % ((names or {}).get(it[1], it[1])))
                else:
                    r.append('loop %s {%s}' % (fmt_lin(it[1]), ' | '.join(f(a) for a in it[2])))
            return ' '.join(r) if r else '(nothing)'
        return f(self.items)

    def unmerged(self):
        """token level view (no merging): [('raw', lin) | ('nt', T) | ('loop', lin, [...])]"""
        def f(toks):
            out = []
            for t in toks:
                if t['k'] in ('raw', 'skip'):
                    out.append(('raw', lin_key(self.nz.lin(t['len'])), t))
                elif t['k'] == 'nt':
                    out.append(('nt', t['type'], t))
                else:
                    out.append(('loop', lin_key(self.nz.lin(t['count'])), t))
            return out
        return f(self.raw_tokens)


def _nonneg(t):
    return t[0] == 'zext' or (t[0] == 'c' and t[1] >= 0)


def fits16_from_conds(conds, nz):
    """x <u y with y a 16 bit value  =>  x fits 16 bits on this path (signed comparisons of zero-extended
    operands count as unsigned)"""
    out = set()
    for (c, pol) in conds:
        if c[0] != 'icmp':
            continue
        pred = c[1]
        if pred[0] == 's' and not (_nonneg(c[2]) and _nonneg(c[3])):
            continue
        p = pred[-2:] if pred not in ('eq', 'ne') else pred
        a, b = nz.norm(c[2]), nz.norm(c[3])
        if (p in ('lt', 'le') and pol) or (p in ('ge', 'gt') and not pol):
            if nz.bits(b) <= 16:
                out.add(a)
        if (p in ('gt', 'ge') and pol) or (p in ('le', 'lt') and not pol):
            if nz.bits(a) <= 16:
                out.add(b)
    return out
