"""C13 printf engine, floating conversions %f %e %g (print_f of igris/util/printf_impl.c and the way __printf reaches it).

Three engines, all static:
  c13_fi   interval abstract interpretation of print_f with exhaustive loop unrolling (floats as intervals with
           inf/NaN flags): termination of the float loops, every store into the local buffers, defined float -> int
           conversions, classification of inf/NaN before any digit loop, the characters that can be stored
  c13_sx   symbolic execution (linear integer domain of c06_sx) of the emission part: returned count == characters
           emitted, no emission count can be negative, buffer reads of the emission loops (with the cursor ranges proved
           by c13_fi), padding / sign / zero fill / fraction digit count against a closed-form model of ISO C
  IR rules conversion table of __printf (which routine, base, exponent and shortest-form flags, argument fetch),
           rounding step, %g clauses
"""
import time
from c06_common import (unit, SRC, parser_tables, dispatch, vaarg_sites, is_field, where_fn, loopvar_rule,
                        emitter_functions)
from common import AnalysisBroken
from c13_fv import FV, IV, PV, INF, DBL_MAX, vjoin
import c13_fi
import c13_fv
from c13_fi import FI

FLOAT_CONVS = 'fFeEgG'
FAMILY = {'f': (10, 0, 0), 'e': (10, 1, 0), 'g': (10, 0, 1)}       # base, exponent form, shortest form
INTMAX = (1 << 31) - 1
ALLOWED = set(b'0123456789.+-eE\0')
ROLE_VALUE, ROLE_WIDTH, ROLE_PREC, ROLE_OPS, ROLE_BASE, ROLE_EXP, ROLE_SHORT = 2, 3, 4, 5, 6, 7, 8
FN = 'print_f'


# ----------------------------------------------------------------------------------------------
# conversion table of __printf
# ----------------------------------------------------------------------------------------------
def value_leaves(f, v, depth=0, seen=None):
    """leaves of the float value v through fpext / phi / select and one store -> load pair on a local object"""
    seen = seen if seen is not None else set()
    if v.k != 'inst' or depth > 12:
        return [('other', v.k, None)]
    if v.id in seen:
        return []
    seen.add(v.id)
    i = f.insts[v.id]
    if i.op in ('fpext',):
        return [(k, x, (c or []) + ['fpext']) for (k, x, c) in value_leaves(f, i.ops[0], depth + 1, seen)]
    if i.op in ('fptrunc', 'fneg', 'fadd', 'fsub', 'fmul', 'fdiv'):
        return [('changed', i.op, None)]
    if i.op == 'phi':
        out = []
        for o in i.ops:
            out.extend(value_leaves(f, o, depth + 1, seen))
        return out
    if i.op == 'select':
        return value_leaves(f, i.ops[1], depth + 1, seen) + value_leaves(f, i.ops[2], depth + 1, seen)
    if i.op == 'load':
        root = i.ops[0]
        while root.k == 'inst' and f.insts[root.id].op in ('bitcast', 'getelementptr'):
            root = f.insts[root.id].ops[0]
        if root.k == 'inst' and f.insts[root.id].op == 'alloca':
            # the dominating store of the same type into the same local object
            best = None
            for s in f.all_insts():
                if s.op != 'store' or not f.dominates(s, i):
                    continue
                r2 = s.ops[1]
                while r2.k == 'inst' and f.insts[r2.id].op in ('bitcast', 'getelementptr'):
                    r2 = f.insts[r2.id].ops[0]
                if r2.key() != root.key():
                    continue
                sv = s.ops[0]
                sty = f.insts[sv.id].ty if sv.k == 'inst' else {}
                if sty.get('k') == 'fp' and (best is None or f.dominates(best, s)):
                    best = s
            if best is not None:
                return value_leaves(f, best.ops[0], depth + 1, seen)
        return [('load', i.id, [])]
    return [('other', i.op, None)]


def convset_rule(rep, mod, T, D):
    """R-CONVSET / R-FVAARG: what __printf does for f F e E g G"""
    top = mod.fn('__printf')
    w = where_fn(top)
    fam = {}
    for c in FLOAT_CONVS:
        e = D['table'].get(c)
        calls = e['calls'] if e else []
        ok = len(calls) == 1 and calls[0]['callee'] == FN and not e['handler']
        rep.inst('R-CONVSET', '__printf', '%%%s is formatted by the floating routine' % c, ok, w,
                 None if ok else 'conversion %r leads to %s' % (c, [x['callee'] for x in calls] or 'no formatting routine: the '
                                                                 'directive is echoed or ignored'))
        if not ok:
            continue
        call = calls[0]
        a = call['args']
        base, we, sh = FAMILY[c.lower()]
        for (pos, want, what) in ((ROLE_BASE, base, 'digit base %d' % base),
                                  (ROLE_EXP, we, 'exponent form %s' % ('on' if we else 'off')),
                                  (ROLE_SHORT, sh, 'shortest form %s' % ('on' if sh else 'off'))):
            got = a[pos] if pos < len(a) else None
            okk = got is not None and (got == want if pos == ROLE_BASE else bool(got) == bool(want))
            rep.inst('R-CONVSET', '__printf', '%%%s: %s' % (c, what), okk, call['call'].where(),
                     None if okk else 'the routine receives %r for this parameter when the conversion is %r (ISO C: %s)'
                     % (got, c, what), fact={'conv': c, 'param': pos, 'value': got})
        up = bool(call['extra_bits'] & (T['upper'] or 0))
        okk = up == c.isupper()
        rep.inst('R-CONVSET', '__printf', '%%%s: upper-case bit %s' % (c, 'set' if c.isupper() else 'clear'), okk,
                 call['call'].where(), None if okk else 'directive word bits added for %r: %#x' % (c, call['extra_bits']))
        okk = is_field(call['srcs'][ROLE_WIDTH], D['width_atoi']) and is_field(call['srcs'][ROLE_PREC], D['prec_atoi'])
        rep.inst('R-CONVSET', '__printf', '%%%s: width and precision are the parsed fields' % c, okk, call['call'].where(),
                 None if okk else 'width comes from %s, precision from %s' % (sorted(call['srcs'][ROLE_WIDTH], key=str),
                                                                             sorted(call['srcs'][ROLE_PREC], key=str)))
        leaves = value_leaves(top, call['call'].ops[ROLE_VALUE])
        loads = [x for x in leaves if x[0] == 'load']
        okk = bool(loads) and len(loads) == len(leaves)
        rep.inst('R-CONVSET', '__printf', '%%%s: the fetched argument is passed on unchanged' % c, okk, call['call'].where(),
                 None if okk else 'the value handed to the routine is computed through %s' % [x[:2] for x in leaves if x[0] != 'load'])
        if a[ROLE_BASE] is not None:
            fam[c] = (a[ROLE_BASE], int(bool(a[ROLE_EXP])) if a[ROLE_EXP] is not None else None,
                      int(bool(a[ROLE_SHORT])) if a[ROLE_SHORT] is not None else None)
    # argument fetch
    sites = [s for s in vaarg_sites(mod, T) if s['convs'] & set(FLOAT_CONVS)]
    seen = {}
    for s in sites:
        seen.setdefault(s['length'], []).append(s)
    for (ln, bits, what) in (('default', 64, 'double'), ('L', 80, 'long double')):
        ss = seen.get(ln, [])
        ok = len(ss) == 1 and ss[0]['kind'] == 'fp' and ss[0]['bits'] == bits and set(FLOAT_CONVS) <= ss[0]['convs']
        rep.inst('R-FVAARG', '__printf', 'length %s fetches a %s' % (ln if ln != 'default' else '(none)', what), ok,
                 ss[0]['load'].where() if ss else w,
                 None if ok else 'found %s' % [(x['kind'], x['bits'], ''.join(sorted(x['convs']))) for x in ss],
                 fact={'length': ln, 'bits': bits})
    extra = [k for k in seen if k not in ('default', 'L')]
    rep.inst('R-FVAARG', '__printf', 'no other length modifier changes the fetched type', not extra, w,
             None if not extra else 'the floating conversions fetch a different type under length %s' % extra)
    return fam


# ----------------------------------------------------------------------------------------------
# interval interpretation of print_f
# ----------------------------------------------------------------------------------------------
VALUE_CLASSES = {
    'finite': lambda: FV(-DBL_MAX, DBL_MAX),
    'ldbl': lambda: FV(-INF, INF),
    '+inf': lambda: FV(pinf=True),
    '-inf': lambda: FV(ninf=True),
    'nan': lambda: FV(nan=True),
}


def fi_args(f, T, triple, cls, upper=None):
    if len(f.params) != 9 or f.params[ROLE_VALUE]['ty'].get('k') != 'fp':
        raise AnalysisBroken('%s: unexpected signature (anchor changed)' % FN)
    ops = IV(0, 0xffff)
    if upper is not None:
        ops = IV(0, 0xffff, T['upper'], T['upper'] if upper else 0)
    base, we, sh = triple
    return [PV([('handler', 0, 0)]), PV([('data', 0, 0)]), VALUE_CLASSES[cls](), IV(0, INTMAX), IV(0, INTMAX), ops,
            IV.const(base), IV.const(we), IV.const(sh)]


def cstr_of(fi, st, p):
    """exact content of the C string at pointer p in state st, or None"""
    if not isinstance(p, PV) or not p.single:
        return None
    o, off, _ = p.alts[0]
    out = []
    for q in range(off, off + 64):
        if isinstance(o, str) and o.startswith('g:'):
            b = fi.global_bytes(o[2:])
            if b is None or q >= len(b):
                return None
            c = b[q]
        else:
            v = st.mem.get((o, q, 1))
            if not isinstance(v, IV) or v.lo != v.hi:
                return None
            c = v.lo & 0xff
        if c == 0:
            return bytes(out).decode('latin-1')
        out.append(c)
    return None


class FiRun:
    """one run of the interpreter in the context (family, value class)"""

    def __init__(self, mod, T, triple, cls, upper=None):
        self.f = mod.fn(FN)
        self.fi = FI(mod, self.f)
        self.fi.emitters = set(emitter_functions(mod)) - {FN}
        self.tokens = []          # strings handed to an emitting routine
        self.badchars = {}        # store inst id -> offending values
        self.nstores = 0
        self.handler_calls = 0
        self.fi.store_hook = self.on_store
        for n in self.fi.emitters:
            self.fi.call_hooks[n] = self.on_emitter
        self.fi.call_hooks['<param0>'] = self.on_handler
        t0 = time.time()
        self.rets = self.fi.run(fi_args(self.f, T, triple, cls, upper))
        self.seconds = time.time() - t0

    def on_store(self, fi, st, i, p, v):
        if fi.silent or i.d.get('store_size') != 1 or not isinstance(p, PV):
            return
        if not any(isinstance(o, tuple) and (fi.size_of(o) or 0) > 16 for (o, _, _) in p.alts):
            return
        self.nstores += 1
        vals = v.values() if isinstance(v, IV) else None
        if vals is None:
            self.badchars.setdefault(i.id, set()).add('unknown')
            return
        bad = set(x & 0xff for x in vals) - ALLOWED
        if bad:
            self.badchars.setdefault(i.id, set()).update(bad)

    def on_emitter(self, fi, st, i, args):
        if fi.silent:
            return None
        ptrs = [a for a in args[2:] if isinstance(a, PV)]
        if ptrs:
            fi.cstr_len(st, ptrs[0], i)          # records where the terminator of the handed-over text is
        self.tokens.append((cstr_of(fi, st, ptrs[0]) if ptrs else None, i))
        return None

    def on_handler(self, fi, st, i, args):
        if not fi.silent:
            self.handler_calls += 1

    # -- summaries
    def heavy_loops(self):
        order = {b: n for n, b in enumerate(self.f.rpo)}
        out = []
        for n, L in enumerate(sorted(self.f.loops, key=lambda l: order.get(l['header'], 0))):
            info = self.fi.loops.get(L['header'].name)
            if c13_fi.FI.loop_is_heavy(self.fi, L):
                out.append((n + 1, L, info))
        return out

    def failed(self, kinds):
        return [o for o in self.fi.obl.values() if not o['ok'] and o['kind'].split(':')[0] in kinds]


def counted_exit(f, L):
    """the loop has an exit that compares a header counter (constant positive step) with a loop-invariant bound"""
    H = L['header']
    for (src, dst) in L['exits']:
        t = src.term
        if t.op != 'br' or 'f' not in t.d or t.ops[0].k != 'inst':
            continue
        c = f.insts[t.ops[0].id]
        if c.op != 'icmp' or c.pred not in ('slt', 'sle', 'ult', 'ule', 'ne'):
            continue
        ph = f.inst_of(c.ops[0])
        bound = c.ops[1]
        if ph is None or ph.op != 'phi' or ph.block is not H:
            continue
        if bound.k == 'inst' and f.insts[bound.id].block in L['blocks']:
            continue
        if f.bmap[t.d['t']] not in L['blocks']:
            continue
        step_ok = True
        for (bb, v) in ph.incoming:
            if f.bmap[bb] in L['blocks']:
                a = f.inst_of(v)
                if a is None or a.op != 'add' or a.ops[0].key() != ('i', ph.id) or a.ops[1].k != 'ci' or a.ops[1].ival <= 0:
                    step_ok = False
        if step_ok and c.pred != 'ne':
            return True
    return countdown_bound(f, L) is not None


def countdown_bound(f, L):
    """`for (k = n; k > 0; --k)` / `while (k--)`-like forms: a header counter that steps by -1 and is compared with 0 at an
    exit -> its entry value (the trip count), else None"""
    H = L['header']
    for (src, dst) in L['exits']:
        t = src.term
        if t.op != 'br' or 'f' not in t.d or t.ops[0].k != 'inst':
            continue
        c = f.insts[t.ops[0].id]
        if c.op != 'icmp' or c.pred not in ('sgt', 'ugt', 'ne', 'eq', 'sle'):
            continue
        if not (c.ops[1].k == 'ci' and c.ops[1].ival == 0):
            continue
        ph = f.inst_of(c.ops[0])
        if ph is None or ph.op != 'phi' or ph.block is not H:
            continue
        stay = t.d['f'] if c.pred in ('eq', 'sle') else t.d['t']
        if f.bmap[stay] not in L['blocks']:
            continue
        inits, ok = [], True
        for (bb, v) in ph.incoming:
            if f.bmap[bb] in L['blocks']:
                a = f.inst_of(v)
                if a is None or a.op != 'add' or a.ops[0].key() != ('i', ph.id) or a.ops[1].k != 'ci' or a.ops[1].ival != -1:
                    ok = False
            else:
                inits.append(v)
        if ok and len(inits) == 1:
            return inits[0]
    return None


FCMP_TXT = {'oeq': '==', 'ueq': '==', 'one': '!=', 'une': '!=', 'ogt': '>', 'ugt': '>', 'oge': '>=', 'uge': '>=',
            'olt': '<', 'ult': '<', 'ole': '<=', 'ule': '<=', 'eq': '==', 'ne': '!=', 'slt': '<', 'sle': '<=', 'sgt': '>',
            'sge': '>=', 'ugt_': '>'}


def render(f, v, depth=0):
    """source-like rendering of an SSA value (variable names from the debug information)"""
    if v.k == 'ci':
        return str(v.ival)
    if v.k == 'cf':
        return str(v.d.get('v'))
    if v.k == 'arg':
        return f.params[v.argno]['name'] or 'arg%d' % v.argno
    i = f.inst_of(v)
    if i is None or depth > 9:
        return '?'
    if i.op in ('sext', 'zext', 'trunc', 'bitcast', 'fpext', 'fptrunc', 'sitofp', 'uitofp', 'fptosi', 'freeze'):
        return render(f, i.ops[0], depth + 1)
    if i.op == 'load':
        return render(f, i.ops[0], depth + 1).lstrip('&')
    if i.op == 'alloca':
        return '&' + (i.name or 'local')
    if i.op in ('fcmp', 'icmp'):
        return '%s %s %s' % (render(f, i.ops[0], depth + 1), FCMP_TXT.get(i.pred, i.pred), render(f, i.ops[1], depth + 1))
    if i.op == 'phi' and depth < 3 and not any(L['header'] is i.block for L in f.loops):
        return '{%s}' % ' | '.join(sorted(set(render(f, o, depth + 2) for o in i.ops)))
    if i.op == 'call' and i.callee:
        return '%s(%s)' % (i.callee.replace('llvm.', '').split('.')[0], ', '.join(render(f, o, depth + 1) for o in i.ops))
    if i.op in ('and', 'or') and i.bits == 1:
        return '%s %s %s' % (render(f, i.ops[0], depth + 1), '&&' if i.op == 'and' else '||', render(f, i.ops[1], depth + 1))
    if i.op == 'select' and i.bits == 1:
        return '(%s ? %s : %s)' % tuple(render(f, o, depth + 1) for o in i.ops)
    if i.op == 'xor' and i.bits == 1:
        return '!(%s)' % render(f, i.ops[0], depth + 1)
    if i.op in ('fadd', 'fsub', 'fmul', 'fdiv', 'add', 'sub', 'mul'):
        return '(%s %s %s)' % (render(f, i.ops[0], depth + 1), {'fadd': '+', 'fsub': '-', 'fmul': '*', 'fdiv': '/', 'add': '+',
                                                               'sub': '-', 'mul': '*'}[i.op], render(f, i.ops[1], depth + 1))
    n = f.var_name(v)
    return n or i.name or ('%%%d' % i.id)


def describe_exits(f, L):
    d = []
    for (src, dst) in L['exits']:
        t = src.term
        if t.op == 'br' and 'f' in t.d:
            d.append(render(f, t.ops[0]))
    return ' | '.join(sorted(set(d)))


def store_sites(run, kinds=('bounds',)):
    return sorted(set((o['inst'].where(), o['detail']) for o in run.failed(kinds)))


def fi_rules(rep, mod, T, fams):
    """R-FTERM, R-FBUF, R-FPCAST, R-FCHARS, R-LDBL, R-NANINF; returns {family: FiRun of the finite class}"""
    f = mod.fn(FN)
    w = where_fn(f)
    runs = {}
    times = {}
    facts = {}
    for fam, triple in fams.items():
        pct = '%' + fam
        facts[fam] = {'ranges': {}, 'cstr_end': {}, 'clean': True}

        def absorb(run, fam=fam):
            """cursor ranges and terminator positions proved in this value class, joined over the classes"""
            fa = facts[fam]
            for k, v in run.fi.ranges.items():
                o = fa['ranges'].get(k)
                fa['ranges'][k] = v if o is None else vjoin(o, v)
            for o, e in run.fi.cstr_end.items():
                if isinstance(o, tuple):
                    fa['cstr_end'][o[1]] = max(fa['cstr_end'].get(o[1], -1), e)
            if run.failed(('bounds', 'cstr')) or any(info['closed'] == 'widened-cap' for info in run.fi.loops.values()):
                fa['clean'] = False        # the ranges of this class are not those of a terminating, in-bounds execution
        # ---------------- every finite double
        r = FiRun(mod, T, triple, 'finite')
        runs[fam] = r
        absorb(r)
        times[pct + ' finite'] = round(r.seconds, 2)
        for (n, L, info) in r.heavy_loops():
            if info is None:
                continue                      # not reached in this family
            desc = describe_exits(f, L)
            if info['closed'] == 'unrolled':
                ok, how = True, 'left after at most %d rounds for every finite double' % info['rounds']
            elif counted_exit(f, L):
                ok, how = True, 'bounded by its counter'
            else:
                ok, how = False, None
            rep.inst('R-FTERM', FN, '%s: loop#%d terminates (exits on %s)' % (pct, n, desc), ok, L['header'].term.where(),
                     None if ok else 'executing the loop on the interval of all finite doubles does not leave it within %d '
                     'rounds and it has no counter: it may not terminate' % c13_fi.CAP,
                     fact={'rounds': info['rounds'], 'how': how})
        bad = r.failed(('bounds', 'cstr'))
        bufs = {}
        for o in r.fi.obl.values():
            if o['kind'].split(':')[0] in ('bounds', 'cstr'):
                bufs.setdefault(o.get('extra') or 'local buffer', []).append(o)
        for bname, obs in sorted(bufs.items(), key=lambda x: str(x[0])):
            fails = [o for o in obs if not o['ok']]
            nm = bname
            if bname.startswith("('a'"):
                i0 = f.insts.get(int(bname.split(',')[1].strip(' )')))
                nm = 'local %s' % (i0.name if i0 is not None and i0.name else bname)
            if not (bname.startswith("('a'")):
                continue
            ok = not fails
            rep.inst('R-FBUF', FN, '%s: every access to %s stays inside it' % (pct, nm), ok,
                     fails[0]['inst'].where() if fails else w,
                     None if ok else 'for some finite double: ' + '; '.join(sorted(set('%s (%s)' % (o['detail'], o['inst'].where().split('/')[-1]) for o in fails)))[:900],
                     fact={'accesses_checked': sum(o['n'] for o in obs), 'sites': len(obs)})
        for o in r.fi.obl.values():
            if o['kind'] == 'fpcast':
                i = o['inst']
                src = render(f, i.ops[0])
                rep.inst('R-FPCAST', FN, '%s: conversion to int of %s is defined' % (pct, src), o['ok'], i.where(), o['detail'])
        ok = not r.badchars and r.nstores > 0
        rep.inst('R-FCHARS', FN, '%s: only digits, point, sign, exponent marker and NUL are stored into the text buffer' % pct,
                 ok, w, None if ok else 'other characters can be stored: %s' %
                 sorted((f.insts[k].where().split('/')[-1], sorted(map(str, v))) for k, v in r.badchars.items()),
                 fact={'stores_examined': r.nstores})
        # ---------------- long double beyond the double range
        r2 = FiRun(mod, T, triple, 'ldbl')
        absorb(r2)
        times[pct + ' ldbl'] = round(r2.seconds, 2)
        nonterm = [n for (n, L, info) in r2.heavy_loops() if info is not None and info['closed'] != 'unrolled' and
                   not counted_exit(f, L)]
        bad2 = r2.failed(('bounds', 'cstr', 'fpcast'))
        ok = not nonterm and not bad2
        rep.inst('R-LDBL', FN, '%s: a long double beyond the double range is formatted safely' % pct, ok, w,
                 None if ok else 'the value is narrowed to double (an infinity beyond its range) after the classification: '
                 + ('loop(s) %s do not terminate; ' % nonterm if nonterm else '') +
                 '; '.join(sorted(set(o['detail'] for o in bad2)))[:600])
        # ---------------- infinities and NaN
        for cls, upper in (('nan', 0), ('nan', 1), ('+inf', 0), ('-inf', 1)):
            r3 = FiRun(mod, T, triple, cls, upper)
            absorb(r3)
            times['%s %s' % (pct, cls)] = round(r3.seconds, 2)
            toks0 = [t for (t, _) in r3.tokens]
            if any(t is None for t in toks0):
                # the word is assembled in a way the interpretation does not follow to a constant text (e.g. copied character by
                # character out of a table): neither "printed as a word" nor "printed as a number" can be claimed
                raise AnalysisBroken('%s: the text printed for %s is not a constant string the analysis can read' % (FN, cls))

            def float_loop(L):
                return any(i.op in ('fadd', 'fsub', 'fmul', 'fdiv', 'frem', 'fcmp') or
                           (i.op == 'call' and (i.callee or '').lstrip('llvm.').startswith(('fmod', 'modf', 'pow', 'fabs', 'round', 'floor', 'ceil', 'log')))
                           for b in L['blocks'] for i in b.insts)
            loops_run = [n for (n, L, info) in r3.heavy_loops() if info is not None and float_loop(L)]
            nonterm = [n for (n, L, info) in r3.heavy_loops() if info is not None and info['closed'] != 'unrolled']
            bad3 = r3.failed(('bounds', 'cstr', 'fpcast'))
            word = cls.lstrip('+-')
            ok = not loops_run and not bad3 and r3.nstores == 0
            rep.inst('R-NANINF', FN, '%s %s: no digit loop is entered' % (pct, cls), ok, w,
                     None if ok else ('the value reaches the digit generation' +
                                      (': loop(s) %s never terminate' % nonterm if nonterm else '') +
                                      ('; ' + '; '.join(sorted(set(o['detail'] for o in bad3)))[:400] if bad3 else '') +
                                      ('' if nonterm or bad3 else ' and is printed as a number')))
            want = word.upper() if upper else word
            toks = [t for (t, _) in r3.tokens]
            ok = bool(toks) and bool(r3.rets) and r3.handler_calls == 0 and all(
                t is not None and t.lstrip('+- ') == want and (t.startswith('-') if cls == '-inf' else not t.startswith('-') or cls == 'nan')
                for t in toks)
            rep.inst('R-NANINF', FN, '%s %s (%s-case conversion) is printed as the word %r' % (pct, cls, 'upper' if upper else 'lower', want),
                     ok, r3.tokens[0][1].where() if r3.tokens else w,
                     None if ok else 'texts handed to the string routine: %r; direct output calls: %d' % (toks, r3.handler_calls),
                     fact={'texts': toks})
    rep.extra['c13_fi_seconds'] = times
    return runs, facts


def prefix_rule(rep, mod):
    """R-PREFIX: the sign text is chosen before the routine looks at its exponent-form / shortest-form parameters, so the
    choice is the same code for %f, %e and %g (the %g context is executed with the '+' and ' ' flags clear)"""
    f = mod.fn(FN)
    pref = None
    for c in f.calls('strlen'):
        leaves = value_slice(f, c.ops[0], ops=('phi', 'select', 'bitcast'))
        consts = []
        okk = c.ops[0].k == 'inst'
        for x in leaves:
            for o in (x.ops[1:] if x.op == 'select' else x.ops):
                if o.k in ('cexpr', 'global'):
                    consts.append(o)
                elif o.k != 'inst' or f.insts[o.id].op not in ('phi', 'select', 'bitcast'):
                    okk = False
        if okk and len(consts) >= 3 and (pref is None or f.dominates(c, pref)):
            pref = c
    if pref is None:
        raise AnalysisBroken('%s: the selection of the sign text was not found (anchor changed)' % FN)
    sel = f.insts[pref.ops[0].id]
    late = []
    for i in f.all_insts():
        if any(o.k == 'arg' and o.argno in (ROLE_EXP, ROLE_SHORT) for o in i.ops) and not f.dominates_block(sel.block, i.block):
            late.append(i)
    ok = not late
    rep.inst('R-PREFIX', FN, 'the sign text is chosen before the conversion family is consulted', ok, sel.where(),
             None if ok else 'the exponent-form / shortest-form parameter is used at %s, not after the selection of the sign text'
             % late[0].where())


def upper_rule(rep, mod, T):
    """R-UPPER: inside the floating routine the upper-case bit of the directive word never decides control flow, it only
    selects between values (letters, words): the layout decided for the lower-case conversions is the layout of F E G"""
    f = mod.fn(FN)
    m = T['upper']
    n = 0
    for i in f.all_insts():
        if i.op != 'and' or not any(o.k == 'ci' and o.ival & m for o in i.ops) or \
                not any(o.k == 'arg' and o.argno == ROLE_OPS for o in i.ops):
            continue
        mask = [o.ival for o in i.ops if o.k == 'ci'][0]
        work = [i]
        seen = set()
        bad = []
        while work:
            x = work.pop()
            if x.id in seen:
                continue
            seen.add(x.id)
            for u in f.users(x):
                if u.op == 'dbg':
                    continue
                if u.op in ('icmp', 'zext', 'sext', 'trunc', 'xor') or (u.op in ('and', 'or') and u.bits == 1):
                    work.append(u)
                elif u.op == 'select' and u.ops[0].k == 'inst' and u.ops[0].id == x.id:
                    continue
                else:
                    bad.append(u)
        n += 1
        ok = not bad and mask == m
        rep.inst('R-UPPER', FN, 'test#%d of the upper-case bit only selects a value' % n, ok, i.where(),
                 None if ok else ('the bit is tested together with other bits (mask %#x)' % mask if mask != m else
                                  'the test decides %s at %s' % (bad[0].op, bad[0].where())))
    return n


# ----------------------------------------------------------------------------------------------
# rounding step (structure of the digit generation)
# ----------------------------------------------------------------------------------------------
FCASTS = ('fpext', 'fptrunc', 'freeze', 'bitcast')


def fstrip(f, v):
    while v.k == 'inst' and f.insts[v.id].op in FCASTS:
        v = f.insts[v.id].ops[0]
    return v


def cell_of_load(f, v):
    """the local scalar cell (alloca inst) a float value is loaded from, through conversions"""
    v = fstrip(f, v)
    i = f.inst_of(v)
    if i is not None and i.op == 'load':
        a = f.inst_of(i.ops[0])
        if a is not None and a.op == 'alloca' and a.d.get('alloc_ty', {}).get('k') == 'fp':
            return a
    return None


def from_arg(f, v, argno):
    v = fstrip(f, v)
    i = f.inst_of(v)
    while i is not None and i.op in ('sitofp', 'uitofp', 'sext', 'zext', 'trunc') + FCASTS:
        v = i.ops[0]
        i = f.inst_of(v)
    return v.k == 'arg' and v.argno == argno


def value_slice(f, v, ops=('trunc', 'zext', 'sext', 'add', 'sub', 'select', 'phi'), limit=40):
    """instructions v is computed from through the given operations"""
    out, work, seen = [], [v], set()
    while work and len(seen) < limit:
        x = work.pop()
        if x.k != 'inst' or x.id in seen:
            continue
        seen.add(x.id)
        i = f.insts[x.id]
        out.append(i)
        if i.op in ops:
            work.extend(i.ops[1:] if i.op == 'select' else i.ops)
    return out


def buffer_root(f, v, depth=0, seen=None):
    """the alloca a pointer is derived from through gep / bitcast / phi"""
    seen = seen if seen is not None else set()
    if v.k != 'inst' or v.id in seen or depth > 30:
        return None
    seen.add(v.id)
    i = f.insts[v.id]
    if i.op == 'alloca':
        return i
    if i.op in ('getelementptr', 'bitcast'):
        return buffer_root(f, i.ops[0], depth + 1, seen)
    if i.op in ('phi', 'select'):
        for o in (i.ops[1:] if i.op == 'select' else i.ops):
            r = buffer_root(f, o, depth + 1, seen)
            if r is not None:
                return r
    return None


def digit_loops(f):
    """[(loop, cell, store)]: loops that store a character computed from  (int)fmod(<cell>, ..)  into a local byte array"""
    out = []
    for L in f.loops:
        for b in L['blocks']:
            for i in b.insts:
                if i.op != 'store' or i.d.get('store_size') != 1:
                    continue
                root = buffer_root(f, i.ops[1])
                if root is None or root.d.get('alloc_ty', {}).get('k') != 'array':
                    continue
                for x in value_slice(f, i.ops[0]):
                    if x.op in ('fptosi', 'fptoui'):
                        c = f.inst_of(fstrip(f, x.ops[0]))
                        if c is not None and c.op == 'call' and (c.callee or '').startswith('fmod'):
                            a = c.ops[0]
                            ai = f.inst_of(fstrip(f, a))
                            if ai is not None and ai.op == 'call' and (ai.callee or '').replace('llvm.', '').startswith('fabs'):
                                a = ai.ops[0]
                            cell = cell_of_load(f, a)
                            if cell is not None:
                                out.append((L, cell, i, c))
    return out


def depends_on_f(f, v, target, depth=0):
    """does value v depend (through arithmetic, selects, phis, casts - not through memory) on instruction `target`?"""
    if v.k != 'inst' or depth > 12:
        return False
    if v.id == target.id:
        return True
    i = f.insts[v.id]
    if i.op in ('load', 'call', 'invoke', 'alloca'):
        return False
    return any(depends_on_f(f, o, target, depth + 1) for o in i.ops)


def stores_to(f, cell):
    return [i for i in f.all_insts() if i.op == 'store' and i.ops[1].k == 'inst' and i.ops[1].id == cell.id]


def round_rule(rep, mod):
    """R-ROUND: the fraction is scaled by base^n, rounded to the nearest integer, a carry out of the fraction is moved
    into the integer part, and exactly the n scaled digits are extracted"""
    f = mod.fn(FN)
    w = where_fn(f)
    dl = digit_loops(f)
    counted = [d for d in dl if counted_exit(f, d[0])]
    if len(counted) != 1:
        raise AnalysisBroken('%s: expected one counted fraction-digit loop, found %d (anchor changed)' % (FN, len(counted)))
    FD, X, fd_store, _ = counted[0]
    later = [d for d in dl if d[0] is not FD and f.dominates_block(FD['header'], d[0]['header'])]
    if len(later) != 1:
        raise AnalysisBroken('%s: expected one integer-digit loop after the fraction digits, found %d' % (FN, len(later)))
    ID, IP, _, _ = later[0]
    # the bound of the fraction digit loop
    bound = None
    for (src, dst) in FD['exits']:
        t = src.term
        if t.op == 'br' and 'f' in t.d and t.ops[0].k == 'inst':
            c = f.insts[t.ops[0].id]
            if c.op == 'icmp' and c.pred in ('slt', 'ult'):
                bound = c.ops[1]
    if bound is None:
        bound = countdown_bound(f, FD)
    # scaling loop: X = X * base
    SC = cnt = None
    for L in f.loops:
        for b in L['blocks']:
            for i in b.insts:
                if i.op == 'store' and i.ops[1].k == 'inst' and i.ops[1].id == X.id:
                    m = f.inst_of(fstrip(f, i.ops[0]))
                    if m is not None and m.op == 'fmul':
                        cells = [cell_of_load(f, o) for o in m.ops]
                        others = [o for o, c_ in zip(m.ops, cells) if c_ is None or c_.id != X.id]
                        if any(c_ is not None and c_.id == X.id for c_ in cells) and len(others) == 1 and \
                                from_arg(f, others[0], ROLE_BASE):
                            SC = L
    if SC is not None:
        for ph in [i for i in SC['header'].insts if i.op == 'phi' and i.ty.get('k') == 'int']:
            for (bb, v) in ph.incoming:
                a = f.inst_of(v)
                if f.bmap[bb] in SC['blocks'] and a is not None and a.op == 'add' and a.ops[0].key() == ('i', ph.id) and \
                        a.ops[1].k == 'ci' and a.ops[1].ival == 1:
                    cnt = ph
    # %g may take back scaled digits that turned out to be zeros: bound = phi(cnt, bound - 1) of a loop that divides the
    # fraction by the base once per digit taken back
    ZS = None
    headers = {L['header']: L for L in f.loops}

    def leaves(v, seen):
        """values merged into v by phis outside loop headers / selects"""
        i = f.inst_of(v)
        if i is None or i.id in seen:
            return []
        seen.add(i.id)
        if (i.op == 'phi' and i.block not in headers) or i.op == 'select':
            out = []
            for o in (i.ops[1:] if i.op == 'select' else i.ops):
                out.extend(leaves(o, seen))
            return out
        return [i]
    direct = False
    if cnt is not None and bound is not None:
        lv = leaves(bound, set())
        direct = bool(lv) and all(x.id == cnt.id for x in lv)
        if not direct and lv and all(x.id == cnt.id or (x.op == 'phi' and x.block in headers) for x in lv):
            good = True
            for bi in [x for x in lv if x.id != cnt.id]:
                L = headers[bi.block]
                inits = [v for (bb, v) in bi.incoming if f.bmap[bb] not in L['blocks']]
                steps = [f.inst_of(v) for (bb, v) in bi.incoming if f.bmap[bb] in L['blocks']]
                init_ok = all(all(x.id == cnt.id for x in leaves(v, set())) and leaves(v, set()) for v in inits)
                step_ok = all(a is not None and a.op == 'add' and a.ops[0].key() == ('i', bi.id) and a.ops[1].k == 'ci' and
                              a.ops[1].ival == -1 for a in steps)
                divs = []
                for b in L['blocks']:
                    for i in b.insts:
                        if i.op == 'store' and i.ops[1].k == 'inst' and i.ops[1].id == X.id:
                            d = f.inst_of(fstrip(f, i.ops[0]))
                            if d is not None and d.op == 'fdiv' and from_arg(f, d.ops[1], ROLE_BASE):
                                divs.append(i)
                if inits and steps and init_ok and step_ok and len(divs) == 1:
                    ZS = L
                else:
                    good = False
            if not good:
                ZS = None
    ok = SC is not None and cnt is not None and (direct or ZS is not None)
    rep.inst('R-ROUND', FN, 'the fraction is multiplied by the digit base once per extracted fraction digit', ok,
             fd_store.where(), None if ok else ('no loop multiplies the fraction by the base parameter' if SC is None else
                                                'the fraction digit loop runs %s times, the scaling loop counts %s'
                                                % (render(f, bound) if bound is not None else '?', cnt.name if cnt else '?')))
    # rounding call
    rounds = []
    for c in f.calls(pred=lambda n: n in c13_fi.ROUND_CALLS):
        cell = cell_of_load(f, c.ops[0])
        if cell is not None and cell.id == X.id and any(fstrip(f, s_.ops[0]).key() == ('i', c.id) for s_ in stores_to(f, X)):
            rounds.append(c)
    good = [c for c in rounds if c13_fi.ROUND_CALLS[c.callee] in ('round', 'rint', 'nearbyint') and
            f.dominates_block(c.block, FD['header']) and (SC is None or (c.block not in SC['blocks'] and
                                                                        f.dominates_block(SC['header'], c.block)))]
    ok = len(good) == 1 and len(rounds) == 1
    R = good[0] if good else None
    rep.inst('R-ROUND', FN, 'the scaled fraction is rounded to the nearest integer before its digits are extracted', ok,
             rounds[0].where() if rounds else w,
             None if ok else ('the scaled fraction is not rounded at all: the last digit is truncated' if not rounds else
                              'the scaled fraction passes through %s, which is not a round-to-nearest placed between the '
                              'scaling and the digit extraction' % [c.callee for c in rounds]),
             fact={'calls': [c.callee for c in rounds]})
    # carry
    carries = []
    for c in f.all_insts():
        if c.op != 'fcmp' or c.pred not in ('oeq', 'ueq', 'one', 'une'):
            continue
        cells = [cell_of_load(f, o) for o in c.ops]
        pows = [f.inst_of(fstrip(f, o)) for o in c.ops]
        pw = [p_ for p_ in pows if p_ is not None and p_.op == 'call' and (p_.callee or '').startswith('pow')]
        if not any(c_ is not None and c_.id == X.id for c_ in cells) or len(pw) != 1:
            continue
        p_ = pw[0]
        e = fstrip(f, p_.ops[1])
        ei = f.inst_of(e)
        eok = ei is not None and ei.op in ('sitofp', 'uitofp') and cnt is not None and ei.ops[0].key() == ('i', cnt.id)
        if from_arg(f, p_.ops[0], ROLE_BASE) and R is not None and f.dominates(R, c):
            carries.append((c, eok))
    incs = []
    for a in f.all_insts():
        if a.op == 'fadd':
            cells = [cell_of_load(f, o) for o in a.ops]
            ones = [o for o in a.ops if o.k == 'cf' and c13_fi.f_from_bits(o.d.get('bitsd', 0)) == 1.0]
            if any(c_ is not None and c_.id == IP.id for c_ in cells) and ones and R is not None and f.dominates(R, a):
                incs.append(a)
    ok = bool(carries) and all(e for (_, e) in carries) and bool(incs)
    rep.inst('R-ROUND', FN, 'a fraction rounded up to base^digits carries into the integer part', ok,
             carries[0][0].where() if carries else w,
             None if ok else ('the rounded fraction is never compared with base^digits' if not carries else
                              ('the comparison uses another exponent than the number of scaled digits' if not all(e for (_, e) in carries)
                               else 'the integer part is never incremented after the rounding')))
    zeroed = []
    for s_ in stores_to(f, X):
        # a store of zero to the fraction after the rounding that can reach the fraction-digit loop: unconditional with a
        # select/phi of zero, or a conditional `if (carry) fp = 0`
        if R is None or not f.dominates(R, s_) or FD['header'] not in f.reachable_blocks(s_.block):
            continue
        v0 = fstrip(f, s_.ops[0])
        if v0.k == 'cf' and c13_fi.f_from_bits(v0.d.get('bitsd', 1)) == 0.0:
            zeroed.append(s_)
            continue
        leaves = value_slice(f, v0, ops=('select', 'phi') + FCASTS)
        consts = []
        for x in leaves:
            for o in (x.ops[1:] if x.op == 'select' else x.ops):
                if o.k == 'cf' and c13_fi.f_from_bits(o.d.get('bitsd', 1)) == 0.0:
                    consts.append(o)
        if consts:
            zeroed.append(s_)
    ok = bool(zeroed)
    rep.inst('R-ROUND', FN, 'the carry clears the fraction', ok, zeroed[0].where() if zeroed else w,
             None if ok else 'after the rounding the fraction is never replaced by zero: a carry would print base^digits as '
             'fraction digits')
    # order: the test that decides the carry into the integer part reads the ROUNDED fraction, i.e. no store that resets the
    # fraction to zero lies in front of it (fp = carry ? 0 : fp; ip = fp == base^n ? ip + 1 : ip never carries)
    if carries and zeroed and incs:
        late = []
        for (c, _e) in carries:
            for o in c.ops:
                if cell_of_load(f, o) is not None and cell_of_load(f, o).id == X.id:
                    li = f.inst_of(fstrip(f, o))
                    if any(f.dominates(z, li) for z in zeroed):
                        late.append(c)
        rep.inst('R-ROUND', FN, 'the carry into the integer part is decided before the fraction is reset', not late,
                 late[0].where() if late else w,
                 None if not late else 'the comparison that decides ip + 1 reads the fraction after it has been replaced by zero on '
                 'a carry: the carry never reaches the integer part (%.2f of 1.996 prints 1.00)')
    whole = []
    for c in f.calls(pred=lambda n: n in c13_fi.ROUND_CALLS):
        a = f.inst_of(fstrip(f, c.ops[0]))
        if a is not None and a.op == 'fadd':
            cells = [cell_of_load(f, o) for o in a.ops]
            ids = set(c_.id for c_ in cells if c_ is not None)
            if ids == {X.id, IP.id}:
                whole.append(c)
    ok = len(whole) == 1 and c13_fi.ROUND_CALLS[whole[0].callee] in ('round', 'rint', 'nearbyint')
    rep.inst('R-ROUND', FN, 'with no fraction digits the value is rounded to the nearest integer', ok,
             whole[0].where() if whole else w,
             None if ok else 'integer part + fraction is not passed through a round-to-nearest (%s)' % [c.callee for c in whole])
    return {'FD': FD, 'ID': ID, 'X': X, 'IP': IP, 'SC': SC, 'cnt': cnt, 'R': R, 'bound': bound, 'ZS': ZS}


def cond_slice(f, v, limit=60):
    """instructions an i1 / integer condition is computed from (boolean connectives, compares, masks, casts)"""
    return value_slice(f, v, ops=('and', 'or', 'xor', 'icmp', 'select', 'zext', 'sext', 'trunc', 'phi'), limit=limit)


def depends_on_flag(f, v, mask):
    return any(x.op == 'and' and any(o.k == 'ci' and o.ival == mask for o in x.ops) and
               any(o.k == 'arg' and o.argno == ROLE_OPS for o in x.ops) for x in cond_slice(f, v))


def depends_on_arg(f, v, argno):
    return any(any(o.k == 'arg' and o.argno == argno for o in x.ops) for x in cond_slice(f, v))


def guards_of(f, b, limit=12):
    """conditions of the conditional branches that decide whether block b is reached (immediate dominator chain)"""
    out = []
    idom = f.idom
    cur = b
    while cur is not None and cur != '<root>' and len(out) < limit:
        p_ = idom.get(cur)
        if p_ is None or p_ == '<root>' or p_ is cur:
            break
        t = p_.term
        if t.op == 'br' and 'f' in t.d and not f.postdominates_block(cur, p_):
            out.append(t.ops[0])
        cur = p_
    return out


def gshape_rule(rep, mod, T, anchors):
    """R-GSHAPE (%g): trailing zeros of the fraction are removed after the rounding, unless '#' is given, in which case
    the fraction is filled up with zeros like for %f"""
    f = mod.fn(FN)
    w = where_fn(f)
    H = T['flags']['#']
    ZS, R, X = anchors['ZS'], anchors['R'], anchors['X']
    ok = False
    detail = 'the number of fraction digits is fixed before the fraction is rounded and never reduced afterwards: zeros ' \
             'produced by the rounding stay in the text (e.g. "%g" of 9.9999995 gives "10.00000", of 1e300 "1.00000e+300")'
    if ZS is not None and R is not None:
        after = f.dominates_block(R.block, ZS['header']) and R.block not in ZS['blocks']
        tests = []
        for (src, dst) in ZS['exits']:
            t = src.term
            if t.op == 'br' and 'f' in t.d:
                for x in cond_slice(f, t.ops[0]):
                    pass
                for x in value_slice(f, t.ops[0], ops=('and', 'or', 'xor', 'select', 'fcmp', 'icmp') + FCASTS, limit=40):
                    if x.op == 'call' and (x.callee or '').startswith('fmod'):
                        c_ = cell_of_load(f, x.ops[0])
                        if c_ is not None and c_.id == X.id and from_arg(f, x.ops[1], ROLE_BASE):
                            tests.append(x)
        ok = after and bool(tests)
        if not ok:
            detail = 'the loop that takes digits back %s' % ('does not test the last digit of the rounded fraction' if after
                                                            else 'runs before the rounding')
    rep.inst('R-GSHAPE', FN, 'shortest form: zero digits at the end of the rounded fraction are taken back', ok,
             (ZS['header'].term.where() if ZS is not None else w), None if ok else detail)
    if ZS is not None:
        gs = guards_of(f, ZS['header'])
        ok = any(depends_on_arg(f, g, ROLE_SHORT) for g in gs) and any(depends_on_flag(f, g, H) for g in gs)
        rep.inst('R-GSHAPE', FN, "digits are taken back only in the shortest form without '#'", ok, ZS['header'].term.where(),
                 None if ok else 'the loop is not guarded by both the shortest-form parameter and the # flag: it would also '
                 'shorten %f / %e or %#g')
    # the zero fill after the buffered digits
    fills = zero_fill_counts(f)
    if len(fills) != 1:
        raise AnalysisBroken('%s: expected one zero-fill emission loop after the buffered text, found %d' % (FN, len(fills)))
    cnt0 = fills[0]
    conds = []
    for x in value_slice(f, cnt0, ops=('select', 'phi', 'trunc', 'sext', 'zext')):
        if x.op == 'select':
            conds.append((x.ops[0], x))
        elif x.op == 'phi':
            for (bb, v) in x.incoming:
                blk = f.bmap[bb]
                for g in guards_of(f, blk):
                    conds.append((g, x))
                t = blk.term
                if t.op == 'br' and 'f' in t.d:
                    conds.append((t.ops[0], x))
    dep_short = [(c, x) for (c, x) in conds if depends_on_arg(f, c, ROLE_SHORT)]
    if not dep_short:
        raise AnalysisBroken('%s: the zero fill does not depend on the shortest-form parameter (anchor changed)' % FN)
    ok = any(depends_on_flag(f, c, H) for (c, x) in conds)
    rep.inst('R-GSHAPE', FN, "the zero fill is suppressed only in the shortest form without '#'", ok, dep_short[0][1].where(),
             None if ok else 'the zero fill is switched off by the shortest-form parameter alone: "%#g" loses its trailing zeros '
             '(e.g. "%#g" of 1.5 gives "1.5" instead of "1.50000")')


def gstyle_rule(rep, mod):
    """R-GSTYLE (%g, ISO C 7.21.6.1p8): with X the decimal exponent and P the effective precision, the exponent form is
    chosen exactly when X < -4 or X >= P.  Decided on the two comparisons of the exponent cell (the cell whose magnitude the
    exponent digit loop prints): their thresholds, normalised over the integer-valued exponent (X <= -5 is X < -4), and a
    truth-table walk of the control flow between them and the merge that sets the exponent-form switch."""
    f = mod.fn(FN)
    w = where_fn(f)
    # the exponent cell: the one printed through fmod(fabs(cell), base)
    eps = set()
    for (L, cell, st_, c) in digit_loops(f):
        ai = f.inst_of(fstrip(f, c.ops[0]))
        if ai is not None and ai.op == 'call' and (ai.callee or '').replace('llvm.', '').startswith('fabs'):
            eps.add(cell.id)
    if len(eps) != 1:
        raise AnalysisBroken('%s: exponent cell not identified (%d candidates)' % (FN, len(eps)))
    EP = f.insts[eps.pop()]
    FLIP = {'olt': 'ogt', 'ogt': 'olt', 'ole': 'oge', 'oge': 'ole', 'ult': 'ugt', 'ugt': 'ult', 'ule': 'uge', 'uge': 'ule'}
    consts, precs = [], []
    for i in f.all_insts():
        if i.op != 'fcmp' or i.pred[1:] not in ('lt', 'le', 'gt', 'ge'):
            continue
        cells = [cell_of_load(f, o) for o in i.ops]
        side = [k for k in (0, 1) if cells[k] is not None and cells[k].id == EP.id]
        if len(side) != 1:
            continue
        pred = i.pred if side[0] == 0 else FLIP[i.pred]
        other = fstrip(f, i.ops[1 - side[0]])
        if other.k == 'cf':
            c = float(other.d['v'])
            if c != int(c):
                raise AnalysisBroken('%s: exponent compared with the non-integer constant %r at %s' % (FN, c, i.where()))
            # true <=> (X < K) when pol, <=> (X >= K) otherwise
            K, pol = {'lt': (c, True), 'le': (c + 1, True), 'ge': (c, False), 'gt': (c + 1, False)}[pred[1:]]
            consts.append((i, int(K), pol))
        elif any(any(o.k == 'arg' and o.argno == ROLE_PREC for o in x.ops) for x in value_slice(
                f, other, ops=('sitofp', 'uitofp', 'trunc', 'zext', 'sext', 'add', 'sub', 'select', 'phi') + FCASTS, limit=60)):
            # true <=> (X >= P + d) when pol, <=> (X < P + d) otherwise
            d, pol = {'ge': (0, True), 'gt': (1, True), 'lt': (0, False), 'le': (1, False)}[pred[1:]]
            precs.append((i, d, pol))
    if len(consts) != 1 or len(precs) != 1:
        raise AnalysisBroken('%s: expected one comparison of the exponent with a constant and one with the precision, found '
                             '%d and %d (anchor changed)' % (FN, len(consts), len(precs)))
    (C1, K, pol1), (C2, d, pol2) = consts[0], precs[0]
    ok = K == -4
    rep.inst('R-GSTYLE', FN, 'exponent form below X < -4', ok, C1.where(),
             None if ok else 'the lower threshold of the exponent form is X < %d: ISO C uses style e exactly when X < -4 (or X >= P); '
             'e.g. %%g of %s must print as %s' % (K, '0.0001234' if K > -4 else '0.00001234', '0.0001234' if K > -4 else '1.234e-05'),
             fact={'threshold': K})
    ok = d == 0
    rep.inst('R-GSTYLE', FN, 'exponent form from X >= P', ok, C2.where(),
             None if ok else 'the upper threshold of the exponent form is X >= P + %d: ISO C uses style e exactly when X >= P (or X < -4); '
             'e.g. %%g of 1e6 (P = 6) must print as 1e+06' % d, fact={'offset': d})

    def ev(v, asg):
        if v.k == 'ci':
            return bool(v.uval)
        i = f.inst_of(v)
        if i is None:
            return None
        if i.id in asg:
            return asg[i.id]
        if i.op in ('and', 'or', 'xor') and i.bits == 1:
            a, b = ev(i.ops[0], asg), ev(i.ops[1], asg)
            if i.op == 'and':
                return False if (a is False or b is False) else (True if (a and b) else None)
            if i.op == 'or':
                return True if (a is True or b is True) else (False if (a is False and b is False) else None)
            return None if (a is None or b is None) else (a != b)
        if i.op == 'select' and i.bits == 1:
            c = ev(i.ops[0], asg)
            return None if c is None else ev(i.ops[1] if c else i.ops[2], asg)
        return None
    first = C1 if f.dominates(C1, C2) else C2
    J = f.ipdom.get(first.block)
    if J is None or J == '<root>':
        raise AnalysisBroken('%s: no merge point behind the exponent tests' % FN)
    table = {}
    for a1 in (False, True):
        for a2 in (False, True):
            asg = {C1.id: a1, C2.id: a2}
            b, prev = first.block, None
            for _ in range(12):
                if b is J:
                    break
                t = b.term
                if t.op != 'br':
                    raise AnalysisBroken('%s: unexpected terminator between the exponent tests and their merge' % FN)
                if 'f' in t.d:
                    c = ev(t.ops[0], asg)
                    if c is None:
                        raise AnalysisBroken('%s: a branch between the exponent tests and their merge depends on something else '
                                             '(%s)' % (FN, t.where()))
                    prev, b = b, f.bmap[t.d['t'] if c else t.d['f']]
                else:
                    prev, b = b, b.succs[0]
            if b is not J:
                raise AnalysisBroken('%s: merge of the exponent tests not reached' % FN)
            table[(a1, a2)] = prev
    sw = None
    for ph in [i for i in J.insts if i.op == 'phi' and i.ty.get('k') == 'int']:
        inc = {bb: v for (bb, v) in ph.incoming}
        vals = {k: inc.get(pv.name) for k, pv in table.items()}
        if any(v is not None and v.k == 'ci' and v.ival != 0 for v in vals.values()):
            sw = (ph, vals)
    sel = None
    if sw is None:
        for i in f.all_insts():
            if i.op == 'select' and i.ty.get('k') == 'int' and i.bits > 1 and i.ops[1].k == 'ci' and i.ops[1].ival != 0 and \
                    all(ev(i.ops[0], {C1.id: a1, C2.id: a2}) is not None for a1 in (0, 1) for a2 in (0, 1)):
                sel = i
    if sw is None and sel is None:
        raise AnalysisBroken('%s: the value switched by the exponent tests was not found' % FN)
    bad = []
    for a1 in (False, True):
        for a2 in (False, True):
            want = (a1 == pol1) or (a2 == pol2)          # X < K  or  X >= P + d
            if sw is not None:
                v = sw[1][(a1, a2)]
                got = v is not None and v.k == 'ci' and v.ival != 0
            else:
                got = ev(sel.ops[0], {C1.id: a1, C2.id: a2})
            if got != want:
                bad.append('%s and %s -> %s' % ('X < %d' % K if a1 == pol1 else 'X >= %d' % K,
                                                 'X >= P' if a2 == pol2 else 'X < P', 'exponent form' if got else 'unchanged'))
    rep.inst('R-GSTYLE', FN, 'exponent form exactly when X < -4 or X >= P', not bad, (sw[0] if sw else sel).where(),
             None if not bad else 'the exponent-form switch disagrees with ISO C for: ' + '; '.join(bad))


def gprec_rule(rep, mod, runs):
    """R-GSTYLE (effective precision of %g, ISO C 7.21.6.1p8: "Let P equal the precision if nonzero, 6 if the precision is
    omitted, or 1 if it is zero"): in the %g family the value the exponent is compared with (X >= P) is at least 1 for every
    precision the parser can hand over - taken from the integer ranges the interval interpretation of print_f proved for
    that family.  With P = 0, "%.0g" of 1.0 chooses the exponent form ("1e+00" instead of "1")."""
    f = mod.fn(FN)
    if 'g' not in runs:
        raise AnalysisBroken('%s: the %%g family was not interpreted' % FN)
    eps = set()
    for (L, cell, st_, c) in digit_loops(f):
        ai = f.inst_of(fstrip(f, c.ops[0]))
        if ai is not None and ai.op == 'call' and (ai.callee or '').replace('llvm.', '').startswith('fabs'):
            eps.add(cell.id)
    if len(eps) != 1:
        raise AnalysisBroken('%s: exponent cell not identified' % FN)
    ep = eps.pop()
    found = 0
    for i in f.all_insts():
        if i.op != 'fcmp' or i.pred[1:] not in ('lt', 'le', 'gt', 'ge'):
            continue
        cells = [cell_of_load(f, o) for o in i.ops]
        side = [k for k in (0, 1) if cells[k] is not None and cells[k].id == ep]
        if len(side) != 1:
            continue
        other = f.inst_of(fstrip(f, i.ops[1 - side[0]]))
        if other is None or other.op not in ('sitofp', 'uitofp') or other.ops[0].k != 'inst':
            continue
        v = runs['g'].fi.ranges.get(('i', other.ops[0].id))
        if v is None or not hasattr(v, 'lo'):
            raise AnalysisBroken('%s: no range recorded for the precision the exponent is compared with' % FN)
        found += 1
        ok = v.lo is not None and v.lo >= 1
        rep.inst('R-GSTYLE', FN, '%g: the precision the exponent is compared with is at least 1', ok, i.where(),
                 None if ok else 'in the %%g family the exponent is compared with a precision that can be %s: ISO C takes a '
                 'precision of zero as 1, so that "%%.0g" of 1.0 is "1" and not "1e+00"' % v.lo, fact={'range': [v.lo, v.hi]})
    if not found:
        raise AnalysisBroken('%s: comparison of the exponent with the precision not found' % FN)


def renorm_rule(rep, mod, anchors):
    """R-RENORM (exponent form, ISO C 7.21.6.1p8 "one digit before the decimal-point character"): every test that decides
    whether the integer part is divided by the base once more - the normalisation loop before the rounding and the fix-up
    after a rounding carry - is `integer part >= base`.  With `>` the value `base` itself (10.0, or 9.99 rounded up) keeps
    two digits in front of the point ("10.0e+00")."""
    f = mod.fn(FN)
    IP = anchors['IP']
    FLIP = {'lt': 'gt', 'gt': 'lt', 'le': 'ge', 'ge': 'le'}
    n = 0
    FLIP.update({'eq': 'eq', 'ne': 'ne'})
    for i in f.all_insts():
        if i.op != 'fcmp' or i.pred[1:] not in ('lt', 'le', 'gt', 'ge', 'eq', 'ne'):
            continue
        cells = [cell_of_load(f, o) for o in i.ops]
        side = [k for k in (0, 1) if cells[k] is not None and cells[k].id == IP.id]
        if len(side) != 1 or not from_arg(f, i.ops[1 - side[0]], ROLE_BASE):
            continue
        pred = i.pred[1:] if side[0] == 0 else FLIP[i.pred[1:]]
        if pred in ('eq', 'ne'):
            # `ip == base` (after a carry the integer part is at most the base): also a test that holds at ip == base
            pred = 'ge' if pred == 'eq' else 'lt'
        # only the tests followed by a division of the integer part by the base (a store to the cell of a value computed from
        # an fdiv by the base on the edge where the test asks for it) are renormalisation tests
        n += 1
        ok = pred in ('ge', 'lt')          # ip >= base (divide)  /  ip < base (inverted: do not divide)
        rep.inst('R-RENORM', FN, 'integer part is renormalised from >= base on (test %d)' % n, ok, i.where(),
                 None if ok else 'the integer part is compared with the base by %s: a value whose integer part equals the base '
                 '(10.0, or 9.99.. after the rounding carry) is not divided once more and prints two digits in front of the '
                 'point, e.g. "%%.3e" of 9.9996 gives "10.000e+00" instead of "1.000e+01"'
                 % {'gt': '>', 'le': '<='}[pred], fact={'test': 'ip %s base' % {'ge': '>=', 'lt': '<', 'gt': '>', 'le': '<='}[pred]})
    if n < 2:
        raise AnalysisBroken('%s: expected the normalisation loop and the post-rounding fix-up to compare the integer part with the '
                             'base, found %d such comparisons (anchor changed)' % (FN, n))


def zero_fill_counts(f):
    """initial counts of the count-down loops that emit the constant '0' and come after a loop emitting bytes of a local
    array (the buffered digits)"""
    def handler_call(i):
        c = i.d.get('callee')
        return i.op == 'call' and c is not None and c.get('k') == 'arg' and c.get('i') == 0
    readers, zeros = [], []
    for L in f.loops:
        calls = [i for b in L['blocks'] for i in b.insts if handler_call(i)]
        if len(calls) != 1 or len(calls[0].ops) < 2:
            continue
        a = calls[0].ops[1]
        if a.k == 'ci' and a.ival == 48:
            zeros.append(L)
        else:
            li = f.inst_of(fstrip(f, a))
            while li is not None and li.op in ('sext', 'zext', 'trunc'):
                li = f.inst_of(li.ops[0])
            if li is not None and li.op == 'load':
                root = buffer_root(f, li.ops[0])
                if root is not None and root.d.get('alloc_ty', {}).get('k') == 'array':
                    readers.append(L)
    out = []
    for L in zeros:
        if any(f.dominates_block(Rd['header'], L['header']) for Rd in readers):
            for ph in [i for i in L['header'].insts if i.op == 'phi' and i.ty.get('k') == 'int']:
                for (bb, v) in ph.incoming:
                    if f.bmap[bb] not in L['blocks']:
                        out.append(v)
    # only the first zero loop after the first reader
    if len(out) > 1 and len(readers) >= 2:
        first = [Rd for Rd in readers if all(Rd is r2 or f.dominates_block(Rd['header'], r2['header']) for r2 in readers)]
        if first:
            second = [Rd for Rd in readers if Rd is not first[0]]
            out = [v for v, L in zip(out, [L for L in zeros if any(f.dominates_block(Rd['header'], L['header']) for Rd in readers)])
                   if not any(f.dominates_block(Rd['header'], L['header']) for Rd in second)] or out
    return out


# ----------------------------------------------------------------------------------------------
# emission part
# ----------------------------------------------------------------------------------------------
def sx_rules(rep, mod, T, fams, facts):
    import c13_sx
    f = mod.fn(FN)
    w = where_fn(f)
    times = {}
    for fam, triple in fams.items():
        pct = '%' + fam
        t0 = time.time()
        clear = (T['flags']['+'], T['flags'][' ']) if fam == 'g' else ()       # see R-PREFIX
        sx, rets, wp = c13_sx.run_family(mod, T, FN, triple, facts[fam]['ranges'], facts[fam]['cstr_end'], clear)
        bad = [(s, rv) for s, rv in rets if not (isinstance(rv, c13_sx.Lin) and s.cons.entails_eq(rv, s.E))]
        ok = bool(rets) and not bad
        rep.inst('R-PCACC', FN, '%s: returned count == number of output callbacks on every path' % pct, ok, w,
                 None if ok else ('on some path the routine returns %r after %r callback calls' % (bad[0][1], bad[0][0].E)
                                  if bad else 'no path reaches a return'), fact={'paths': len(rets)})
        for o in sx.obligs.values():
            if o['kind'] == 'count-nonneg':
                rep.inst('R-EMITCOUNT', o['fn'], '%s: emission count %s is never negative' % (pct, o['key']), o['ok'],
                         o['where'], o['detail'])
        for (fn_, key), r in sorted(sx.reads.items()):
            if not facts[fam]['clean']:
                break       # premise missing: R-FBUF / R-FTERM / R-NANINF / R-LDBL report why the cursor ranges are not available
            if r.get('undecided') and r['ok']:
                rep.defer_broken(AnalysisBroken(r['undecided']))
                continue
            rep.inst('R-EMITREAD', fn_, '%s: emission loop %s reads inside the local buffer' % (pct, key), r['ok'],
                     r['where'], r['detail'])
        try:
            res, npaths = c13_sx.float_layout(sx, rets, f, T, wp, fam)
        except AnalysisBroken as e:
            rep.defer_broken(e)
            continue
        if npaths == 0:
            raise AnalysisBroken('%s: no return path emits the digit buffer (anchor changed)' % FN)
        for key in sorted(res):
            ok, detail = res[key]
            rep.inst('R-FLAYOUT', FN, '%s: %s' % (pct, key), ok, w, detail)
        times[pct] = round(time.time() - t0, 2)
    rep.extra['c13_sx_seconds'] = times


# ----------------------------------------------------------------------------------------------
def run(rep, repo, tier):
    rep.explanation = (
        'Floating conversions of igris/util/printf_impl.c. (1) Interval abstract interpretation of print_f (c13_fi: floats as '
        'intervals with +-inf/NaN flags and integrality, IEEE round-to-nearest evaluated on the end points, x86_fp80 results '
        'enclosed exactly; loops are executed on the abstract state until no state is left inside): for every finite double, '
        'every long double, both infinities and NaN, in each of the contexts %f / %e / %g, every float-controlled loop '
        'terminates (R-FTERM: trip-count bound, e.g. 309 rounds for the integer digits of any finite double), every access to '
        'the local buffers is inside them (R-FBUF), every float -> int conversion has a finite in-range operand (R-FPCAST), only '
        'digits, point, sign, exponent marker and NUL are stored into the text buffer (R-FCHARS), a long double outside the '
        'double range is handled (R-LDBL), infinities and NaN enter no digit loop and are handed to the string routine as the '
        'words inf / nan, in capitals for F E G, with the sign (R-NANINF). (2) Symbolic execution of the emission part (c13_sx on '
        'the executor of C06, integers as linear forms): on every path the returned count equals the number of output callbacks '
        '(R-PCACC), no emission count can be negative (R-EMITCOUNT), the emission loops read inside the buffers given the '
        'cursor ranges proved in (1) (R-EMITREAD), and the output is [spaces] sign [zeros] text [zeros] [exponent] [spaces] with '
        'padding = max(width - rest, 0) placed by - and 0 as for integers, sign -, +, space or none, and for %f / %e exactly '
        '`precision` digits after the point (6 without a precision; buffered digits + zero fill), the point present iff '
        'precision > 0 or # (R-FLAYOUT). (3) IR rules: f F e E g G all reach print_f with base 10 and the right exponent / '
        'shortest-form flags, upper-case bit, parsed width and precision, argument fetched as double or (L) long double and '
        'passed unchanged (R-CONVSET, R-FVAARG); the upper-case bit only selects values and the sign text is chosen before the '
        'family is consulted (R-UPPER, R-PREFIX: premises of the contexts used in (2)); the rounding step: fraction scaled by '
        'base^n, rounded to nearest, carry into the integer part, fraction cleared, n digits extracted, precision 0 rounds the '
        'whole value (R-ROUND); %g takes back zero digits after the rounding and honours # (R-GSHAPE); every loop condition can '
        'change inside its loop (R-LOOPVAR). NOT decided: the numerical value of the printed digits (that the text parsed back '
        'lies within half a unit of the last digit: a property of run-time values and of the accumulated rounding error of '
        'repeated division / multiplication by ten), the significant-digit count of %g (the choice between fixed and exponent notation is decided by R-GSTYLE from the '
        'exponent the code computed), correctness of the exponent value, int overflow of width / precision near INT_MAX, the %a conversion.')
    rep.assumptions += [
        'IEEE-754 binary64 double, x86_fp80 long double, round-to-nearest; modf, fmod, fabs, round, ceil, floor are exact as ISO C '
        'requires; log10 and pow of the C library are accurate to %d ulps' % c13_fv.LIBM_SLACK,
        'int is 32 bits; integer arithmetic on width / precision / counts does not overflow (symbolic execution uses '
        'mathematical integers)',
        'the output callback does not modify the local buffers of print_f',
        'the %g context of the symbolic execution runs with the + and space flags clear and all contexts with the upper-case bit '
        'clear (justified by R-PREFIX and R-UPPER)']
    mod = unit(repo)
    rep.units.append(SRC)
    T = parser_tables(mod)
    D = dispatch(mod)
    fam_by_conv = convset_rule(rep, mod, T, D)
    fams = {}
    for c in 'feg':
        if c in fam_by_conv and None not in fam_by_conv[c]:
            fams[c] = fam_by_conv[c]
    if not fams:
        raise AnalysisBroken('no floating conversion reaches %s with constant mode arguments' % FN)
    loopvar_rule(rep, 'R-LOOPVAR', mod, [FN])
    upper_rule(rep, mod, T)
    prefix_rule(rep, mod)
    anchors = round_rule(rep, mod)
    gshape_rule(rep, mod, T, anchors)
    gstyle_rule(rep, mod)
    renorm_rule(rep, mod, anchors)
    rep.floor('R-RENORM', 2)
    rep.floor('R-GSTYLE', 4)
    runs, facts = fi_rules(rep, mod, T, fams)
    gprec_rule(rep, mod, runs)
    sx_rules(rep, mod, T, fams, facts)
    for rule, n in (('R-CONVSET', 36), ('R-FVAARG', 3), ('R-LOOPVAR', 10), ('R-UPPER', 4), ('R-PREFIX', 1), ('R-ROUND', 5),
                    ('R-GSHAPE', 2), ('R-FTERM', 12), ('R-FBUF', 6), ('R-FPCAST', 6), ('R-FCHARS', 3), ('R-LDBL', 3),
                    ('R-NANINF', 18), ('R-PCACC', 3), ('R-EMITCOUNT', 15), ('R-FLAYOUT', 18)):
        rep.floor(rule, n)
