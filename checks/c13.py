"""C13 printf engine, floating conversions %f %e %g (print_f of igris/util/printf_impl.c and the way __printf reaches it).

Three engines, all static:
  c13_fi   interval abstract interpretation of print_f with exhaustive loop unrolling (floats as intervals with
           inf/NaN flags): termination of the float loops, every store into the local buffers, defined float -> int
           conversions, classification of inf/NaN before any digit loop, the characters that can be stored
  c13_sx   symbolic execution (linear integer domain of c06_sx) of the emission part: returned count == characters
           emitted, no emission count can be negative, buffer reads of the emission loops (with the cursor ranges proved
           by c13_fi), padding / sign / zero fill / fraction digit count against a closed-form model of ISO C
  IR rules conversion table of __printf (which routine, base, exponent and shortest-form flags, argument fetch),
           rounding step, %g clauses
"""
import time
from c06_common import (unit, SRC, parser_tables, dispatch, vaarg_sites, is_field, where_fn, describe_value,
                        loopvar_rule, emitter_functions)
from common import AnalysisBroken
from irlib import V
from c13_fv import FV, IV, PV, CV, INF, DBL_MAX, vjoin
import c13_fi
from c13_fi import FI

FLOAT_CONVS = 'fFeEgG'
FAMILY = {'f': (10, 0, 0), 'e': (10, 1, 0), 'g': (10, 0, 1)}       # base, exponent form, shortest form
INTMAX = (1 << 31) - 1
ALLOWED = set(b'0123456789.+-eE\0')
ROLE_VALUE, ROLE_WIDTH, ROLE_PREC, ROLE_OPS, ROLE_BASE, ROLE_EXP, ROLE_SHORT = 2, 3, 4, 5, 6, 7, 8
FN = 'print_f'


# ----------------------------------------------------------------------------------------------
# conversion table of __printf
# ----------------------------------------------------------------------------------------------
def value_leaves(f, v, depth=0, seen=None):
    """leaves of the float value v through fpext / phi / select and one store -> load pair on a local object"""
    seen = seen if seen is not None else set()
    if v.k != 'inst' or depth > 12:
        return [('other', v.k, None)]
    if v.id in seen:
        return []
    seen.add(v.id)
    i = f.insts[v.id]
    if i.op in ('fpext',):
        return [(k, x, (c or []) + ['fpext']) for (k, x, c) in value_leaves(f, i.ops[0], depth + 1, seen)]
    if i.op in ('fptrunc', 'fneg', 'fadd', 'fsub', 'fmul', 'fdiv'):
        return [('changed', i.op, None)]
    if i.op == 'phi':
        out = []
        for o in i.ops:
            out.extend(value_leaves(f, o, depth + 1, seen))
        return out
    if i.op == 'select':
        return value_leaves(f, i.ops[1], depth + 1, seen) + value_leaves(f, i.ops[2], depth + 1, seen)
    if i.op == 'load':
        root = i.ops[0]
        while root.k == 'inst' and f.insts[root.id].op in ('bitcast', 'getelementptr'):
            root = f.insts[root.id].ops[0]
        if root.k == 'inst' and f.insts[root.id].op == 'alloca':
            # the dominating store of the same type into the same local object
            best = None
            for s in f.all_insts():
                if s.op != 'store' or not f.dominates(s, i):
                    continue
                r2 = s.ops[1]
                while r2.k == 'inst' and f.insts[r2.id].op in ('bitcast', 'getelementptr'):
                    r2 = f.insts[r2.id].ops[0]
                if r2.key() != root.key():
                    continue
                sv = s.ops[0]
                sty = f.insts[sv.id].ty if sv.k == 'inst' else {}
                if sty.get('k') == 'fp' and (best is None or f.dominates(best, s)):
                    best = s
            if best is not None:
                return value_leaves(f, best.ops[0], depth + 1, seen)
        return [('load', i.id, [])]
    return [('other', i.op, None)]


def convset_rule(rep, mod, T, D):
    """R-CONVSET / R-FVAARG: what __printf does for f F e E g G"""
    top = mod.fn('__printf')
    w = where_fn(top)
    fam = {}
    for c in FLOAT_CONVS:
        e = D['table'].get(c)
        calls = e['calls'] if e else []
        ok = len(calls) == 1 and calls[0]['callee'] == FN and not e['handler']
        rep.inst('R-CONVSET', '__printf', '%%%s is formatted by the floating routine' % c, ok, w,
                 None if ok else 'conversion %r leads to %s' % (c, [x['callee'] for x in calls] or 'no formatting routine: the '
                                                                 'directive is echoed or ignored'))
        if not ok:
            continue
        call = calls[0]
        a = call['args']
        base, we, sh = FAMILY[c.lower()]
        for (pos, want, what) in ((ROLE_BASE, base, 'digit base %d' % base),
                                  (ROLE_EXP, we, 'exponent form %s' % ('on' if we else 'off')),
                                  (ROLE_SHORT, sh, 'shortest form %s' % ('on' if sh else 'off'))):
            got = a[pos] if pos < len(a) else None
            okk = got is not None and (got == want if pos == ROLE_BASE else bool(got) == bool(want))
            rep.inst('R-CONVSET', '__printf', '%%%s: %s' % (c, what), okk, call['call'].where(),
                     None if okk else 'the routine receives %r for this parameter when the conversion is %r (ISO C: %s)'
                     % (got, c, what), fact={'conv': c, 'param': pos, 'value': got})
        up = bool(call['extra_bits'] & (T['upper'] or 0))
        okk = up == c.isupper()
        rep.inst('R-CONVSET', '__printf', '%%%s: upper-case bit %s' % (c, 'set' if c.isupper() else 'clear'), okk,
                 call['call'].where(), None if okk else 'directive word bits added for %r: %#x' % (c, call['extra_bits']))
        okk = is_field(call['srcs'][ROLE_WIDTH], D['width_atoi']) and is_field(call['srcs'][ROLE_PREC], D['prec_atoi'])
        rep.inst('R-CONVSET', '__printf', '%%%s: width and precision are the parsed fields' % c, okk, call['call'].where(),
                 None if okk else 'width comes from %s, precision from %s' % (sorted(call['srcs'][ROLE_WIDTH], key=str),
                                                                             sorted(call['srcs'][ROLE_PREC], key=str)))
        leaves = value_leaves(top, call['call'].ops[ROLE_VALUE])
        loads = [x for x in leaves if x[0] == 'load']
        okk = bool(loads) and len(loads) == len(leaves)
        rep.inst('R-CONVSET', '__printf', '%%%s: the fetched argument is passed on unchanged' % c, okk, call['call'].where(),
                 None if okk else 'the value handed to the routine is computed through %s' % [x[:2] for x in leaves if x[0] != 'load'])
        if a[ROLE_BASE] is not None:
            fam[c] = (a[ROLE_BASE], int(bool(a[ROLE_EXP])) if a[ROLE_EXP] is not None else None,
                      int(bool(a[ROLE_SHORT])) if a[ROLE_SHORT] is not None else None)
    # argument fetch
    sites = [s for s in vaarg_sites(mod, T) if s['convs'] & set(FLOAT_CONVS)]
    seen = {}
    for s in sites:
        seen.setdefault(s['length'], []).append(s)
    for (ln, bits, what) in (('default', 64, 'double'), ('L', 80, 'long double')):
        ss = seen.get(ln, [])
        ok = len(ss) == 1 and ss[0]['kind'] == 'fp' and ss[0]['bits'] == bits and set(FLOAT_CONVS) <= ss[0]['convs']
        rep.inst('R-FVAARG', '__printf', 'length %s fetches a %s' % (ln if ln != 'default' else '(none)', what), ok,
                 ss[0]['load'].where() if ss else w,
                 None if ok else 'found %s' % [(x['kind'], x['bits'], ''.join(sorted(x['convs']))) for x in ss],
                 fact={'length': ln, 'bits': bits})
    extra = [k for k in seen if k not in ('default', 'L')]
    rep.inst('R-FVAARG', '__printf', 'no other length modifier changes the fetched type', not extra, w,
             None if not extra else 'the floating conversions fetch a different type under length %s' % extra)
    return fam


# ----------------------------------------------------------------------------------------------
# interval interpretation of print_f
# ----------------------------------------------------------------------------------------------
VALUE_CLASSES = {
    'finite': lambda: FV(-DBL_MAX, DBL_MAX),
    'ldbl': lambda: FV(-INF, INF),
    '+inf': lambda: FV(pinf=True),
    '-inf': lambda: FV(ninf=True),
    'nan': lambda: FV(nan=True),
}


def fi_args(f, T, triple, cls, upper=None):
    if len(f.params) != 9 or f.params[ROLE_VALUE]['ty'].get('k') != 'fp':
        raise AnalysisBroken('%s: unexpected signature (anchor changed)' % FN)
    ops = IV(0, 0xffff)
    if upper is not None:
        ops = IV(0, 0xffff, T['upper'], T['upper'] if upper else 0)
    base, we, sh = triple
    return [PV([('handler', 0, 0)]), PV([('data', 0, 0)]), VALUE_CLASSES[cls](), IV(0, INTMAX), IV(0, INTMAX), ops,
            IV.const(base), IV.const(we), IV.const(sh)]


def cstr_of(fi, st, p):
    """exact content of the C string at pointer p in state st, or None"""
    if not isinstance(p, PV) or not p.single:
        return None
    o, off, _ = p.alts[0]
    out = []
    for q in range(off, off + 64):
        if isinstance(o, str) and o.startswith('g:'):
            b = fi.global_bytes(o[2:])
            if b is None or q >= len(b):
                return None
            c = b[q]
        else:
            v = st.mem.get((o, q, 1))
            if not isinstance(v, IV) or v.lo != v.hi:
                return None
            c = v.lo & 0xff
        if c == 0:
            return bytes(out).decode('latin-1')
        out.append(c)
    return None


class FiRun:
    """one run of the interpreter in the context (family, value class)"""

    def __init__(self, mod, T, triple, cls, upper=None):
        self.f = mod.fn(FN)
        self.fi = FI(mod, self.f)
        self.fi.emitters = set(emitter_functions(mod)) - {FN}
        self.tokens = []          # strings handed to an emitting routine
        self.badchars = {}        # store inst id -> offending values
        self.nstores = 0
        self.handler_calls = 0
        self.fi.store_hook = self.on_store
        for n in self.fi.emitters:
            self.fi.call_hooks[n] = self.on_emitter
        self.fi.call_hooks['<param0>'] = self.on_handler
        t0 = time.time()
        self.rets = self.fi.run(fi_args(self.f, T, triple, cls, upper))
        self.seconds = time.time() - t0

    def on_store(self, fi, st, i, p, v):
        if fi.silent or i.d.get('store_size') != 1 or not isinstance(p, PV):
            return
        if not any(isinstance(o, tuple) and (fi.size_of(o) or 0) > 16 for (o, _, _) in p.alts):
            return
        self.nstores += 1
        vals = v.values() if isinstance(v, IV) else None
        if vals is None:
            self.badchars.setdefault(i.id, set()).add('unknown')
            return
        bad = set(x & 0xff for x in vals) - ALLOWED
        if bad:
            self.badchars.setdefault(i.id, set()).update(bad)

    def on_emitter(self, fi, st, i, args):
        if fi.silent:
            return None
        ptrs = [a for a in args[2:] if isinstance(a, PV)]
        if ptrs:
            fi.cstr_len(st, ptrs[0], i)          # records where the terminator of the handed-over text is
        self.tokens.append((cstr_of(fi, st, ptrs[0]) if ptrs else None, i))
        return None

    def on_handler(self, fi, st, i, args):
        if not fi.silent:
            self.handler_calls += 1

    # -- summaries
    def heavy_loops(self):
        order = {b: n for n, b in enumerate(self.f.rpo)}
        out = []
        for n, L in enumerate(sorted(self.f.loops, key=lambda l: order.get(l['header'], 0))):
            info = self.fi.loops.get(L['header'].name)
            if c13_fi.FI.loop_is_heavy(self.fi, L):
                out.append((n + 1, L, info))
        return out

    def failed(self, kinds):
        return [o for o in self.fi.obl.values() if not o['ok'] and o['kind'].split(':')[0] in kinds]


def counted_exit(f, L):
    """the loop has an exit that compares a header counter (constant positive step) with a loop-invariant bound"""
    H = L['header']
    for (src, dst) in L['exits']:
        t = src.term
        if t.op != 'br' or 'f' not in t.d or t.ops[0].k != 'inst':
            continue
        c = f.insts[t.ops[0].id]
        if c.op != 'icmp' or c.pred not in ('slt', 'sle', 'ult', 'ule', 'ne'):
            continue
        ph = f.inst_of(c.ops[0])
        bound = c.ops[1]
        if ph is None or ph.op != 'phi' or ph.block is not H:
            continue
        if bound.k == 'inst' and f.insts[bound.id].block in L['blocks']:
            continue
        if f.bmap[t.d['t']] not in L['blocks']:
            continue
        step_ok = True
        for (bb, v) in ph.incoming:
            if f.bmap[bb] in L['blocks']:
                a = f.inst_of(v)
                if a is None or a.op != 'add' or a.ops[0].key() != ('i', ph.id) or a.ops[1].k != 'ci' or a.ops[1].ival <= 0:
                    step_ok = False
        if step_ok and c.pred != 'ne':
            return True
    return False


FCMP_TXT = {'oeq': '==', 'ueq': '==', 'one': '!=', 'une': '!=', 'ogt': '>', 'ugt': '>', 'oge': '>=', 'uge': '>=',
            'olt': '<', 'ult': '<', 'ole': '<=', 'ule': '<=', 'eq': '==', 'ne': '!=', 'slt': '<', 'sle': '<=', 'sgt': '>',
            'sge': '>=', 'ugt_': '>'}


def render(f, v, depth=0):
    """source-like rendering of an SSA value (variable names from the debug information)"""
    if v.k == 'ci':
        return str(v.ival)
    if v.k == 'cf':
        return str(v.d.get('v'))
    if v.k == 'arg':
        return f.params[v.argno]['name'] or 'arg%d' % v.argno
    i = f.inst_of(v)
    if i is None or depth > 6:
        return '?'
    if i.op in ('sext', 'zext', 'trunc', 'bitcast', 'fpext', 'fptrunc', 'sitofp', 'uitofp', 'fptosi', 'freeze'):
        return render(f, i.ops[0], depth + 1)
    if i.op == 'load':
        return render(f, i.ops[0], depth + 1).lstrip('&')
    if i.op == 'alloca':
        return '&' + (i.name or 'local')
    if i.op in ('fcmp', 'icmp'):
        return '%s %s %s' % (render(f, i.ops[0], depth + 1), FCMP_TXT.get(i.pred, i.pred), render(f, i.ops[1], depth + 1))
    if i.op == 'call' and i.callee:
        return '%s(%s)' % (i.callee.replace('llvm.', '').split('.')[0], ', '.join(render(f, o, depth + 1) for o in i.ops))
    if i.op in ('and', 'or') and i.bits == 1:
        return '%s %s %s' % (render(f, i.ops[0], depth + 1), '&&' if i.op == 'and' else '||', render(f, i.ops[1], depth + 1))
    if i.op == 'select' and i.bits == 1:
        return '(%s ? %s : %s)' % tuple(render(f, o, depth + 1) for o in i.ops)
    if i.op == 'xor' and i.bits == 1:
        return '!(%s)' % render(f, i.ops[0], depth + 1)
    if i.op in ('fadd', 'fsub', 'fmul', 'fdiv', 'add', 'sub', 'mul'):
        return '(%s %s %s)' % (render(f, i.ops[0], depth + 1), {'fadd': '+', 'fsub': '-', 'fmul': '*', 'fdiv': '/', 'add': '+',
                                                               'sub': '-', 'mul': '*'}[i.op], render(f, i.ops[1], depth + 1))
    n = f.var_name(v)
    return n or i.name or ('%%%d' % i.id)


def describe_exits(f, L):
    d = []
    for (src, dst) in L['exits']:
        t = src.term
        if t.op == 'br' and 'f' in t.d:
            d.append(render(f, t.ops[0]))
    return ' | '.join(sorted(set(d)))


def store_sites(run, kinds=('bounds',)):
    return sorted(set((o['inst'].where(), o['detail']) for o in run.failed(kinds)))


def fi_rules(rep, mod, T, fams):
    """R-FTERM, R-FBUF, R-FPCAST, R-FCHARS, R-LDBL, R-NANINF; returns {family: FiRun of the finite class}"""
    f = mod.fn(FN)
    w = where_fn(f)
    runs = {}
    times = {}
    facts = {}
    for fam, triple in fams.items():
        pct = '%' + fam
        facts[fam] = {'ranges': {}, 'cstr_end': {}, 'clean': True}

        def absorb(run, fam=fam):
            """cursor ranges and terminator positions proved in this value class, joined over the classes"""
            fa = facts[fam]
            for k, v in run.fi.ranges.items():
                o = fa['ranges'].get(k)
                fa['ranges'][k] = v if o is None else vjoin(o, v)
            for o, e in run.fi.cstr_end.items():
                if isinstance(o, tuple):
                    fa['cstr_end'][o[1]] = max(fa['cstr_end'].get(o[1], -1), e)
            if run.failed(('bounds', 'cstr')) or any(info['closed'] == 'widened-cap' for info in run.fi.loops.values()):
                fa['clean'] = False        # the ranges of this class are not those of a terminating, in-bounds execution
        # ---------------- every finite double
        r = FiRun(mod, T, triple, 'finite')
        runs[fam] = r
        absorb(r)
        times[pct + ' finite'] = round(r.seconds, 2)
        for (n, L, info) in r.heavy_loops():
            if info is None:
                continue                      # not reached in this family
            desc = describe_exits(f, L)
            if info['closed'] == 'unrolled':
                ok, how = True, 'left after at most %d rounds for every finite double' % info['rounds']
            elif counted_exit(f, L):
                ok, how = True, 'bounded by its counter'
            else:
                ok, how = False, None
            rep.inst('R-FTERM', FN, '%s: loop#%d terminates (exits on %s)' % (pct, n, desc), ok, L['header'].term.where(),
                     None if ok else 'executing the loop on the interval of all finite doubles does not leave it within %d '
                     'rounds and it has no counter: it may not terminate' % c13_fi.CAP,
                     fact={'rounds': info['rounds'], 'how': how})
        bad = r.failed(('bounds', 'cstr'))
        bufs = {}
        for o in r.fi.obl.values():
            if o['kind'].split(':')[0] in ('bounds', 'cstr'):
                bufs.setdefault(o.get('extra') or 'local buffer', []).append(o)
        for bname, obs in sorted(bufs.items(), key=lambda x: str(x[0])):
            fails = [o for o in obs if not o['ok']]
            nm = bname
            if bname.startswith("('a'"):
                i0 = f.insts.get(int(bname.split(',')[1].strip(' )')))
                nm = 'local %s' % (i0.name if i0 is not None and i0.name else bname)
            if not (bname.startswith("('a'")):
                continue
            ok = not fails
            rep.inst('R-FBUF', FN, '%s: every access to %s stays inside it' % (pct, nm), ok,
                     fails[0]['inst'].where() if fails else w,
                     None if ok else 'for some finite double: ' + '; '.join(sorted(set('%s (%s)' % (o['detail'], o['inst'].where().split('/')[-1]) for o in fails)))[:900],
                     fact={'accesses_checked': sum(o['n'] for o in obs), 'sites': len(obs)})
        for o in r.fi.obl.values():
            if o['kind'] == 'fpcast':
                i = o['inst']
                src = render(f, i.ops[0])
                rep.inst('R-FPCAST', FN, '%s: conversion to int of %s is defined' % (pct, src), o['ok'], i.where(), o['detail'])
        ok = not r.badchars and r.nstores > 0
        rep.inst('R-FCHARS', FN, '%s: only digits, point, sign, exponent marker and NUL are stored into the text buffer' % pct,
                 ok, w, None if ok else 'other characters can be stored: %s' %
                 sorted((f.insts[k].where().split('/')[-1], sorted(map(str, v))) for k, v in r.badchars.items()),
                 fact={'stores_examined': r.nstores})
        # ---------------- long double beyond the double range
        r2 = FiRun(mod, T, triple, 'ldbl')
        absorb(r2)
        times[pct + ' ldbl'] = round(r2.seconds, 2)
        nonterm = [n for (n, L, info) in r2.heavy_loops() if info is not None and info['closed'] != 'unrolled' and
                   not counted_exit(f, L)]
        bad2 = r2.failed(('bounds', 'cstr', 'fpcast'))
        ok = not nonterm and not bad2
        rep.inst('R-LDBL', FN, '%s: a long double beyond the double range is formatted safely' % pct, ok, w,
                 None if ok else 'the value is narrowed to double (an infinity beyond its range) after the classification: '
                 + ('loop(s) %s do not terminate; ' % nonterm if nonterm else '') +
                 '; '.join(sorted(set(o['detail'] for o in bad2)))[:600])
        # ---------------- infinities and NaN
        for cls, upper in (('nan', 0), ('nan', 1), ('+inf', 0), ('-inf', 1)):
            r3 = FiRun(mod, T, triple, cls, upper)
            absorb(r3)
            times['%s %s' % (pct, cls)] = round(r3.seconds, 2)
            loops_run = [n for (n, L, info) in r3.heavy_loops() if info is not None]
            nonterm = [n for (n, L, info) in r3.heavy_loops() if info is not None and info['closed'] != 'unrolled']
            bad3 = r3.failed(('bounds', 'cstr', 'fpcast'))
            word = cls.lstrip('+-')
            ok = not loops_run and not bad3 and r3.nstores == 0
            rep.inst('R-NANINF', FN, '%s %s: no digit loop is entered' % (pct, cls), ok, w,
                     None if ok else ('the value reaches the digit generation' +
                                      (': loop(s) %s never terminate' % nonterm if nonterm else '') +
                                      ('; ' + '; '.join(sorted(set(o['detail'] for o in bad3)))[:400] if bad3 else '') +
                                      ('' if nonterm or bad3 else ' and is printed as a number')))
            want = word.upper() if upper else word
            toks = [t for (t, _) in r3.tokens]
            ok = bool(toks) and bool(r3.rets) and r3.handler_calls == 0 and all(
                t is not None and t.lstrip('+- ') == want and (t.startswith('-') if cls == '-inf' else not t.startswith('-') or cls == 'nan')
                for t in toks)
            rep.inst('R-NANINF', FN, '%s %s (%s-case conversion) is printed as the word %r' % (pct, cls, 'upper' if upper else 'lower', want),
                     ok, r3.tokens[0][1].where() if r3.tokens else w,
                     None if ok else 'texts handed to the string routine: %r; direct output calls: %d' % (toks, r3.handler_calls),
                     fact={'texts': toks})
    rep.extra['c13_fi_seconds'] = times
    return runs, facts


def upper_rule(rep, mod, T):
    """R-UPPER: inside the floating routine the upper-case bit of the directive word never decides control flow, it only
    selects between values (letters, words): the layout decided for the lower-case conversions is the layout of F E G"""
    f = mod.fn(FN)
    m = T['upper']
    n = 0
    for i in f.all_insts():
        if i.op != 'and' or not any(o.k == 'ci' and o.ival & m for o in i.ops) or \
                not any(o.k == 'arg' and o.argno == ROLE_OPS for o in i.ops):
            continue
        mask = [o.ival for o in i.ops if o.k == 'ci'][0]
        work = [i]
        seen = set()
        bad = []
        while work:
            x = work.pop()
            if x.id in seen:
                continue
            seen.add(x.id)
            for u in f.users(x):
                if u.op == 'dbg':
                    continue
                if u.op in ('icmp', 'zext', 'sext', 'trunc', 'xor') or (u.op in ('and', 'or') and u.bits == 1):
                    work.append(u)
                elif u.op == 'select' and u.ops[0].k == 'inst' and u.ops[0].id == x.id:
                    continue
                else:
                    bad.append(u)
        n += 1
        ok = not bad and mask == m
        rep.inst('R-UPPER', FN, 'test#%d of the upper-case bit only selects a value' % n, ok, i.where(),
                 None if ok else ('the bit is tested together with other bits (mask %#x)' % mask if mask != m else
                                  'the test decides %s at %s' % (bad[0].op, bad[0].where())))
    return n


# ----------------------------------------------------------------------------------------------
# emission part
# ----------------------------------------------------------------------------------------------
def sx_rules(rep, mod, T, fams, facts):
    import c13_sx
    f = mod.fn(FN)
    w = where_fn(f)
    times = {}
    for fam, triple in fams.items():
        pct = '%' + fam
        t0 = time.time()
        sx, rets, wp = c13_sx.run_family(mod, T, FN, triple, facts[fam]['ranges'], facts[fam]['cstr_end'])
        bad = [(s, rv) for s, rv in rets if not (isinstance(rv, c13_sx.Lin) and s.cons.entails_eq(rv, s.E))]
        ok = bool(rets) and not bad
        rep.inst('R-PCACC', FN, '%s: returned count == number of output callbacks on every path' % pct, ok, w,
                 None if ok else ('on some path the routine returns %r after %r callback calls' % (bad[0][1], bad[0][0].E)
                                  if bad else 'no path reaches a return'), fact={'paths': len(rets)})
        for o in sx.obligs.values():
            if o['kind'] == 'count-nonneg':
                rep.inst('R-EMITCOUNT', o['fn'], '%s: emission count %s is never negative' % (pct, o['key']), o['ok'],
                         o['where'], o['detail'])
        for (fn_, key), r in sorted(sx.reads.items()):
            if not facts[fam]['clean']:
                break       # premise missing: R-FBUF / R-FTERM / R-NANINF / R-LDBL report why the cursor ranges are not available
            rep.inst('R-EMITREAD', fn_, '%s: emission loop %s reads inside the local buffer' % (pct, key), r['ok'],
                     r['where'], r['detail'])
        res, npaths = c13_sx.float_layout(sx, rets, f, T, wp, fam)
        if npaths == 0:
            raise AnalysisBroken('%s: no return path emits the digit buffer (anchor changed)' % FN)
        for key in sorted(res):
            ok, detail = res[key]
            rep.inst('R-FLAYOUT', FN, '%s: %s' % (pct, key), ok, w, detail)
        times[pct] = round(time.time() - t0, 2)
    rep.extra['c13_sx_seconds'] = times


# ----------------------------------------------------------------------------------------------
def run(rep, repo, tier):
    mod = unit(repo)
    rep.units.append(SRC)
    T = parser_tables(mod)
    D = dispatch(mod)
    fam_by_conv = convset_rule(rep, mod, T, D)
    fams = {}
    for c in 'feg':
        if c in fam_by_conv and None not in fam_by_conv[c]:
            fams[c] = fam_by_conv[c]
    if not fams:
        raise AnalysisBroken('no floating conversion reaches %s with constant mode arguments' % FN)
    runs, facts = fi_rules(rep, mod, T, fams)
    upper_rule(rep, mod, T)
    sx_rules(rep, mod, T, fams, facts)
