"""C15 content clauses, part 2: what igris/shell/vterm.c writes to the terminal (R-SCREEN) and hands to the execute
callback (R-EXECUTE).

The automaton is interpreted in the same concrete configurations as the editor (c15_content.py): every byte of the line
and of the history is a symbol.  The write / execute / signal callbacks are function objects of the analysis; a call
through them appends what they receive - the bytes behind the pointer, i.e. a sequence over the same symbols, the typed
character and constants - to the path state.  The emitted sequence is not compared with a fixed escape sequence (many
sequences redraw a line correctly); it is REPLAYED on a model of one VT100 screen line that starts out showing the
prompt, the line and the cursor of the editor before the key:

      printable byte (symbol or constant 32..126)  stored at the cursor, cursor one to the right (replace mode)
      ESC [ n D / ESC [ n C                        cursor n columns left / right (n defaults to 1, 0 means 1), the left
                                                   margin stops it
      ESC [ K, ESC [ 0 K                           cells from the cursor to the end of the row become blank
      CR                                           column 0            LF   next row, same column

and the clause is: afterwards the current row shows exactly prompt + line of the editor at the return (trailing blanks
ignored) and the screen cursor stands at column len(prompt) + cursor.  Any other control byte or escape sequence is not
modelled -> AnalysisBroken.

Assumption: the characters in the line occupy one column each (they were accepted as printable keys)."""
from common import *
from absval import IntVal, PtrVal, NULL, mk_const
from lin import Lin

VT = 'struct.vterm_automate'
BLANK = ('blank',)
PROMPT = [ord('$'), ord(' ')]
SIGINT = 2


class Unmodelled(AnalysisBroken):
    pass


class Screen:
    def __init__(self, cells, col):
        self.rows = [list(cells)]
        self.row = 0
        self.col = col

    def cur(self):
        return self.rows[self.row]

    def put(self, v):
        r = self.cur()
        while len(r) <= self.col:
            r.append(BLANK)
        r[self.col] = v
        self.col += 1

    def feed(self, seq, what):
        k = 0
        while k < len(seq):
            v = seq[k]
            c = v.const() if isinstance(v, IntVal) else None
            k += 1
            if c is None or 32 <= c <= 126:
                self.put(v)
            elif c == 13:
                self.col = 0
            elif c == 10:
                self.row += 1
                while len(self.rows) <= self.row:
                    self.rows.append([])
            elif c == 27:
                if k >= len(seq) or not isinstance(seq[k], IntVal) or seq[k].const() != ord('['):
                    raise Unmodelled('%s: escape sequence other than ESC [ written to the terminal' % what)
                k += 1
                num = ''
                while k < len(seq) and isinstance(seq[k], IntVal) and seq[k].const() is not None and \
                        chr(seq[k].const()).isdigit():
                    num += chr(seq[k].const())
                    k += 1
                if k >= len(seq) or not isinstance(seq[k], IntVal) or seq[k].const() is None:
                    raise Unmodelled('%s: unterminated / symbolic escape sequence written to the terminal' % what)
                fin = chr(seq[k].const())
                k += 1
                n = int(num) if num else None
                if fin == 'D':
                    self.col = max(0, self.col - (n or 1))
                elif fin == 'C':
                    self.col += (n or 1)
                elif fin == 'K' and not n:
                    del self.cur()[self.col:]
                else:
                    raise Unmodelled('%s: escape sequence ESC [ %s %s is not part of the screen model' % (what, num, fin))
            else:
                raise Unmodelled('%s: control byte %d written to the terminal is not part of the screen model' % (what, c))

    def shown(self, row=None):
        return strip_blank(self.rows[self.row if row is None else row])


def strip_blank(cells):
    """a row without its trailing blanks (erased cells and spaces look the same)"""
    r = list(cells)
    while r and (r[-1] is BLANK or (isinstance(r[-1], IntVal) and r[-1].const() == 32)):
        r.pop()
    return r


def vterm_rules(rep, repo, caps):
    import c15_content as cc
    from c15_content import Case, Readline, Agg, run_variants, same_byte, shows, show, is_ptr, slot_lengths, hist_configs
    src = os.path.join(repo, 'igris/shell/vterm.c')
    if not os.path.exists(src):
        raise AnalysisBroken('igris/shell/vterm.c not found (anchor vanished)')
    mod = compile_ir(src, repo)
    fname = 'vterm_automate_newdata'
    scr = Agg(rep, 'R-SCREEN')
    exe = Agg(rep, 'R-EXECUTE')
    def exe_add(clause, ok, detail):
        exe.add(fname, clause, ok, detail, where)

    fobj = mod.fn(fname)
    if fobj is None or fobj.decl:
        raise AnalysisBroken('%s not found in igris/shell/vterm.c (anchor vanished)' % fname)
    where = '%s:%d' % (fobj.file, fobj.line)

    def cells_eq(T, got, want):
        if len(got) != len(want):
            return False
        for g, w in zip(got, want):
            if g is BLANK or not same_byte(T, g, w):
                return False
        return True

    def cells(T, cs):
        return '[' + ' '.join('_' if c is BLANK else show(T, c) for c in cs) + ']'

    class Vt:
        """a vterm_automate in a concrete configuration, waiting for a key (state 2) unless told otherwise"""

        def __init__(self, case, cap, ln, cur, hs, head, ch, lens, vstate=2, echo=1, rlstate=0, last=0, lastsize=0,
                     signal=True):
            self.case = case
            self.signal = signal
            self.rl = Readline(case, VT, 'rl.', cap, ln, cur, hs, head, ch, lens, state=rlstate, last=last, lastsize=lastsize,
                               extra_fixed={'state': vstate, 'echo': echo}, pname='vterm')
            self.obj = self.rl.obj
            f = self.rl.fields
            for n in ('execute_callback', 'write_callback', 'signal_callback', 'execute_privdata', 'write_privdata',
                      'signal_privdata', 'prefix_string'):
                if n not in f:
                    raise AnalysisBroken('field %s of %s not found (anchor vanished?)' % (n, VT))
            st = case.st
            self.priv = {}
            for n, handler in (('write', self.on_write), ('execute', self.on_execute), ('signal', self.on_signal)):
                fo = st.new_obj('func', None, n + '_callback', {'desc': n + ' callback'})
                po = st.new_obj('param', Lin(1), n + '_privdata', {'desc': n + ' privdata'})
                case.callbacks[fo.id] = handler
                self.priv[n] = po.id
                st.mem[(self.obj, f[n + '_callback']['off'], 8)] = PtrVal(fo.id) if (n != 'signal' or signal) else NULL
                st.mem[(self.obj, f[n + '_privdata']['off'], 8)] = PtrVal(po.id)
            self.prompt = [mk_const(8, c) for c in PROMPT]
            pb = case.buffer('prompt', PROMPT + [0], 'prompt string', kind='param')
            st.mem[(self.obj, f['prefix_string']['off'], 8)] = PtrVal(pb)
            st.ghost['cc_out'] = ()
            st.ghost['cc_exec'] = ()
            st.ghost['cc_sig'] = ()
            st.ghost['cc_priv'] = True

        def on_write(self, case, st, i, args):
            n = case.cint(st, args[2], 'length handed to the write callback')
            p = case.cptr(st, args[1], 'pointer handed to the write callback')
            if n and not case.span_ok(st, p, n, i, 'write-callback-src'):
                return []
            st.ghost['cc_out'] = st.ghost['cc_out'] + tuple(case.rd(st, p, k, i) for k in range(n))
            if not is_ptr(args[0], self.priv['write'], 0):
                st.ghost['cc_priv'] = False
            return [(st, None)]

        def on_execute(self, case, st, i, args):
            n = case.cint(st, args[2], 'length handed to the execute callback')
            p = case.cptr(st, args[1], 'pointer handed to the execute callback')
            if not case.span_ok(st, p, n + 1, i, 'execute-callback-line'):
                return []
            st.ghost['cc_exec'] = st.ghost['cc_exec'] + ((tuple(case.rd(st, p, k, i) for k in range(n + 1)), n),)
            if not is_ptr(args[0], self.priv['execute'], 0):
                st.ghost['cc_priv'] = False
            return [(st, None)]

        def on_signal(self, case, st, i, args):
            st.ghost['cc_sig'] = st.ghost['cc_sig'] + (case.cint(st, args[1], 'signal number'),)
            if not is_ptr(args[0], self.priv['signal'], 0):
                st.ghost['cc_priv'] = False
            return [(st, None)]

        def screen_before(self):
            sl = self.rl.line
            return Screen(self.prompt + sl.text, len(self.prompt) + sl.cur)

        def line_at(self, T):
            sl = self.rl.line
            ln = self.rl.get(T, 'line.len')
            return self.case.bytes_at(T, sl.buf, 0, min(ln, sl.cap)), self.rl.get(T, 'line.cursor')

        def check_screen(self, T, out, tag, screen=None):
            """replay what this path wrote; the current row must show prompt + line, the cursor the editor's cursor"""
            s = screen or self.screen_before()
            seq = list(T.ghost['cc_out'])
            s.feed(seq, '%s [%s]' % (fname, self.case.label))
            text, cur = self.line_at(T)
            want = strip_blank(self.prompt + text)
            got = s.shown()
            out(tag + ': the screen shows the prompt and the line', cells_eq(T, got, want),
                'after writing %s the screen row shows %s, the editor holds %s' % (shows(T, seq), cells(T, got), cells(T, want)))
            out(tag + ': the screen cursor is where the editor cursor is', s.col == len(self.prompt) + cur,
                'after writing %s the screen cursor is in column %d, the editor cursor in column %d (prompt %d + cursor %d)'
                % (shows(T, seq), s.col, len(self.prompt) + cur, len(self.prompt), cur))
            out(tag + ': callbacks receive their private data', bool(T.ghost['cc_priv']), 'a callback received a foreign privdata pointer')
            return s

    def each(make, hists, lines, curhists=None, **kw):
        for cap, hs, head, lens in hists:
            for ln, cur in lines(cap):
                for ch in (curhists(hs) if curhists else (0,)):
                    def new_case():
                        case = Case(mod, fname, '')
                        vt = Vt(case, cap, ln, cur, hs, head, ch, lens, **kw)
                        return case, vt, 'cap %d, len %d, cursor %d, history of %d (stored lengths %s), headhist %d, curhist %d' % (
                            cap, ln, cur, hs, lens, head, ch)
                    run_variants(scr, new_case, make)

    H_ONE = [(cap, 2, 1, slot_lengths(0, 2, cap)) for cap in caps]
    H_ALL = list(hist_configs(caps[:1], patterns=(0,))) + H_ONE[1:]

    def L_FULL(cap):
        return [(ln, cur) for ln in range(cap) for cur in range(ln + 1)]

    def L_FEW(cap):
        return sorted(set([(0, 0), (cap - 1, 0), (cap - 1, cap - 1), (cap - 2, 1), (1, 1), (2, 1)]))

    def key16(v):
        return mk_const(16, v)

    # the vterm 'state' field and the readline 'state' field share a name: address the vterm one explicitly
    def vstate(vt, T):
        return vt.case.field(T, vt.obj, vt.rl.fields['state'])

    # -- keys that edit the line (readline state 0 / 2)
    def edit(rlstate):
        def make(case, vt):
            vs = []

            def add(label, tag, key_of, silent=False):
                def build():
                    key = key_of()

                    def chk(T, rv, out):
                        if silent:
                            out(tag + ': nothing is written', len(T.ghost['cc_out']) == 0,
                                'writes %s' % shows(T, list(T.ghost['cc_out'])))
                        vt.check_screen(T, out, tag)
                        out(tag + ': the automaton waits for the next key', vstate(vt, T) == 2, 'vterm state %d' % vstate(vt, T))
                        out(tag + ': no line is executed, no signal raised', not T.ghost['cc_exec'] and not T.ghost['cc_sig'],
                            'execute / signal callback called')
                    return [PtrVal(vt.obj), key], chk
                vs.append((', ' + label, build))
            sl = vt.rl.line
            if rlstate == 0:
                def printable():
                    x = case.ranged('c', 28, 126)
                    return IntVal(16, x, x)
                add('printable key', 'character' if sl.len < sl.cap - 1 else 'character when the line is full', printable,
                    silent=sl.len >= sl.cap - 1)
                add('backspace', 'backspace', lambda: key16(8), silent=sl.cur == 0)
                add('ESC', 'ESC', lambda: key16(27), silent=True)
            elif rlstate == 1:
                add('ESC [', 'ESC [', lambda: key16(0x5b), silent=True)
            elif rlstate == 2:
                add('ESC [ 3', 'delete', lambda: key16(0x33), silent=sl.cur == sl.len)
                add('ESC [ C', 'right', lambda: key16(0x43), silent=sl.cur == sl.len)
                add('ESC [ D', 'left', lambda: key16(0x44), silent=sl.cur == 0)
                add('ESC [ Z', 'unknown sequence', lambda: key16(0x5a), silent=True)
            else:
                add('~', 'closing byte of ESC [ 3 ~', lambda: key16(0x7e), silent=True)
            return vs
        return make
    for rlstate in (0, 1, 2, 3):
        each(edit(rlstate), H_ONE, L_FULL, rlstate=rlstate)
    # a wide line: cursor movements by two-digit amounts
    H_WIDE = [(14, 1, 0, [12])]
    for rlstate in (0, 2):
        each(edit(rlstate), H_WIDE, lambda cap: [(12, 0), (12, 1), (11, 0), (13, 0), (13, 2), (12, 12)], rlstate=rlstate)

    # -- history recall: the old line is replaced on the screen by the recalled one
    def recall(case, vt):
        def variant(c, d, name):
            def build():
                new = vt.rl.curhist + d
                moves = 0 <= new <= vt.rl.hs

                def chk(T, rv, out):
                    if not moves:
                        out(name + ' at the end of the history: nothing is written', len(T.ghost['cc_out']) == 0,
                            'writes %s' % shows(T, list(T.ghost['cc_out'])))
                    vt.check_screen(T, out, name)
                return [PtrVal(vt.obj), key16(c)], chk
            return (', ESC [ %s' % chr(c), build)
        return [variant(0x41, 1, 'up'), variant(0x42, -1, 'down')]
    each(recall, H_ALL, L_FULL, curhists=lambda hs: range(hs + 1), rlstate=2)
    each(recall, H_WIDE, lambda cap: [(12, 0), (12, 12), (13, 11), (11, 10)], curhists=lambda hs: (0, 1), rlstate=2)

    # -- newline: CR LF on the screen, the line to the execute callback, a fresh prompt
    def newline(case, vt):
        def variant(c):
            def build():
                sl = vt.rl.line

                def chk(T, rv, out):
                    s = vt.check_screen(T, out, 'newline')
                    out('newline: the entered line stays visible on the row above', s.row == 1 and
                        cells_eq(T, s.shown(0), strip_blank(vt.prompt + sl.text)), 'row above shows %s' % cells(T, s.shown(0)))
                    ex = T.ghost['cc_exec']
                    ok = len(ex) == 1
                    exe_add('newline: the execute callback is called once', ok,
                            None if ok else '[%s] called %d times' % (case.label, len(ex)))
                    if ok:
                        data, n = ex[0]
                        want = sl.text + [mk_const(8, 0)]
                        ok = n == sl.len and cc.same_seq(T, list(data), want)
                        exe_add('newline: the execute callback receives exactly the line, its length and a terminator', ok,
                                None if ok else '[%s] receives %s with length %d, the line was %s' % (
                                    case.label, shows(T, list(data)), n, shows(T, sl.text)))
                    text, cur = vt.line_at(T)
                    out('newline: the editor starts an empty line', text == [] and cur == 0, 'line %s' % shows(T, text))
                    out('newline: the automaton waits for the next key', vstate(vt, T) == 2, 'vterm state %d' % vstate(vt, T))
                return [PtrVal(vt.obj), key16(c)], chk
            return (', key %d' % c, build)
        return [variant(13), variant(10)]
    each(newline, H_ONE, L_FULL)

    def paired(case, vt):
        def build():
            def chk(T, rv, out):
                out('second half of a CR LF pair: nothing is written', len(T.ghost['cc_out']) == 0,
                    'writes %s' % shows(T, list(T.ghost['cc_out'])))
                vt.check_screen(T, out, 'second half of a CR LF pair')
                ok = not T.ghost['cc_exec']
                exe_add('second half of a CR LF pair: no line is executed', ok, None if ok else '[%s] executed' % case.label)
            return [PtrVal(vt.obj), key16(10)], chk
        return [('', build)]
    each(paired, H_ONE, L_FULL, last=13)

    # -- Ctrl-C: the line is abandoned
    def ctrl_c(case, vt):
        def build():
            def chk(T, rv, out):
                s = vt.check_screen(T, out, 'ctrl-c')
                out('ctrl-c: a new row is started', s.row == 1, 'row %d' % s.row)
                text, cur = vt.line_at(T)
                out('ctrl-c: the editor starts an empty line', text == [] and cur == 0, 'line %s' % shows(T, text))
                want = (SIGINT,) if vt.signal else ()
                out('ctrl-c: SIGINT to the signal callback (when there is one), nothing executed',
                    T.ghost['cc_sig'] == want and not T.ghost['cc_exec'], 'signals %r' % (T.ghost['cc_sig'],))
            return [PtrVal(vt.obj), key16(3)], chk
        return [('', build)]
    each(ctrl_c, H_ONE, L_FULL, signal=True)
    each(ctrl_c, H_ONE, L_FEW, signal=False)

    # -- no input / start
    def idle(case, vt):
        def build():
            def chk(T, rv, out):
                out('no input: nothing is written', len(T.ghost['cc_out']) == 0, 'writes %s' % shows(T, list(T.ghost['cc_out'])))
                vt.check_screen(T, out, 'no input')
            return [PtrVal(vt.obj), mk_const(16, 0xffff)], chk
        return [('', build)]
    each(idle, H_ONE, L_FEW)

    def start(case, vt):
        def build():
            def chk(T, rv, out):
                vt.check_screen(T, out, 'start', Screen([], 0))
                out('start: the automaton waits for the next key', vstate(vt, T) == 2, 'vterm state %d' % vstate(vt, T))
            return [PtrVal(vt.obj), mk_const(16, 0xffff)], chk
        return [('', build)]
    for vs_ in (0, 1):
        each(start, H_ONE, lambda cap: [(2, 1)], vstate=vs_)

    # -- echo off: the editor works, the terminal stays silent
    def mute(case, vt):
        def variant(label, key, rl_expect):
            def build():
                def chk(T, rv, out):
                    out('echo off: nothing is written', len(T.ghost['cc_out']) == 0, 'writes %s' % shows(T, list(T.ghost['cc_out'])))
                return [PtrVal(vt.obj), key16(key)], chk
            return (', ' + label, build)
        return [variant('printable key', 0x61, None), variant('backspace', 8, None), variant('newline', 13, None),
                variant('ctrl-c', 3, None)]
    each(mute, H_ONE, L_FEW, echo=0)

    scr.flush()
    exe.flush()
    return scr, exe
