"""C07 extension: the VALUE clauses of the integer <-> text conversions, decided mechanically.

c07.py proves the skeleton of the conversions (divide / emit remainder / reverse; acc * base + digit) and argues "the text
parses back to the value" with the division lemma in prose.  This module decides it on small shapes, with CONCRETE control
and SYMBOLIC digits:

  value  = sum d_i * B^i,  B one of 2, 8, 10, 16, 36 (a constant),  k = 1..4 digit symbols 0 <= d_i < B, d_(k-1) >= 1
           (plus 0, plus the same shapes negated, plus the boundary values of the type: minimum, -1, maximum, as constants)
  text   = ['-'] c_1 .. c_k stopper,  c_j a character symbol pre-split into its class ('0'-'9', 'a'-'z', 'A'-'Z': one whole
           class per case), digit value d_j = c_j - K(class), stopper = NUL or one class of characters that cannot continue
           the number in base B

R-TEXT       every renderer: after the call the buffer (an object of EXACTLY sign + digits + 1 bytes) holds ['-'] then the
             characters of d_(k-1) .. d_0 then NUL, the result is the documented pointer, no access outside the object;
             the letters of one renderer are of one case.
R-VALUE      every parser: result == [-] sum d_j * B^(k-j), *end == position behind the last digit, no byte behind the first
             character that cannot continue the number is read (the text object ends there).
R-ROUNDTRIP  parse(render(v)) == v and *end == the terminator, the parser being run in the state the renderer left.
R-PRINT      debug_printdec_*: the characters handed to debug_putchar / debug_print are the decimal text of the value;
             debug_printhex_uint4..64 and the typed hex printers, debug_printbin_uint4..64: fixed-width upper-case hex / binary text.

The abstract interpreter's domain is linear.  With a constant base the two operations that leave it - x / B and x % B on a
digit polynomial - are exact when quotient and remainder are supplied as the evident digit sums: if x = B * q + r with q an
integer combination of integer symbols and the state proves 0 <= r <= B - 1, then q = x div B and r = x mod B (uniqueness of
Euclidean division).  `ValInterp.euclid` is that summary (also behind x >> j, x & (2^j - 1), x & ~(2^j - 1), x & 2^j and the
truncating signed division of a dividend of known sign).  Loops are executed on their concrete bounds, never abstracted; a
loop that cannot be executed exactly, a non-constant offset into a text object etc. make the scenario `Unresolved`
(rep.defer_broken -> exit 2 unless something reports a violation), never a verdict."""
import itertools
import multiprocessing
import os
import time

from c07_common import *
from absval import State, TOP
from lin import _L
from irlib import keep_all_but_new_helpers

R_TEXT, R_VALUE, R_RT, R_PRINT = 'R-TEXT', 'R-VALUE', 'R-ROUNDTRIP', 'R-PRINT'
BASES = (2, 8, 10, 16, 36)
KMAX = 4

# (renderer, result points at the terminator?)
IGRIS_TOA = ['igris_u8toa', 'igris_u16toa', 'igris_u32toa', 'igris_u64toa',
             'igris_i8toa', 'igris_i16toa', 'igris_i32toa', 'igris_i64toa']
LIBC_TOA = ['itoa', 'utoa', 'ltoa', 'ultoa']
IGRIS_ATO = ['igris_atou8', 'igris_atou16', 'igris_atou32', 'igris_atou64',
             'igris_atoi8', 'igris_atoi16', 'igris_atoi32', 'igris_atoi64']
# the pairs the property names: same width, same signedness; the libc shims against the libc parsers in base 10 and
# against the igris parsers of their width in every base (their letters are the parser's business, see R-ALPHA)
PAIRS = {'igris_u8toa': [('num', 'igris_atou8')], 'igris_u16toa': [('num', 'igris_atou16')],
         'igris_u32toa': [('num', 'igris_atou32')], 'igris_u64toa': [('num', 'igris_atou64')],
         'igris_i8toa': [('num', 'igris_atoi8')], 'igris_i16toa': [('num', 'igris_atoi16')],
         'igris_i32toa': [('num', 'igris_atoi32')], 'igris_i64toa': [('num', 'igris_atoi64')],
         'itoa': [('num', 'igris_atoi32'), ('atol', 'atoi')], 'utoa': [('num', 'igris_atou32')],
         'ltoa': [('num', 'igris_atoi64'), ('atol', 'atol')], 'ultoa': [('num', 'igris_atou64')]}
PRINTDEC = ['debug_printdec_uint64', 'debug_printdec_unsigned_long_long', 'debug_printdec_unsigned_long',
            'debug_printdec_unsigned_int', 'debug_printdec_unsigned_short', 'debug_printdec_unsigned_char',
            'debug_printdec_uint32', 'debug_printdec_uint16', 'debug_printdec_uint8',
            'debug_printdec_signed_long_long', 'debug_printdec_signed_long', 'debug_printdec_signed_int',
            'debug_printdec_signed_short', 'debug_printdec_signed_char']
PRINTHEX = [('debug_printhex_uint4', 1), ('debug_printhex_uint8', 2), ('debug_printhex_uint16', 4),
            ('debug_printhex_uint32', 8), ('debug_printhex_uint64', 16)]
PRINTHEX += [('debug_printhex_unsigned_char', 2), ('debug_printhex_unsigned_short', 4), ('debug_printhex_unsigned_int', 8),
             ('debug_printhex_signed_char', 2), ('debug_printhex_signed_short', 4), ('debug_printhex_signed_int', 8)]
PRINTHEX_THOROUGH = [('debug_printhex_unsigned_long', 16), ('debug_printhex_unsigned_long_long', 16),
                     ('debug_printhex_signed_long', 16), ('debug_printhex_signed_long_long', 16)]
PRINTBIN = [('debug_printbin_uint4', 4), ('debug_printbin_uint8', 8), ('debug_printbin_uint16', 16), ('debug_printbin_uint32', 32),
            ('debug_printbin_uint64', 64)]


LABELS = {'zero': 'zero', 'positive': 'positive values (symbolic digits)', 'negative': 'negative values (symbolic digits)',
          'boundary': 'minimum, -1, maximum of the type'}


class Unresolved(Exception):
    """the scenario cannot be followed exactly: no verdict"""


# ----------------------------------------------------------------------------------------------
# interpreter: concrete control, symbolic digits
# ----------------------------------------------------------------------------------------------
class ValInterp(Interp7):
    def __init__(self, mod, externals=None, opaque=()):
        Interp7.__init__(self, mod, externals, opaque)
        self.max_peel = 72           # 64 binary digits + slack
        self.max_peel_states = 90
        self.oob = []                # accesses outside an exact object: (function, where, text)
        self.lemma = 0               # applications of the Euclidean summary

    # -- x = B*q + r, 0 <= r < B  =>  q = x div B, r = x mod B ------------------------------------------------------------
    def euclid(self, st, x, B):
        c0 = x.c % B
        q = Lin((x.c - c0) // B)
        r = Lin(c0)
        for s, k in x.t.items():
            if k % B == 0:
                q = q + Lin.sym(s) * (k // B)
            else:
                r = r + Lin.sym(s) * k
        if r.t and not (st.cons.entails_le(0, r) and st.cons.entails_le(r, B - 1)):
            return None
        self.lemma += 1
        return q, r

    def and_mask(self, st, x, k, w):
        """x & k for a constant k: every run of one bits [lo, hi) of k contributes ((x div 2^lo) mod 2^(hi-lo)) * 2^lo"""
        total = Lin(0)
        j = 0
        while k >> j:
            if not (k >> j) & 1:
                j += 1
                continue
            lo = j
            while (k >> j) & 1:
                j += 1
            q = x
            if lo:
                e = self.euclid(st, x, 1 << lo)
                if e is None:
                    return None
                q = e[0]
            if j < w:
                e = self.euclid(st, q, 1 << (j - lo))
                if e is None:
                    return None
                q = e[1]
            total = total + q * (1 << lo)
        return total

    def binop(self, st, op, a, b, inst):
        w = inst.bits
        if isinstance(a, IntVal) and isinstance(b, IntVal) and w > 1:
            ca, cb = a.const(), b.const()
            if op in ('udiv', 'urem', 'lshr') and ca is None and cb is not None:
                B = cb if op != 'lshr' else ((1 << cb) if 0 < cb < w else None)
                au = st.as_u(a)
                if B is not None and B >= 2 and au is not None:
                    e = self.euclid(st, au, B)
                    if e is not None:
                        return IntVal(w, e[1] if op == 'urem' else e[0], None)
            elif op == 'and' and (ca is None) != (cb is None):
                k, x = (ca, b) if ca is not None else (cb, a)
                xu = st.as_u(x)
                if xu is not None and k > 0:
                    r = self.and_mask(st, xu, k, w)
                    if r is not None:
                        return IntVal(w, r, None)
            elif op == 'ashr' and ca is None and cb is not None and 0 < cb < w:
                as_ = st.as_s(a)
                if as_ is not None and st.cons.entails_le(0, as_):
                    e = self.euclid(st, as_, 1 << cb)
                    if e is not None:
                        return IntVal(w, e[0], e[0])
            elif op in ('sdiv', 'srem') and ca is None and b.sconst() is not None and b.sconst() >= 2:
                # truncating division of a dividend of known sign: magnitudes divide like unsigned values
                as_ = st.as_s(a)
                B = b.sconst()
                if as_ is not None:
                    sg = 1 if st.cons.entails_le(0, as_) else (-1 if st.cons.entails_le(as_, 0) else 0)
                    e = self.euclid(st, as_ * sg, B) if sg else None
                    if e is not None:
                        return IntVal(w, None, (e[0] if op == 'sdiv' else e[1]) * sg)
        return Interp7.binop(self, st, op, a, b, inst)

    # -- a select between two constants on a 0/1-valued quantity is linear: c0 + (c1 - c0) * e ---------------------------
    def exec_inst(self, fn, i, st):
        if i.op == 'select' and i.ty.get('k') == 'int' and i.bits > 1:
            c = self.val(st, i.ops[0], fn)
            a = self.val(st, i.ops[1], fn)
            b = self.val(st, i.ops[2], fn)
            if isinstance(c, CondVal) and c.k == 'cmp' and c.args[0] in ('ne', 'eq') and isinstance(a, IntVal) and \
                    isinstance(b, IntVal) and a.const() is not None and b.const() is not None and \
                    self.decide(st, c) is None:
                x, y = c.args[1], c.args[2]
                if isinstance(x, IntVal) and isinstance(y, IntVal) and y.const() == 0 and x.u is not None and \
                        len(x.u.t) == 1 and x.u.c == 0:
                    (sy, m), = x.u.t.items()
                    e = Lin.sym(sy)
                    if m > 0 and st.cons.entails_le(0, e) and st.cons.entails_le(e, 1):
                        c1, c0 = (a.const(), b.const()) if c.args[0] == 'ne' else (b.const(), a.const())
                        st.env[('i', i.id)] = IntVal(i.bits, e * (c1 - c0) + c0, None)
                        return [st]
        if i.op == 'load' and i.ty.get('bits') == 8:
            p = self.val(st, i.ops[0], fn)
            if isinstance(p, PtrVal) and not p.is_null and not p.off.is_const():
                out = self.table_load(fn, i, st, p)
                if out is not None:
                    return out
        return Interp7.exec_inst(self, fn, i, st)

    # -- truncation of a digit sum: x mod 2^w ------------------------------------------------------------------------------------
    def cast(self, st, inst, a):
        if inst.op == 'trunc' and isinstance(a, IntVal) and a.const() is None and inst.ty.get('bits', 0) > 1:
            w = inst.ty['bits']
            xu = st.as_u(a)
            if xu is not None and not st.cons.entails_le(xu, (1 << w) - 1):
                e = self.euclid(st, xu, 1 << w)
                if e is not None:
                    return IntVal(w, e[1], None)
        return Interp7.cast(self, st, inst, a)

    # -- digit tables: "0123456789abcdef"[d] with a symbolic d.  The table is cut into runs on which table[i] - i is constant
    # (one case per run, like the two arms of the usual ternary); on a run the byte is d + K
    def table_load(self, fn, i, st, p):
        o = st.objs.get(p.obj)
        g = o.info.get('g') if o is not None and o.kind == 'global' else None
        init = g.get('init') if g and g.get('const') else None
        if not (isinstance(init, list) and init and all(isinstance(x, int) for x in init) and g['ty'].get('size') == len(init)):
            return None
        runs = []
        for j, c in enumerate(init):
            c &= 255
            if runs and runs[-1][2] == c - j:
                runs[-1][1] = j
            else:
                runs.append([j, j, c - j])
        out = []
        for (lo, hi, K) in runs:
            s = feasible(self, st, [(lo, p.off), (p.off, hi)])
            if s is None:
                continue
            if len(out) >= 8:
                raise Unresolved('table %s read at %r: too many cases (%s)' % (self.describe_obj(st, p.obj), p.off, i.where()))
            s.env[('i', i.id)] = IntVal(8, p.off + K, None) if hi + K <= 255 and lo + K >= 0 else mk_const(8, lo + K)
            out.append(s)
        if feasible(self, st, [(p.off, -1)]) is not None or feasible(self, st, [(len(init), p.off)]) is not None:
            if self.recording == 0:
                self.oob.append((fn.name, i.where(), 'load at offset %r of the %d-byte table %s' % (p.off, len(init), self.describe_obj(st, p.obj))))
        self.checked += 1
        return out

    # -- loops are executed, never abstracted ---------------------------------------------------------------------------------
    def run_loop(self, fn, L, st, frm, rets):
        """the loop is executed iteration by iteration on the concrete shape (every exit test decided by the state or
        split into feasible cases); no abstraction, no second pass"""
        self.loops_seen += 1
        header = L['header']
        cur = [(st, frm)]
        out = []
        try:
            for k in range(self.max_peel + 1):
                nxt = []
                for (s, f) in cur:
                    self.eval_phis(fn, header, s, f)
                    latches, exits = self.run_region(fn, L, [(s, f)], rets)
                    nxt.extend(latches)
                    out.extend(exits)
                if not nxt:
                    return out
                if len(nxt) > self.max_peel_states:
                    break
                cur = nxt
        except AnalysisBroken as e:
            raise Unresolved(str(e))
        raise Unresolved('loop at %s of %s is not decided by the concrete shape within %d iterations / %d paths'
                         % (header.term.where(), fn.name, self.max_peel, self.max_peel_states))

    # -- a call without a summary could write anything into the text: no verdict -----------------------------------------------
    def default_external(self, st, i, callee, args):
        raise Unresolved('call of %s (no summary) at %s' % (callee, i.where()))

    def exec_call(self, fn, i, st):
        if i.callee is None:
            raise Unresolved('indirect call at %s' % i.where())
        return Interp7.exec_call(self, fn, i, st)

    # -- an access outside an exact object (text buffers, locals) ends the path and is recorded ------------------------------
    def check_access(self, st, p, size, inst, kind):
        o = st.objs.get(p.obj) if isinstance(p, PtrVal) and not p.is_null else None
        if o is None or o.size is None or not (o.info.get('exact') or o.kind == 'alloca') or p.lo is not None:
            return Interp7.check_access(self, st, p, size, inst, kind)
        size = _L(size)
        if not p.off.is_const() or not size.is_const() or not o.size.is_const():
            raise Unresolved('%s at a non-constant offset %r of %s (%s)' % (kind, p.off, self.describe_obj(st, p.obj), inst.where()))
        self.checked += 1
        if not (0 <= p.off.c and p.off.c + size.c <= o.size.c):
            if self.recording == 0:
                self.oob.append((inst.fn.name, inst.where(), '%s of %d byte(s) at offset %d of %s, an object of %d byte(s)' % (
                    kind, size.c, p.off.c, self.describe_obj(st, p.obj), o.size.c)))
            st.bottom = True

    # -- a byte of a wider cell (little endian): (x div 256^lane) mod 256 ----------------------------------------------------
    def load(self, st, p, ty, inst):
        size = (ty['bits'] + 7) // 8 if ty.get('k') == 'int' else ty.get('size')
        if isinstance(p, PtrVal) and not p.is_null and p.off.is_const() and size and (p.obj, p.off.c, size) not in st.mem:
            ov = [(off, sz, v) for (o, off, sz), v in st.mem.items() if o == p.obj and off < p.off.c + size and p.off.c < off + sz]
            if ov and not all(isinstance(v, IntVal) and v.const() is not None for (_, _, v) in ov):
                (off, sz, v) = ov[0]
                if not (len(ov) == 1 and size == 1 and ty.get('k') == 'int' and isinstance(v, IntVal)):
                    raise Unresolved('load of %d byte(s) at offset %d of %s overlaps cells of another size (%s)'
                                     % (size, p.off.c, self.describe_obj(st, p.obj), inst.where()))
                self.check_access(st, p, 1, inst, 'load')
                if st.bottom:
                    return TOP
                xu = st.as_u(v)
                lane = p.off.c - off
                e2 = None
                if xu is not None:
                    e = self.euclid(st, xu, 256 ** lane) if lane else (xu, None)
                    e2 = self.euclid(st, e[0], 256) if e is not None else None
                if e2 is None:
                    raise Unresolved('byte lane %d of %r is not a digit sum (%s)' % (lane, v, inst.where()))
                return IntVal(8, e2[1], None)
        return Interp7.load(self, st, p, ty, inst)


# ----------------------------------------------------------------------------------------------
# shapes
# ----------------------------------------------------------------------------------------------
def int_type(f, idx):
    """(bits, signed) of integer parameter idx (idx None: the result)"""
    ty = f.ret if idx is None else f.params[idx]['ty']
    if ty.get('k') != 'int':
        raise AnalysisBroken('%s: %s is not an integer (anchor changed)' % (f.name, 'result' if idx is None else 'parameter %d' % idx))
    dit = f.d.get('ditypes') or []
    k = 0 if idx is None else 1 + idx
    if k >= len(dit) or dit[k].get('signed') not in (0, 1):
        raise AnalysisBroken('%s: signedness of %s unknown (debug info)' % (f.name, 'result' if idx is None else 'parameter %d' % idx))
    return ty['bits'], dit[k]['signed'] == 1


def digits_of(v, B):
    out = []
    while True:
        out.append(v % B)
        v //= B
        if not v:
            return out[::-1]


def value_shapes(bits, signed, B, kmax=KMAX):
    """[(class, description, builder)]: builder(st) -> (IntVal argument, expected magnitude digits msd first (Lin | int),
    negative?, magnitude Lin)"""
    out = []
    umax = (1 << (bits - 1)) - 1 if signed else (1 << bits) - 1

    def const(v):
        def mk(st):
            m = abs(v)
            return mk_const(bits, v), digits_of(m, B), v < 0, Lin(m)
        return mk

    def sym(k, neg):
        lim = (1 << (bits - 1)) if neg else umax

        def mk(st):
            ds = []
            poly = Lin(0)
            for i in range(k):
                d = st.fresh_int(8, False, 'd%d' % i)
                st.cons.add_le(d.u, B - 1)
                if i == k - 1:
                    st.cons.add_le(1, d.u)
                ds.append(d.u)
                poly = poly + d.u * (B ** i)
            if B ** k - 1 > lim:
                st.cons.add_le(poly, lim)
            a = IntVal(bits, None, -poly) if neg else IntVal(bits, poly, poly if signed or B ** k - 1 < (1 << (bits - 1)) else None)
            return a, ds[::-1], neg, poly
        return mk
    out.append(('zero', '0', const(0)))
    for k in range(1, kmax + 1):
        if B ** (k - 1) <= umax:
            out.append(('positive', 'v = %s, 0 <= d_i < %d, d%d >= 1%s' % (
                ' + '.join('d%d*%d' % (i, B ** i) if i else 'd0' for i in range(k)), B, k - 1,
                ', v <= %d' % umax if B ** k - 1 > umax else ''), sym(k, False)))
        if signed and B ** (k - 1) <= (1 << (bits - 1)):
            out.append(('negative', 'v = -(%s), 0 <= d_i < %d, d%d >= 1%s' % (
                ' + '.join('d%d*%d' % (i, B ** i) if i else 'd0' for i in range(k)), B, k - 1,
                ', v >= %d' % -(1 << (bits - 1)) if B ** k - 1 > (1 << (bits - 1)) else ''), sym(k, True)))
    bnd = [umax] + ([-(1 << (bits - 1)), -1] if signed else [])
    for v in bnd:
        out.append(('boundary', str(v), const(v)))
    return out


def char_of_digit(it, st, cell, d):
    """does the byte `cell` show digit d?  (ok, set of letter offsets used, text)"""
    if not isinstance(cell, IntVal):
        return False, set(), 'holds %r' % (cell,)
    cu = st.as_u(cell)
    if cu is None:
        cu = st.force_u(cell)
    d = _L(d)
    ks = set()
    lo = feasible(it, st, [(d, 9)])
    hi = feasible(it, st, [(10, d)])
    if lo is None and hi is None:
        return True, ks, ''
    if lo is not None and not lo.cons.entails_eq(cu, d + 48):
        return False, ks, 'holds %r for the digit value %r <= 9, expected \'0\' + digit' % (cu, d)
    if hi is not None:
        K = [k for k in (87, 55) if hi.cons.entails_eq(cu, d + k)]
        if not K:
            return False, ks, 'holds %r for the digit value %r >= 10, expected \'a\' + digit - 10 (or \'A\' + digit - 10)' % (cu, d)
        ks.add(K[0])
    return True, ks, ''


def show_text(st, obj, n):
    out = []
    for j in range(n):
        v = st.mem.get((obj, j, 1))
        c = v.const() if isinstance(v, IntVal) else None
        out.append('?' if v is None else (repr(chr(c)) if c is not None and 32 <= c < 127 else (str(c) if c is not None else repr(st.as_u(v) or v))))
    return '[' + ', '.join(out) + ']'


class Book:
    """rule instances collected by the scenarios of one task; an instance aggregates the scenarios of its key"""

    def __init__(self):
        self.inst = {}
        self.unresolved = []
        self.alpha = {}
        self.n = 0
        self.paths = 0
        self.lemma = 0

    def add(self, rule, fn, key, ok, where_, detail=None):
        r = self.inst.get((rule, fn, key))
        if r is None:
            r = self.inst[(rule, fn, key)] = {'ok': True, 'where': where_, 'detail': None, 'n': 0}
        r['n'] += 1
        if not ok and r['ok']:
            r['ok'] = False
            r['detail'] = detail

    def merge(self, o):
        for k, r in o.inst.items():
            m = self.inst.get(k)
            if m is None:
                self.inst[k] = dict(r)
            else:
                m['n'] += r['n']
                if not r['ok'] and m['ok']:
                    m['ok'] = False
                    m['detail'] = r['detail']
        self.unresolved += o.unresolved
        for k, v in o.alpha.items():
            self.alpha.setdefault(k, set()).update(v)
        self.n += o.n
        self.paths += o.paths
        self.lemma += o.lemma


# ----------------------------------------------------------------------------------------------
# parsers: one run on a given text object
# ----------------------------------------------------------------------------------------------
def call(it, f, st, args):
    it.stack = [(f.name, 'entry')]
    try:
        return it.run_function(f, st, list(args))
    except AnalysisBroken as e:
        raise Unresolved(str(e))        # path explosion, unsupported instruction ...: no verdict for this scenario
    finally:
        it.stack = []


def run_parser(mod, f, st, text, B, with_end=True):
    """interpret parser f on the text object in state st; -> (interp, [(state, result, end cell value)])"""
    it = ValInterp(mod)
    args = [PtrVal(text, Lin(0))]
    endo = None
    if len(f.params) == 3:
        bb, _ = int_type(f, 1)
        args.append(mk_const(bb, B))
        if with_end:
            endo = st.new_obj('param', Lin(8), 'end', {'desc': 'the end pointer cell', 'exact': True})
            args.append(PtrVal(endo.id, Lin(0)))
        else:
            args.append(NULL)
    elif len(f.params) != 1:
        raise AnalysisBroken('%s: unexpected parameter list (anchor changed)' % f.name)
    rets = call(it, f, st, args)
    return it, [(T, rv, T.mem.get((endo.id, 0, 8)) if endo is not None else None) for (T, rv) in rets]


def check_parse(book, rule, fn_report, keybase, wf, desc, f, it, res, text, want, endpos, T0=None, clauses=('value', 'end', 'extent')):
    """want: Lin (signed mathematical value); endpos: int or None"""
    bits, signed = int_type(f, None)
    okv = oke = bool(res) or bool(it.oob)       # a path that ends in an access outside the text is reported by the extent clause
    dv = de = None if okv else '%s: no path returns' % desc
    for (T, rv, endv) in res:
        book.paths += 1
        if not isinstance(rv, IntVal):
            okv, dv = False, 'the result is %r' % (rv,)
        else:
            l = T.force_s(rv) if signed else T.force_u(rv)
            if not T.cons.entails_eq(l, want):
                if okv:
                    dv = '%s: the result is %r, expected %r%s' % (desc, l, want, it.explain(T, [l, want]))
                okv = False
        if endpos is not None:
            good = isinstance(endv, PtrVal) and not endv.is_null and endv.obj == text and endv.off.is_const() and endv.off.c == endpos
            if not good:
                if oke:
                    de = '%s: *end is %r, expected offset %d of the text (the first character that is not part of the number)' % (
                        desc, endv, endpos)
                oke = False
    if 'value' in clauses:
        book.add(rule, fn_report, keybase + 'value', okv, wf, dv)
    if 'end' in clauses and endpos is not None:
        book.add(rule, fn_report, keybase + 'end position', oke, wf, de)
    if 'extent' in clauses:
        book.add(rule, fn_report, keybase + 'reads nothing outside the text', not it.oob, wf,
                 None if not it.oob else '%s: %s (%s)' % (desc, it.oob[0][2], it.oob[0][1]))
    book.lemma += it.lemma


# ----------------------------------------------------------------------------------------------
# tasks
# ----------------------------------------------------------------------------------------------
_CTX = {}


def unit_of(name):
    for u in ('num', 'itoa', 'atol', 'dprint'):
        m = _CTX.get(u)
        if m is not None:
            f = m.fn(name)
            if f is not None and not f.decl:
                return u
    raise AnalysisBroken('function %s not found (anchor vanished)' % name)


def task_render(fname, B, tier='quick'):
    """R-TEXT + R-ROUNDTRIP of one renderer in one base"""
    book = Book()
    unit = unit_of(fname)
    mod = _CTX[unit]
    f = need(mod, fname)
    wf = where(f)
    at_end = unit == 'num'
    bits, signed = int_type(f, 0)
    bbits, _ = int_type(f, 2)
    if f.params[1]['ty'].get('k') != 'ptr' or f.ret.get('k') != 'ptr':
        raise AnalysisBroken('%s: not char *f(value, char *, base) (anchor changed)' % fname)
    for (cls, desc, mk) in value_shapes(bits, signed, B, KMAX + 2 if tier == 'thorough' else KMAX):
        label = LABELS[cls]
        kb = 'base %d: %s: ' % (B, label)
        desc = '%s(%s, buf, %d)' % (fname, desc, B)
        book.n += 1
        try:
            it = ValInterp(mod)
            st = State()
            a, digs, neg, mag = mk(st)
            n = (1 if neg else 0) + len(digs)
            buf = st.new_obj('param', Lin(n + 1), 'buf', {'desc': 'the text buffer (sign + digits + terminator = %d bytes)' % (n + 1),
                                                           'exact': True})
            rets = call(it, f, st, [a, PtrVal(buf.id, Lin(0)), mk_const(bbits, B)])
            okt = okr = bool(rets) or bool(it.oob)
            dt = dr = None if okt else '%s: no path returns' % desc
            for (T, rv) in rets:
                book.paths += 1
                exp = ([45] if neg else []) + list(digs) + [0]
                for j, e in enumerate(exp):
                    cell = T.mem.get((buf.id, j, 1))
                    if j < n and not (neg and j == 0):
                        good, ks, why = char_of_digit(it, T, cell, e)
                        book.alpha.setdefault(fname, set()).update(ks)
                    else:
                        good = isinstance(cell, IntVal) and cell.const() == e
                        why = 'holds %s, expected %s' % ('nothing' if cell is None else (cell.const() if cell.const() is not None else cell),
                                                         '\'-\'' if e == 45 else 'the terminator')
                    if not good and okt:
                        okt = False
                        dt = '%s: byte %d of the text %s; buffer = %s' % (desc, j, why if cell is not None else 'is never written',
                                                                         show_text(T, buf.id, n + 1))
                want = n if at_end else 0
                good = isinstance(rv, PtrVal) and rv.obj == buf.id and rv.off.is_const() and rv.off.c == want
                if not good and okr:
                    okr = False
                    dr = '%s: returns %r, expected buf + %d' % (desc, rv, want)
            book.add(R_TEXT, fname, kb + 'text == [-] digits (most significant first) NUL', okt, wf, dt)
            book.add(R_TEXT, fname, kb + ('result == the terminator position' if at_end else 'result == buf'), okr, wf, dr)
            book.add(R_TEXT, fname, kb + 'no access outside sign + digits + terminator', not it.oob, wf,
                     None if not it.oob else '%s: %s (%s)' % (desc, it.oob[0][2], it.oob[0][1]))
            book.lemma += it.lemma
            # composition: the parser runs in the state the renderer left
            if not (okt and rets):
                continue
            for (punit, pname) in PAIRS.get(fname, ()):
                if punit == 'atol' and B != 10:
                    continue
                pf = need(_CTX[punit], pname)
                pbits, psigned = int_type(pf, None)
                if pbits < bits:      # itoa -> atoi etc. have the same width; a narrower parser is not a pair
                    raise AnalysisBroken('%s/%s: widths differ' % (fname, pname))
                for (T, rv) in rets:
                    it2, res = run_parser(_CTX[punit], pf, T.fork(), buf.id, B)
                    # the text is what R-TEXT demands, so a wrong value is the parser's: reported under the parser
                    check_parse(book, R_RT, pname, 'base %d: %s: text of %s: ' % (B, label, fname), where(pf),
                                '%s(%s)' % (pname, desc), pf, it2, res, buf.id, -mag if neg else mag,
                                n if len(pf.params) == 3 else None, clauses=('value', 'end'))
        except Unresolved as e:
            book.unresolved.append('%s: %s' % (desc, e))
    return book


def digit_classes(B):
    cl = [('0-9', 48, 48 + min(B, 10) - 1, 48)]
    if B > 10:
        cl += [('a-z', 97, 97 + B - 11, 87), ('A-Z', 65, 65 + B - 11, 55)]
    return cl


def stopper_classes(B):
    """classes of characters that cannot continue a number in base B: (name, lo, hi) as unsigned bytes"""
    st_ = [('NUL', 0, 0), ('1..47', 1, 47), ('58..64', 58, 64), ('91..96', 91, 96), ('123..127', 123, 127), ('128..255', 128, 255)]
    if B < 10:
        st_.append(('digits >= base', 48 + B, 57))
    if B <= 10:
        st_ += [('letters', 97, 122), ('LETTERS', 65, 90)]
    elif B < 36:
        st_ += [('letters >= base', 97 + B - 10, 122), ('LETTERS >= base', 65 + B - 10, 90)]
    return st_


def text_plan(B, tier, wide):
    """[(class label, sign, (digit class,)*k, stopper class)]"""
    cl = digit_classes(B)
    out = []
    for k in range(0, KMAX + 1):
        for combo in itertools.product(cl, repeat=k):
            if len(cl) > 1 and k >= (5 if wide and tier == 'thorough' else 4 if wide else 3) and len(set(c[0] for c in combo)) > 1:
                # long mixed texts: every class at every position once (rotations of the class list)
                if not any(all(combo[j][0] == cl[(j + r) % len(cl)][0] for j in range(k)) for r in range(len(cl))):
                    continue
            out.append(('digits then NUL', combo, ('NUL', 0, 0)))
    for s in stopper_classes(B)[1:]:
        for k in (0, 1, 2):
            out.append(('digits then a character that cannot continue the number', (cl[0],) * k, s))
        if len(cl) > 1:
            out.append(('digits then a character that cannot continue the number', (cl[1], cl[2]), s))
    return out


# atol skips white space and takes one sign character: where the number has not begun those are no stoppers
IGRIS_START = [('1..44', 1, 44), ('46..47', 46, 47)]
LIBC_START = [('1..8', 1, 8), ('14..31', 14, 31), ('33..42', 33, 42), ('44', 44, 44), ('46..47', 46, 47)]


def make_text(st, sign, combo, stop, B):
    """text object: sign, k digit characters, the stopper and - behind a stopper that is not NUL - a terminator;
    -> (object id, magnitude Lin, description)"""
    k = len(combo)
    n = len(sign) + k
    size = n + 1 + (1 if stop[1] != 0 or stop[2] != 0 else 0)
    o = st.new_obj('param', Lin(size), 'text', {'desc': 'the text (%d bytes including its terminator)' % size, 'exact': True})
    if size == n + 2:
        st.mem[(o.id, n + 1, 1)] = mk_const(8, 0)
    for j, ch in enumerate(sign):
        st.mem[(o.id, j, 1)] = mk_const(8, ord(ch))
    poly = Lin(0)
    for j, (cn, lo, hi, K) in enumerate(combo):
        c = st.fresh_int(8, False, 'c%d' % j)
        st.cons.add_le(lo, c.u)
        st.cons.add_le(c.u, hi)
        st.mem[(o.id, len(sign) + j, 1)] = c
        poly = poly + (c.u - K) * (B ** (k - 1 - j))
    (sn, lo, hi) = stop
    if lo == hi:
        st.mem[(o.id, n, 1)] = mk_const(8, lo)
    elif lo >= 128:
        c = st.fresh_int(8, True, 'stop')
        st.cons.add_le(lo - 256, c.s)
        st.cons.add_le(c.s, hi - 256)
        st.mem[(o.id, n, 1)] = c
    else:
        c = st.fresh_int(8, False, 'stop')
        st.cons.add_le(lo, c.u)
        st.cons.add_le(c.u, hi)
        st.mem[(o.id, n, 1)] = c
    desc = '"%s%s" + <%s>' % (sign, ''.join('[%s]' % c[0] for c in combo), sn)
    return o.id, poly, desc


def const_text(st, s):
    o = st.new_obj('param', Lin(len(s) + 1), 'text', {'desc': 'the text "%s"' % s, 'exact': True})
    for j, ch in enumerate(s):
        st.mem[(o.id, j, 1)] = mk_const(8, ord(ch))
    st.mem[(o.id, len(s), 1)] = mk_const(8, 0)
    return o.id


def render_ref(v, B, upper=False):
    s = ''.join('0123456789abcdefghijklmnopqrstuvwxyz'[d] for d in digits_of(abs(v), B))
    return ('-' if v < 0 else '') + (s.upper() if upper else s)


def task_parse(fname, B, tier):
    """R-VALUE of one parser in one base"""
    book = Book()
    unit = unit_of(fname)
    mod = _CTX[unit]
    f = need(mod, fname)
    wf = where(f)
    bits, signed = int_type(f, None)
    libc = len(f.params) == 1
    wide = fname in ('igris_atou32', 'igris_atou64', 'igris_atoi32', 'igris_atoi64')
    signs = ['', '-'] if signed else ['']
    if libc:
        signs = ['', '-', '+', ' ', '\t-']
    umax = (1 << (bits - 1)) - 1 if signed else (1 << bits) - 1
    plan = text_plan(B, tier, wide)
    if libc or signed:
        # where the number has not begun a sign character (atol: white space too) is no stopper
        plan = [p for p in plan if not (p[2][0] == '1..47' and not p[1])] + \
            [('digits then a character that cannot continue the number', (), s) for s in (LIBC_START if libc else IGRIS_START)]
    for (label, combo, stop) in plan:
        for sign in signs:
            neg = sign.endswith('-')
            if sign and label != 'digits then NUL' and len(combo) == 1:
                continue
            lab = ('sign, ' if sign.strip() else '') + label
            book.n += 1
            try:
                st = State()
                text, poly, desc = make_text(st, sign, combo, stop, B)
                lim = umax + 1 if neg else umax
                if B ** len(combo) - 1 > lim:
                    st.cons.add_le(poly, lim)
                    if st.cons.unsat():
                        book.n -= 1
                        continue        # no text of these classes fits the result type
                desc = '%s(%s%s)' % (fname, desc, '' if libc else ', %d, &end' % B)
                it, res = run_parser(mod, f, st, text, B)
                check_parse(book, R_VALUE, fname, 'base %d: %s: ' % (B, lab), wf, desc, f, it, res, text,
                            -poly if neg else poly, None if libc else len(sign) + len(combo))
            except Unresolved as e:
                book.unresolved.append('%s %s%s: %s' % (fname, sign, [c[0] for c in combo], e))
    # without an end pointer the value is the same
    if not libc:
        try:
            book.n += 1
            st = State()
            cl = digit_classes(B)
            text, poly, desc = make_text(st, '', (cl[0], cl[-1]), ('NUL', 0, 0), B)
            if B * B - 1 > umax:
                st.cons.add_le(poly, umax)
            if st.cons.unsat():
                raise AnalysisBroken('%s: no two-digit text fits the result type' % fname)
            it, res = run_parser(mod, f, st, text, B, with_end=False)
            check_parse(book, R_VALUE, fname, 'base %d: end == NULL: ' % B, wf, '%s(%s, %d, NULL)' % (fname, desc, B), f, it, res,
                        text, poly, None, clauses=('value', 'extent'))
        except Unresolved as e:
            book.unresolved.append('%s end == NULL: %s' % (fname, e))
    # boundary values of the result type, as constant texts in both letter cases
    for v in [umax] + ([-(1 << (bits - 1))] if signed else []):
        for upper in ((False, True) if B > 10 else (False,)):
            s = render_ref(v, B, upper)
            book.n += 1
            try:
                st = State()
                text = const_text(st, s)
                it, res = run_parser(mod, f, st, text, B)
                check_parse(book, R_VALUE, fname, 'base %d: minimum and maximum of the result type: ' % B, wf,
                            '%s("%s"%s)' % (fname, s, '' if libc else ', %d, &end' % B), f, it, res, text, Lin(v),
                            None if libc else len(s))
            except Unresolved as e:
                book.unresolved.append('%s("%s"): %s' % (fname, s, e))
    return book


# ----------------------------------------------------------------------------------------------
# debug printers: the characters handed to debug_putchar / debug_print
# ----------------------------------------------------------------------------------------------
def out_hook(interp, st, i, callee, args):
    g = st.ghost
    if callee == 'debug_putchar':
        g['out'] = g.get('out', ()) + (args[0],)
        return [(st, None)]
    if callee == 'debug_print':
        p = args[0]
        if not isinstance(p, PtrVal) or p.is_null or not p.off.is_const():
            raise Unresolved('debug_print of %r' % (p,))
        o = st.objs.get(p.obj)
        j = p.off.c
        out = ()
        while True:
            if o is None or o.size is None or not o.size.is_const():
                raise Unresolved('debug_print of an object of unknown size')
            if j >= o.size.c:
                interp.oob.append((i.fn.name, i.where(), 'the text handed to debug_print is not terminated inside %s' % interp.describe_obj(st, p.obj)))
                st.bottom = True
                return [(st, None)]
            v = st.mem.get((p.obj, j, 1))
            if not isinstance(v, IntVal):
                g['unwritten'] = j
                out += (None,)
                break
            if v.const() == 0:
                break
            out += (v,)
            j += 1
        g['out'] = g.get('out', ()) + out
        return [(st, None)]
    return None


def task_printdec(fname, tier='quick'):
    book = Book()
    mod = _CTX['dprint']
    f = need(mod, fname)
    wf = where(f)
    bits, signed = int_type(f, 0)
    for (cls, desc, mk) in value_shapes(bits, signed, 10, KMAX + 2 if tier == 'thorough' else KMAX):
        label = LABELS[cls]
        desc = '%s(%s)' % (fname, desc)
        book.n += 1
        try:
            it = ValInterp(mod, opaque=('debug_putchar', 'debug_print'))
            it.call_hook = out_hook
            st = State()
            a, digs, neg, mag = mk(st)
            rets = call(it, f, st, [a])
            ok = bool(rets) or bool(it.oob)
            det = None if ok else '%s: no path returns' % desc
            exp = ([45] if neg else []) + list(digs)
            for (T, rv) in rets:
                book.paths += 1
                out = T.ghost.get('out', ())
                good = len(out) == len(exp)
                why = '%d characters are printed, expected %d' % (len(out), len(exp))
                for j, e in enumerate(exp):
                    if not good:
                        break
                    if neg and j == 0:
                        good = isinstance(out[j], IntVal) and out[j].const() == 45
                        why = 'character 0 is %r, expected \'-\'' % (out[j],)
                    else:
                        good, ks, why = char_of_digit(it, T, out[j], e)
                        why = 'character %d %s' % (j, why)
                if not good and ok:
                    ok = False
                    det = '%s: %s' % (desc, why)
            book.add(R_PRINT, fname, 'decimal: %s: printed characters == [-] digits (most significant first)' % label, ok, wf, det)
            book.add(R_PRINT, fname, 'decimal: %s: no access outside the local buffer' % label, not it.oob, wf,
                     None if not it.oob else '%s: %s (%s)' % (desc, it.oob[0][2], it.oob[0][1]))
            book.lemma += it.lemma
        except Unresolved as e:
            book.unresolved.append('%s: %s' % (desc, e))
    return book


def task_printfixed(fname, B, ndig):
    """debug_printhex_uintN / debug_printbin_uintN: exactly ndig characters, digit j (most significant first) of the value;
    hex: every digit pre-split into 0..9 / 10..15 (for more than 4 digits: uniform classes and one deviating position)"""
    book = Book()
    mod = _CTX['dprint']
    f = need(mod, fname)
    wf = where(f)
    bits, signed = int_type(f, 0)
    if B == 2:
        plans = [None]
    elif ndig <= 4:
        plans = list(itertools.product((0, 1), repeat=ndig))
    else:
        plans = [(0,) * ndig, (1,) * ndig] + [tuple(1 if j == p else 0 for j in range(ndig)) for p in range(ndig)] + \
                [tuple(0 if j == p else 1 for j in range(ndig)) for p in range(ndig)]
    for plan in plans:
        book.n += 1
        desc = '%s(%s)' % (fname, 'every bit a symbol' if plan is None else
                           'nibbles ' + ''.join('[A-F]' if c else '[0-9]' for c in plan))
        try:
            it = ValInterp(mod, opaque=('debug_putchar', 'debug_print'))
            it.call_hook = out_hook
            st = State()
            ds = []
            poly = Lin(0)
            for j in range(ndig):          # j = 0: most significant
                d = st.fresh_int(8, False, 'n%d' % j)
                lo, hi = (0, 1) if plan is None else ((10, 15) if plan[j] else (0, 9))
                st.cons.add_le(lo, d.u)
                st.cons.add_le(d.u, hi)
                ds.append(d.u)
                poly = poly + d.u * (B ** (ndig - 1 - j))
            rets = call(it, f, st, [IntVal(bits, poly, None)])
            ok = bool(rets)
            det = None if ok else '%s: no path returns' % desc
            for (T, rv) in rets:
                book.paths += 1
                out = T.ghost.get('out', ())
                good = len(out) == ndig
                why = '%d characters are printed, expected %d' % (len(out), ndig)
                for j in range(ndig):
                    if not good:
                        break
                    cu = T.force_u(out[j]) if isinstance(out[j], IntVal) else None
                    K = 48 if plan is None or not plan[j] else 55
                    good = cu is not None and T.cons.entails_eq(cu, ds[j] + K)
                    why = 'character %d is %r, expected %s of digit %d (most significant first) = %r' % (
                        j, cu, '\'0\' +' if K == 48 else '\'A\' - 10 +', j, ds[j])
                if not good and ok:
                    ok = False
                    det = '%s: %s' % (desc, why)
            book.add(R_PRINT, fname, '%s: printed characters == the %d digits of the value, most significant first'
                     % ('binary' if B == 2 else 'hex (upper case)', ndig), ok, wf, det)
            book.lemma += it.lemma
        except Unresolved as e:
            book.unresolved.append('%s: %s' % (desc, e))
    return book


def _task(t):
    try:
        if t[0] == 'render':
            return t, task_render(t[1], t[2], t[3])
        if t[0] == 'parse':
            return t, task_parse(t[1], t[2], t[3])
        if t[0] == 'printdec':
            return t, task_printdec(t[1], t[2])
        if t[0] == 'printfixed':
            return t, task_printfixed(t[1], t[2], t[3])
    except AnalysisBroken as e:
        return t, 'broken: %s' % e
    raise ValueError(t)


# ----------------------------------------------------------------------------------------------
def run_ext(rep, repo, tier):
    t0 = time.time()
    _CTX.clear()
    _CTX['num'] = compile_ir(repo + '/igris/util/numconvert.c', repo, inline=keep_all_but_new_helpers(('local_pow',)))
    _CTX['itoa'] = libc_unit(repo, 'compat/libc/stdlib/itoa.c', inline=keep_all_but_new_helpers())
    _CTX['atol'] = libc_unit(repo, 'compat/libc/stdlib/atol.c')
    _CTX['dprint'] = compile_ir(repo + '/igris/dprint/dprint_func_impl.c', repo)
    tasks = []
    for fn in IGRIS_TOA + LIBC_TOA:
        need(_CTX[unit_of(fn)], fn)
        for B in BASES:
            tasks.append(('render', fn, B, tier))
    for fn in IGRIS_ATO:
        for B in BASES:
            tasks.append(('parse', fn, B, tier))
    for fn in ('atol', 'atoi'):
        tasks.append(('parse', fn, 10, tier))
    for fn in PRINTDEC:
        tasks.append(('printdec', fn, tier))
    for (fn, nd) in PRINTHEX + (PRINTHEX_THOROUGH if tier == 'thorough' else []):
        tasks.append(('printfixed', fn, 16, nd))
    for (fn, nd) in PRINTBIN:
        tasks.append(('printfixed', fn, 2, nd))
    book = Book()
    results = []
    workers = min(16, os.cpu_count() or 2, max(1, len(tasks) // 4))
    done = False
    if workers > 1 and not multiprocessing.current_process().daemon and not os.environ.get('VERIF_C07RT_SERIAL'):
        try:
            with multiprocessing.get_context('fork').Pool(workers) as pool:
                results = list(pool.imap_unordered(_task, sorted(tasks, key=lambda t: (t[0] != 'parse', -t[2] if len(t) > 2 and isinstance(t[2], int) else 0)), chunksize=1))
            done = True
        except OSError:
            results = []
    if not done:
        results = [_task(t) for t in tasks]
    for (t, bk) in results:
        if isinstance(bk, str):
            # a vanished anchor / unrecognised signature: analysis broken, but the verdicts of the other functions stand
            rep.defer_broken('c07_roundtrip %s: %s' % (t[1], bk))
        else:
            book.merge(bk)
    for (rule, fn, key), r in sorted(book.inst.items()):
        rep.inst(rule, fn, key, r['ok'], r['where'], r['detail'], fact={'scenarios': r['n']})
    # letters of one renderer are of one case
    for fn in IGRIS_TOA + LIBC_TOA:
        ks = book.alpha.get(fn, set())
        rep.inst(R_TEXT, fn, 'letters are of one case', len(ks) <= 1, where(need(_CTX[unit_of(fn)], fn)),
                 None if len(ks) <= 1 else 'digits above 9 are shown in lower case on some paths and in upper case on others',
                 fact={'alphabet': {87: 'a-z', 55: 'A-Z'}.get(next(iter(ks))) if len(ks) == 1 else sorted(ks)})
    if book.unresolved:
        rep.defer_broken('c07_roundtrip: %d scenario(s) could not be followed exactly, e.g. %s' % (len(book.unresolved), book.unresolved[0]))
    rep.extra['c07_roundtrip'] = {'scenarios': book.n, 'paths': book.paths, 'euclidean_summaries': book.lemma,
                                  'unresolved': book.unresolved[:20], 'wall_s': round(time.time() - t0, 2)}
    rep.units += ['igris/util/numconvert.c (value clauses)', 'compat/libc/stdlib/itoa.c (value clauses)',
                  'compat/libc/stdlib/atol.c (value clauses)', 'igris/dprint/dprint_func_impl.c (value clauses)']
    kq = KMAX + 2 if tier == 'thorough' else KMAX
    rep.explanation += (
        ' Value clauses, mechanised (c07_roundtrip): with a constant base B in {2, 8, 10, 16, 36} and the value a digit polynomial '
        'v = sum d_i * B^i (1..%d symbolic digits 0 <= d_i < B, top digit non-zero; 0; the same negated; minimum, -1 and maximum '
        'of the type as constants) every renderer (igris_u8toa .. igris_i64toa, itoa, utoa, ltoa, ultoa) is interpreted on a '
        'buffer of exactly sign + digits + 1 bytes: the buffer holds [-] then the characters of d_(k-1) .. d_0 then NUL, the '
        'result is the terminator (igris) / the buffer (libc), nothing is accessed outside, letters are of one case (R-TEXT). '
        'Every parser (igris_atou8 .. igris_atoi64, atol, atoi) is interpreted on texts [sign] c_1 .. c_k stopper (k = 0..%d, every '
        'character a symbol pre-split into the classes 0-9 / a-z / A-Z below the base, stopper = NUL or one class of characters '
        'that cannot continue the number, the text object ending there): result == [-] sum (c_j - K_j) * B^(k-j), *end == the '
        'position of the stopper, nothing behind it is read; minimum and maximum of the result type as constant texts '
        '(R-VALUE). The parser of the same width is then run in the state the renderer left: parse(render(v)) == v and *end == '
        'the terminator (R-ROUNDTRIP). debug_printdec_* / debug_printhex_uint4..64 and the typed hex printers / '
        'debug_printbin_uint4..64: the characters handed to debug_putchar / debug_print are the decimal / fixed-width upper-case '
        'hex / binary digits of the value, most significant first (R-PRINT). Division and remainder by the constant base are '
        'exact on these shapes by uniqueness of Euclidean division (x = B*q + r with the state proving 0 <= r < B); loops are '
        'executed on the concrete shape, never abstracted. Not decided here: values of more than %d digits other than the '
        'boundary values (the skeleton rules cover every length), overflow behaviour of the parsers, bases other than the five.'
        % (kq, KMAX, kq))
    rep.assumptions += ['c07_roundtrip: value shapes of 1..%d digits in the bases 2, 8, 10, 16, 36 plus 0, -1, minimum and maximum '
                        'of each type; parsed texts of 0..%d digits whose value fits the result type' % (kq, KMAX),
                        'c07_roundtrip: the text buffer of a renderer is exactly as long as the text (a longer buffer changes '
                        'nothing: no byte behind the terminator is accessed)']
    rep.floor(R_TEXT, 600)
    rep.floor(R_VALUE, 540)
    rep.floor(R_RT, 400)
    rep.floor(R_PRINT, 100)
    return book
