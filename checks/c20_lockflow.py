"""Lockset dataflow on the LLVM-IR CFG (helper of checks/c20.py).

A *lock event* is a call that acquires or releases a lock; locks are named by
the resolved object the call works on ('syslock', 'this.m_mutex', 'this.sem',
'@mtx'); RAII guards are constructor/destructor call pairs bound through the
guard's alloca.  The analysis is a forward dataflow over the CFG:

  depth[lock] = [lo, hi]   nesting depth on all paths reaching the point
                           (lo: must-hold, meet = min = set intersection for
                           depth 1; hi: may-hold, join = max)
  released                 locks that may already have been released (union)
  facts                    caller-defined must-facts (intersection)

Nothing is executed; library mutex members are opaque calls.
"""
from irlib import V, AnalysisBroken, demangle, tyname

CAP = 6


def dem(name):
    return demangle([name])[0] if name else ''


def base_name(name):
    """demangled callee without parameter list ('std::mutex::lock')"""
    d = dem(name)
    if '(' in d and not d.startswith('void ') and '<' not in d.split('(')[0]:
        return d.split('(')[0]
    # templates / lambdas: cut at the top-level '(' (angle-bracket depth 0)
    depth = 0
    for n, c in enumerate(d):
        if c == '<':
            depth += 1
        elif c == '>':
            depth -= 1
        elif c == '(' and depth == 0 and n > 0:
            return d[:n]
    return d


def trace(f, v):
    """follow bitcast / GEP chains (also folded constant expressions):
    (root V, constant byte offset | None when an index is variable)"""
    off = 0
    exact = True
    for _ in range(80):
        if v.k == 'cexpr':
            op = v.d.get('op')
            if op in ('bitcast', 'addrspacecast'):
                v = V(v.d['ops'][0])
                continue
            if op == 'getelementptr':
                for s in v.d['gep']['steps']:
                    if s['k'] == 'field':
                        off += s['off']
                    elif s['v']['k'] == 'ci':
                        off += s['stride'] * s['v']['v']
                    else:
                        exact = False
                v = V(v.d['ops'][0])
                continue
            break
        if v.k != 'inst':
            break
        i = f.insts[v.id]
        if i.op in ('bitcast', 'addrspacecast'):
            v = i.ops[0]
        elif i.op == 'getelementptr':
            for s in i.d['gep']['steps']:
                if s['k'] == 'field':
                    off += s['off']
                elif s['v']['k'] == 'ci':
                    off += s['stride'] * s['v']['v']
                else:
                    exact = False
            v = i.ops[0]
        else:
            break
    return v, (off if exact else None)


def gep_field(f, mod, v):
    """(struct name, DI field name) of the innermost field step of the GEP chain
    computing pointer v, or (None, None)"""
    for _ in range(20):
        if v.k != 'inst':
            return None, None
        i = f.insts[v.id]
        if i.op in ('bitcast', 'addrspacecast'):
            v = i.ops[0]
            continue
        if i.op == 'getelementptr':
            fs = [s for s in i.d['gep']['steps'] if s['k'] == 'field']
            if fs:
                s = fs[-1]
                st = tyname(s['struct'])
                return st, (mod.field_name(st, s['off']) or 'field%d' % s['field'])
            v = i.ops[0]
            continue
        return None, None
    return None, None


def param_struct(f, argno):
    ty = f.params[argno]['ty']
    if ty['k'] == 'ptr':
        return tyname(ty.get('elem', ''))
    return None


def ptr_name(f, mod, v):
    """stable human name of the object a pointer designates"""
    root, off = trace(f, v)
    o = '?' if off is None else str(off)
    if root.k == 'arg':
        pn = f.params[root.argno]['name'] or ('arg%d' % root.argno)
        if pn != 'this':
            pn = 'arg%d' % root.argno
        st = param_struct(f, root.argno)
        if off is not None and st and st in mod.structs:
            fn_ = mod.field_name(st, off)
            if fn_:
                return '%s.%s' % (pn, fn_)
        return '%s+%s' % (pn, o)
    if root.k == 'global':
        return '@' + dem(root.name)
    if root.k == 'inst':
        i = f.insts[root.id]
        if i.op == 'alloca':
            return 'local:%s+%s' % (i.name or ('%%%d' % i.id), o)
        return 'v%d+%s' % (i.id, o)
    return root.k


def is_alloca(f, v):
    return v.k == 'inst' and f.insts[v.id].op == 'alloca'


def slot_value(f, v):
    """value of a load from a local slot (alloca + constant offset) that has
    exactly one store, dominating the load; else None"""
    if v.k != 'inst':
        return None
    ld = f.insts[v.id]
    if ld.op != 'load':
        return None
    root, off = trace(f, ld.ops[0])
    if not is_alloca(f, root) or off is None:
        return None
    sts = []
    for i in f.all_insts():
        if i.op == 'store':
            r2, o2 = trace(f, i.ops[1])
            if r2.k == 'inst' and r2.id == root.id and (o2 is None or o2 == off):
                sts.append(i)
    if len(sts) == 1 and f.dominates(sts[0], ld):
        return sts[0].ops[0]
    return None


def resolve(f, v):
    """look through local slots and value-preserving casts"""
    for _ in range(20):
        s = slot_value(f, v)
        if s is not None:
            v = s
            continue
        if v.k == 'inst' and f.insts[v.id].op in ('bitcast', 'addrspacecast'):
            v = f.insts[v.id].ops[0]
            continue
        break
    return v


# --------------------------------------------------------------------------
# lock events
# --------------------------------------------------------------------------
MUTEX_TYPES = ('std::mutex', 'std::recursive_mutex', 'std::timed_mutex', 'std::recursive_timed_mutex')
GUARD_TYPES = ('std::unique_lock<', 'std::lock_guard<', 'std::scoped_lock<')


def lock_events(f, mod):
    """{inst id: [(kind, lock)]} with kind in 'acq' / 'rel'"""
    ev = {}
    guards = {}
    calls = [i for i in f.all_insts() if i.op in ('call', 'invoke') and i.callee]
    # pass 1: guard constructors
    for i in calls:
        b = base_name(i.callee)
        if b.startswith(GUARD_TYPES):
            last = b.rsplit('::', 1)[-1]
            if not last.startswith('~') and last in ('unique_lock', 'lock_guard', 'scoped_lock'):
                root, off = trace(f, i.ops[0])
                if len(i.ops) == 2:
                    lk = ptr_name(f, mod, i.ops[1])
                    guards[(root.key(), off)] = lk
                    ev.setdefault(i.id, []).append(('acq', lk))
                elif len(i.ops) >= 3:
                    # deferred / adopting constructors do not change the lock state here
                    guards[(root.key(), off)] = ptr_name(f, mod, i.ops[1])
    for i in calls:
        b = base_name(i.callee)
        c = i.callee
        if c == 'system_lock' or b in ('igris::syslock::lock', 'igris::syslock_guard::syslock_guard'):
            ev.setdefault(i.id, []).append(('acq', 'syslock'))
        elif c == 'system_unlock' or b in ('igris::syslock::unlock', 'igris::syslock_guard::~syslock_guard'):
            ev.setdefault(i.id, []).append(('rel', 'syslock'))
        elif c == 'system_lock_save':
            # releases every nested hold of the calling thread (R-DEPTH proves that of the implementation)
            ev.setdefault(i.id, []).append(('save', 'syslock'))
        elif c == 'system_lock_restore':
            ev.setdefault(i.id, []).append(('restore', 'syslock'))
        elif b in tuple(m + '::lock' for m in MUTEX_TYPES):
            ev.setdefault(i.id, []).append(('acq', ptr_name(f, mod, i.ops[0])))
        elif b in tuple(m + '::unlock' for m in MUTEX_TYPES):
            ev.setdefault(i.id, []).append(('rel', ptr_name(f, mod, i.ops[0])))
        elif b == 'igris::semaphore::wait' or c == 'sem_wait':
            ev.setdefault(i.id, []).append(('acq', ptr_name(f, mod, i.ops[0])))
        elif b == 'igris::semaphore::post' or c == 'sem_post':
            ev.setdefault(i.id, []).append(('rel', ptr_name(f, mod, i.ops[0])))
        elif b.startswith(GUARD_TYPES):
            last = b.rsplit('::', 1)[-1]
            root, off = trace(f, i.ops[0])
            if last.startswith('~') or last == 'unlock':
                lk = guards.get((root.key(), off))
                if lk is None:
                    raise AnalysisBroken('%s: guard %s released without a recognised constructor'
                                         % (f.qualname, ptr_name(f, mod, i.ops[0])))
                ev.setdefault(i.id, []).append(('rel', lk))
            elif last == 'lock':
                lk = guards.get((root.key(), off))
                if lk is None:
                    raise AnalysisBroken('%s: guard %s locked without a recognised constructor'
                                         % (f.qualname, ptr_name(f, mod, i.ops[0])))
                ev.setdefault(i.id, []).append(('acq', lk))
    return ev, guards


class St:
    __slots__ = ('depth', 'released', 'facts')

    def __init__(self, depth, released=frozenset(), facts=frozenset()):
        self.depth = depth
        self.released = released
        self.facts = facts

    def key(self):
        return (tuple(sorted(self.depth.items())), self.released, frozenset(map(repr, self.facts)))

    def lo(self, lk):
        return self.depth.get(lk, (0, 0))[0]

    def hi(self, lk):
        return self.depth.get(lk, (0, 0))[1]

    def holds(self, lk):
        return self.lo(lk) >= 1

    def __repr__(self):
        return 'St(%s rel=%s facts=%s)' % (self.depth, sorted(self.released), sorted(self.facts))


def join(a, b):
    d = {}
    for lk in set(a.depth) | set(b.depth):
        la, ha = a.depth.get(lk, (0, 0))
        lb, hb = b.depth.get(lk, (0, 0))
        d[lk] = (min(la, lb), max(ha, hb))
    return St(d, a.released | b.released, a.facts & b.facts)


class Flow:
    """forward lockset dataflow of one function.
    entry: {lock: depth} assumed on entry (contract); gens: {inst id: set(facts)};
    kills: {inst id: callable(fact) -> bool}"""

    def __init__(self, f, mod, entry=None, gens=None, kills=None, events=None):
        self.f = f
        self.mod = mod
        if events is None:
            events, self.guards = lock_events(f, mod)
        self.events = events
        self.gens = gens or {}
        self.kills = kills or {}
        self.entry = dict(entry or {})
        self.locks = sorted(set(self.entry) | set(lk for e in events.values() for (_, lk) in e))
        self.pre = {}        # inst id -> St before the instruction
        self.bad_release = []  # (inst, lock): release while not must-held
        self.run()

    def step(self, i, s):
        evs = self.events.get(i.id)
        g = self.gens.get(i.id)
        k = self.kills.get(i.id)
        if not evs and not g and not k:
            return s
        d = dict(s.depth)
        rel = s.released
        facts = s.facts
        for (kind, lk) in (evs or ()):
            lo, hi = d.get(lk, (0, 0))
            if kind == 'acq':
                d[lk] = (min(lo + 1, CAP), min(hi + 1, CAP))
            elif kind == 'save':
                facts = frozenset(x for x in facts if not (isinstance(x, tuple) and x[0] == 'saved' and x[1] == lk))
                facts = facts | frozenset([('saved', lk, lo, hi)])
                d[lk] = (0, 0)
                rel = rel | frozenset([lk])
            elif kind == 'restore':
                sv = [x for x in facts if isinstance(x, tuple) and x[0] == 'saved' and x[1] == lk]
                d[lk] = (sv[0][2], sv[0][3]) if len(sv) == 1 else (-CAP, CAP)
                facts = frozenset(x for x in facts if x not in sv)
            else:
                d[lk] = (max(lo - 1, -CAP), max(hi - 1, -CAP))
                rel = rel | frozenset([lk])
        if k:
            facts = frozenset(x for x in facts if not k(x))
        if g:
            facts = facts | frozenset(g)
        return St(d, rel, facts)

    def run(self):
        f = self.f
        init = St({lk: (self.entry.get(lk, 0), self.entry.get(lk, 0)) for lk in self.locks})
        bin_ = {f.entry: init}
        work = [f.entry]
        rounds = 0
        while work:
            rounds += 1
            if rounds > 20000:
                raise AnalysisBroken('lockset dataflow did not converge in %s' % f.qualname)
            b = work.pop(0)
            s = bin_[b]
            for i in b.insts:
                if i.op == 'dbg':
                    continue
                old = self.pre.get(i.id)
                self.pre[i.id] = s if old is None else join(old, s)
                s = self.step(i, s)
            for nb in b.succs:
                old = bin_.get(nb)
                new = s if old is None else join(old, s)
                if old is None or new.key() != old.key():
                    bin_[nb] = new
                    if nb not in work:
                        work.append(nb)
        # final pass for instruction states (bin_ is at fixpoint)
        self.pre = {}
        for b in f.blocks:
            s = bin_.get(b)
            if s is None:
                continue
            for i in b.insts:
                if i.op == 'dbg':
                    continue
                self.pre[i.id] = s
                cur = s
                for n_, (kind, lk) in enumerate(self.events.get(i.id, ())):
                    if kind in ('rel', 'save') and cur.lo(lk) < 1:
                        self.bad_release.append((i, lk))
                s = self.step(i, s)

    def at(self, i):
        s = self.pre.get(i.id)
        if s is None:
            # unreachable code
            return None
        return s

    def exits(self):
        return [(r, self.pre[r.id]) for r in self.f.returns() if r.id in self.pre]


# --------------------------------------------------------------------------
# pointers derived from a parameter (taint)
# --------------------------------------------------------------------------
def derived(f, seeds):
    """SSA values (keys) computed from the seed pointers: casts, GEPs, phis,
    selects, pointers loaded through them, pointer results of calls taking
    them, and reloads from local slots they were spilled to"""
    der = set(seeds)
    slots = set()      # alloca ids holding a derived pointer
    changed = True
    while changed:
        changed = False
        for i in f.all_insts():
            k = ('i', i.id)
            if i.op == 'store':
                if i.ops[0].key() in der:
                    root, _ = trace(f, i.ops[1])
                    if is_alloca(f, root) and root.id not in slots:
                        slots.add(root.id)
                        changed = True
                continue
            if k in der:
                continue
            hit = False
            if i.op in ('bitcast', 'addrspacecast', 'getelementptr'):
                hit = i.ops[0].key() in der
            elif i.op in ('phi', 'select'):
                hit = any(o.key() in der for o in i.ops)
            elif i.op == 'load':
                if i.ty.get('k') == 'ptr':
                    root, _ = trace(f, i.ops[0])
                    hit = i.ops[0].key() in der or (is_alloca(f, root) and root.id in slots)
            elif i.op in ('call', 'invoke'):
                hit = i.ty.get('k') == 'ptr' and any(o.key() in der for o in i.ops)
            if hit:
                der.add(k)
                changed = True
    return der


def uses_of(f, mod, der, skip=()):
    """instructions that access memory through a derived pointer:
    [(inst, description)]"""
    out = []
    for i in f.all_insts():
        if i.id in skip:
            continue
        if i.op == 'load' and i.ops[0].key() in der:
            st, fld = gep_field(f, mod, i.ops[0])
            out.append((i, 'load %s' % (fld or ptr_name(f, mod, i.ops[0]))))
        elif i.op == 'store' and i.ops[1].key() in der:
            st, fld = gep_field(f, mod, i.ops[1])
            out.append((i, 'store %s' % (fld or ptr_name(f, mod, i.ops[1]))))
        elif i.op in ('call', 'invoke') and any(o.key() in der for o in i.ops):
            if (i.callee or '').startswith('llvm.dbg') or (i.callee or '').startswith('llvm.lifetime'):
                continue
            out.append((i, 'call %s' % (base_name(i.callee) if i.callee else 'indirect')))
    return out
