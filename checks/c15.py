"""C15 line editor / terminal: statically decided clauses (see DESIGN.md 5/C15)."""
from common import *

SLINE_FNS = {
    'sline_getline': FnSpec(),
    'sline_rightpart': FnSpec(),
    'sline_rightsize': FnSpec(post=[dict(name='value', then=['ret == len - cursor'])]),
    'sline_in_rightpos': FnSpec(),
    'sline_reset': FnSpec(post=[dict(name='cleared', then=['len_post == 0', 'cursor_post == 0'])]),
    'sline_left': FnSpec(post=[
        dict(name='at-start', when=['cursor == 0'], then=['ret == 0', 'cursor_post == 0', 'len_post == len']),
        dict(name='moves', when=['cursor >= 1'], then=['ret == 1', 'cursor_post == cursor - 1', 'len_post == len'])]),
    'sline_right': FnSpec(post=[
        dict(name='at-end', when=['cursor == len'], then=['ret == 0', 'cursor_post == cursor', 'len_post == len']),
        dict(name='moves', when=['cursor < len'], then=['ret == 1', 'cursor_post == cursor + 1', 'len_post == len'])]),
    'sline_init': FnSpec(pre=['bufcap >= 2', 'bufcap <= 2147483647'], extents={'buffer': 'bufcap'},
                         post=[dict(name='empty', then=['len_post == 0', 'cursor_post == 0', 'cap_post == bufcap'])]),
    'sline_backspace': FnSpec(post=[
        dict(name='clamped', then=['ret <= count', 'ret <= cursor', 'ret >= 0',
                                   'len_post == len - ret', 'cursor_post == cursor - ret']),
        dict(name='full-count', when=['count <= cursor'], then=['ret == count'])]),
    'sline_delete': FnSpec(post=[
        dict(name='clamped', then=['ret <= count', 'ret <= len - cursor', 'ret >= 0',
                                   'len_post == len - ret', 'cursor_post == cursor']),
        dict(name='full-count', when=['count <= len - cursor'], then=['ret == count'])]),
    'sline_empty': FnSpec(),
    'sline_avail': FnSpec(),
    'sline_size': FnSpec(post=[dict(name='value', then=['ret == len'])]),
    'sline_putchar': FnSpec(post=[
        dict(name='refuse', when=['len >= cap - 1'], then=['ret == 0', 'len_post == len', 'cursor_post == cursor']),
        dict(name='accept', when=['len < cap - 1'], then=['ret == 1', 'len_post == len + 1', 'cursor_post == cursor + 1'])]),
    'sline_newdata': FnSpec(pre=['len >= 0'], extents={'data': 'len'},
                            post=[dict(name='count', then=['ret >= 0', 'ret <= len',
                                                           'sl.len_post == sl.len + ret',
                                                           'sl.cursor_post == sl.cursor + ret'])]),
}


CAP = 16
RL_INV = ['line.cursor >= 0', 'line.cursor <= line.len', 'line.len + 1 <= line.cap', 'history_size >= 1',
          'headhist <= history_size - 1', 'curhist <= history_size', 'state >= 0', 'state <= 3']
# struct readline with the line capacity instantiated (history slots are history_size * cap bytes: the product is
# only linear for a fixed capacity); every history slot holds a terminated string (established by
# readline_history_init's memset and by the push functions, which write len <= cap-1 bytes plus the terminator)
RL = StructSpec('struct.readline', inv=RL_INV, owns={'line.buf': 'line.cap', 'history_space': 'history_size * %d' % CAP},
                fixed={'line.cap': CAP})
RL_NOHIST = StructSpec('struct.readline', inv=RL_INV, owns={'line.buf': 'line.cap'}, fixed={'line.cap': CAP})


def ext_strlen_slot(interp, st, i, args):
    """strlen on a history slot: slots are NUL-terminated inside their cap bytes (data invariant of the history)"""
    from absval import PtrVal, IntVal
    p = args[0]
    w = i.ty.get('bits', 64)
    r = st.fresh_int(w, False, 'slotlen')
    if isinstance(p, PtrVal) and p.obj is not None:
        o = st.objs.get(p.obj)
        if o is not None and 'history_space' in str(o.info.get('desc', '')):
            st.cons.add_le(r.u, CAP - 1)
        elif o is not None and o.info.get('cstr_len') is not None:
            return [(st, IntVal(w, o.info['cstr_len'] - p.off, None))]
    return [(st, r)]


def ext_i32toa(interp, st, i, args):
    """igris_i32toa(num, buf, base): writes at most 11 characters ('-' + 10 digits) plus the terminator for base 10
    and returns the address of the terminator (contract proved for the renderer itself under property C07)"""
    from absval import PtrVal
    from lin import Lin
    buf = args[1]
    if not isinstance(buf, PtrVal):
        return None
    k = st.fresh_int(64, False, 'digits')
    st.cons.add_le(1, k.u)
    st.cons.add_le(k.u, 11)
    interp.check_access(st, buf, k.u + 1, i, 'i32toa-dst')
    interp.mem_range_write(st, buf, k.u + 1, i)
    return [(st, PtrVal(buf.obj, buf.off + k.u, buf.lo, buf.hi, True))]


KEY_SPECIAL = ['c != 10', 'c != 13', 'c != 8', 'c != 27']


def readline_specs():
    return {
        'readline_init': FnSpec(ctor=True, structs={'rl': RL_NOHIST}, pre=['len == %d' % CAP], extents={'buf': 'len'},
                                post=[dict(name='empty', then=['line.len_post == 0', 'line.cursor_post == 0',
                                                               'state_post == 0', 'curhist_post == 0', 'headhist_post == 0'])]),
        'readline_newline_reset': FnSpec(post=[dict(name='reset', then=['line.len_post == 0', 'curhist_post == 0'])]),
        'readline_history_pointer': FnSpec(pre=['num >= 0', 'num <= history_size'], post=[
            dict(name='slot-start', then=['ret_off >= 0', 'ret_off <= history_size * %d - %d' % (CAP, CAP)])]),
        'readline_current_history_pointer': FnSpec(post=[
            dict(name='slot-start', then=['ret_off >= 0', 'ret_off <= history_size * %d - %d' % (CAP, CAP)])]),
        '_readline_push_line_to_history': FnSpec(pre=['len <= %d' % (CAP - 1)], extents={'str': 'len'}),
        'readline_push_current_line_to_history': FnSpec(),
        'readline_load_history_line': FnSpec(),
        # the recall position walks over exactly the history_size stored lines: 0 (the line being edited) .. history_size
        'readline_history_up': FnSpec(post=[
            dict(name='older-line-while-one-is-left', when=['curhist <= history_size - 1'],
                 then=['ret == 1', 'curhist_post == curhist + 1', 'headhist_post == headhist']),
            dict(name='stops-at-the-oldest-line', when=['curhist == history_size'], then=['ret == 0', 'curhist_post == curhist'])]),
        'readline_history_down': FnSpec(post=[
            dict(name='newer-line-while-one-is-left', when=['curhist >= 1'],
                 then=['ret == 1', 'curhist_post == curhist - 1', 'headhist_post == headhist']),
            dict(name='stops-at-the-edited-line', when=['curhist == 0'], then=['ret == 0', 'curhist_post == 0'])]),
        'readline_linecpy': FnSpec(pre=['maxlen >= 1', 'maxlen <= 1073741824'], extents={'line': 'maxlen'},
                                   post=[dict(name='length', then=['ret >= 0', 'ret <= maxlen - 1', 'ret <= rl.line.len'])]),
        'readline_putchar': FnSpec(post=[
            dict(name='capacity-unchanged', then=['line.cap_post == line.cap']),
            dict(name='status-range', then=['ret >= -1', 'ret <= 9']),
            dict(name='printable-inserted', when=['state == 0', 'line.len <= line.cap - 2'] + KEY_SPECIAL,
                 then=['ret == 1', 'line.len_post == line.len + 1', 'line.cursor_post == line.cursor + 1', 'state_post == 0']),
            dict(name='printable-refused-not-echoed', when=['state == 0', 'line.len >= line.cap - 1'] + KEY_SPECIAL,
                 then=['ret == -1', 'line.len_post == line.len', 'line.cursor_post == line.cursor']),
            dict(name='backspace', when=['state == 0', 'c == 8', 'line.cursor >= 1'],
                 then=['ret == 3', 'line.len_post == line.len - 1', 'line.cursor_post == line.cursor - 1']),
            dict(name='backspace-at-start', when=['state == 0', 'c == 8', 'line.cursor == 0'],
                 then=['ret == 0', 'line.len_post == line.len']),
            dict(name='escape-opens-sequence', when=['state == 0', 'c == 27'], then=['ret == 0', 'state_post == 1', 'line.len_post == line.len']),
            dict(name='csi', when=['state == 1', 'c == 91'], then=['ret == 0', 'state_post == 2']),
            dict(name='unknown-escape-returns-to-normal', when=['state == 1', 'c != 91'], then=['ret == 0', 'state_post == 0', 'line.len_post == line.len']),
            dict(name='right', when=['state == 2', 'c == 67', 'line.cursor < line.len'], then=['ret == 9', 'line.cursor_post == line.cursor + 1', 'state_post == 0']),
            dict(name='right-at-end', when=['state == 2', 'c == 67', 'line.cursor == line.len'], then=['ret == 0', 'line.cursor_post == line.cursor', 'state_post == 0']),
            dict(name='left', when=['state == 2', 'c == 68', 'line.cursor >= 1'], then=['ret == 8', 'line.cursor_post == line.cursor - 1', 'state_post == 0']),
            dict(name='left-at-start', when=['state == 2', 'c == 68', 'line.cursor == 0'], then=['ret == 0', 'line.cursor_post == 0', 'state_post == 0']),
            dict(name='delete', when=['state == 2', 'c == 51', 'line.cursor < line.len'], then=['ret == 4', 'line.len_post == line.len - 1', 'line.cursor_post == line.cursor', 'state_post == 3']),
            dict(name='delete-at-end', when=['state == 2', 'c == 51', 'line.cursor == line.len'], then=['ret == 0', 'line.len_post == line.len', 'state_post == 3']),
            dict(name='tilde-consumed', when=['state == 3'], then=['ret == 0', 'state_post == 0', 'line.len_post == line.len']),
            dict(name='newline', when=['state == 0', 'c == 13', 'last != 10'], then=['ret == 2', 'curhist_post == 0', 'line.len_post == line.len']),
            dict(name='crlf-pair-is-one-newline', when=['state == 0', 'c == 10', 'last == 13'], then=['ret == 0', 'line.len_post == line.len']),
        ]),
    }


def run_readline(rep, repo):
    mod = witness('w_readline.c', repo)
    rep.units.append('witness/w_readline.c -> igris/shell/readline.h, igris/defs/vt100.h')
    from absint import ext_pure
    ext = {'strlen': ext_strlen_slot, 'igris_i32toa': ext_i32toa, 'strncmp': ext_pure}
    it = Interp(mod, externals=ext)
    run = ContractRun(it, [RL])
    for fname, spec in readline_specs().items():
        run.run(fname, spec)
    rep.add_absint('R-READLINE', summarize(it, run))
    # vt100_left: the caller's buffers are char[16]
    it2 = Interp(mod, externals=ext)
    run2 = ContractRun(it2, [])
    run2.run('vt100_left', FnSpec(extents={'buf': '16'}, post=[dict(name='length', then=['ret >= 4', 'ret <= 14'])]))
    rep.add_absint('R-VT100', summarize(it2, run2))
    rep.floor('R-READLINE:post', 40)
    rep.floor('R-READLINE:bounds', 15)
    rep.floor('R-READLINE:invariant', 60)
    rep.floor('R-VT100:bounds', 2)


def run_twin(rep, repo):
    """R-TWIN: igris::readline::newdata obeys the same per-(state, key) table as readline_putchar (history disabled)"""
    mod = witness('w_readlinexx.cpp', repo)
    rep.units.append('witness/w_readlinexx.cpp -> igris/shell/readlinexx.h, igris/container/sline.h')
    inv = ['_line.sl.cursor >= 0', '_line.sl.cursor <= _line.sl.len', '_line.sl.len + 1 <= _line.sl.cap', '_state >= 0',
           '_state <= 3']
    TW = StructSpec('class.igris::readline', inv=inv, owns={'_line.sl.buf': '_line.sl.cap'},
                    fixed={'_line.sl.cap': CAP, '_history_space.m_size': 0})
    import re

    def tr(t):
        t = re.sub(r'\bline\.', '_line.sl.', t)
        for a in ('state', 'last', 'curhist'):
            t = re.sub(r'\b%s(_post)?\b' % a, lambda m_, a=a: '_' + a + (m_.group(1) or ''), t)
        return t
    posts = []
    for pc in readline_specs()['readline_putchar'].post:
        posts.append(dict(name=pc['name'], when=[tr(w) for w in pc.get('when', [])], then=[tr(t) for t in pc['then']]))
    it = Interp(mod, externals={'strlen': ext_strlen_slot, 'strncmp': __import__('absint').ext_pure})
    run = ContractRun(it, [TW])
    f = cxx(mod, 'igris::readline', 'newdata')
    run.run(f, FnSpec(structs={'this': TW}, post=posts))
    obs = summarize(it, run)
    for o in obs:
        if o.get('call_stack'):
            o['root'] = 'igris::readline::newdata'
            fo = mod.fn(o['function'])
            o['leaf'] = fo.qualname if fo is not None and fo.srcname else o['function']
        else:
            o['function'] = 'igris::readline::newdata'
    rep.add_absint('R-TWIN', obs)
    rep.floor('R-TWIN:post', 30)


def run(rep, repo, tier):
    rep.explanation = (
        'Abstract interpretation (linear-inequality domain over LLVM IR, see DESIGN.md 3.2) of every sline '
        'function under the representation invariant 0 <= cursor <= len, len+1 <= cap, cap >= 2 with buf '
        'owning cap bytes: proves every load/store/memmove/memcpy through buf in bounds, the invariant '
        're-established at every return and the stated functional postconditions (refusal leaves the state '
        'unchanged, clamps). Decides the bounds/invariant clauses of C15, not equality with a reference editor.')
    rep.assumptions += ['distinct pointer parameters do not alias', 'signed overflow flagged nsw by clang does not occur',
                        'callers pass len >= 0 to sline_newdata and a buffer of at least bufcap bytes to sline_init']
    mod = witness('w_sline.c', repo)
    rep.units.append('witness/w_sline.c -> igris/datastruct/sline.h')
    run_contracts(rep, 'R-SLINE', mod, [SLINE], SLINE_FNS)

    def ext_strncmp(interp, st, i, args):
        # reads at most n bytes of the (unterminated) line buffer; the other operand is a C string
        n = st.force_u(args[2]) if hasattr(args[2], 'w') else None
        if n is not None:
            interp.check_access(st, args[0], n, i, 'strncmp')
        return [(st, st.fresh_int(32, True, 'strncmp'))]
    # sline_equal(line, text): a line whose length differs from the text's is not equal to it (it decides whether an entered
    # line is pushed to the history: a line that is a proper prefix of the previous one is a different line)
    run_contracts(rep, 'R-SLINE', mod, [SLINE], {
        'sline_equal': FnSpec(setup=cstr_params(1), post=[
            dict(name='shorter-line-is-not-equal', when=['len + 1 <= len_arg1'], then=['ret == 0']),
            dict(name='longer-line-is-not-equal', when=['len >= len_arg1 + 1'], then=['ret == 0']),
            dict(name='answer-is-0-or-1', then=['ret >= 0', 'ret <= 1'])])}, externals={'strncmp': ext_strncmp})
    run_readline(rep, repo)
    run_twin(rep, repo)
    rep.floor('R-SLINE:bounds', 25)
    rep.floor('R-SLINE:invariant', 60)
    rep.floor('R-SLINE:post', 20)
    from c15_content import run_ext
    run_ext(rep, repo, tier)
