"""C15 line editor / terminal: statically decided clauses (see DESIGN.md 5/C15)."""
from common import *

SLINE_FNS = {
    'sline_getline': FnSpec(),
    'sline_rightpart': FnSpec(),
    'sline_rightsize': FnSpec(post=[dict(name='value', then=['ret == len - cursor'])]),
    'sline_in_rightpos': FnSpec(),
    'sline_reset': FnSpec(post=[dict(name='cleared', then=['len_post == 0', 'cursor_post == 0'])]),
    'sline_left': FnSpec(post=[
        dict(name='at-start', when=['cursor == 0'], then=['ret == 0', 'cursor_post == 0', 'len_post == len']),
        dict(name='moves', when=['cursor >= 1'], then=['ret == 1', 'cursor_post == cursor - 1', 'len_post == len'])]),
    'sline_right': FnSpec(post=[
        dict(name='at-end', when=['cursor == len'], then=['ret == 0', 'cursor_post == cursor', 'len_post == len']),
        dict(name='moves', when=['cursor < len'], then=['ret == 1', 'cursor_post == cursor + 1', 'len_post == len'])]),
    'sline_init': FnSpec(pre=['bufcap >= 2', 'bufcap <= 2147483647'], extents={'buffer': 'bufcap'},
                         post=[dict(name='empty', then=['len_post == 0', 'cursor_post == 0', 'cap_post == bufcap'])]),
    'sline_backspace': FnSpec(post=[
        dict(name='clamped', then=['ret <= count', 'ret <= cursor', 'ret >= 0',
                                   'len_post == len - ret', 'cursor_post == cursor - ret']),
        dict(name='full-count', when=['count <= cursor'], then=['ret == count'])]),
    'sline_delete': FnSpec(post=[
        dict(name='clamped', then=['ret <= count', 'ret <= len - cursor', 'ret >= 0',
                                   'len_post == len - ret', 'cursor_post == cursor']),
        dict(name='full-count', when=['count <= len - cursor'], then=['ret == count'])]),
    'sline_empty': FnSpec(),
    'sline_avail': FnSpec(),
    'sline_size': FnSpec(post=[dict(name='value', then=['ret == len'])]),
    'sline_putchar': FnSpec(post=[
        dict(name='refuse', when=['len >= cap - 1'], then=['ret == 0', 'len_post == len', 'cursor_post == cursor']),
        dict(name='accept', when=['len < cap - 1'], then=['ret == 1', 'len_post == len + 1', 'cursor_post == cursor + 1'])]),
    'sline_newdata': FnSpec(pre=['len >= 0'], extents={'data': 'len'},
                            post=[dict(name='count', then=['ret >= 0', 'ret <= len',
                                                           'sl.len_post == sl.len + ret',
                                                           'sl.cursor_post == sl.cursor + ret'])]),
}


def run(rep, repo, tier):
    rep.explanation = (
        'Abstract interpretation (linear-inequality domain over LLVM IR, see DESIGN.md 3.2) of every sline '
        'function under the representation invariant 0 <= cursor <= len, len+1 <= cap, cap >= 2 with buf '
        'owning cap bytes: proves every load/store/memmove/memcpy through buf in bounds, the invariant '
        're-established at every return and the stated functional postconditions (refusal leaves the state '
        'unchanged, clamps). Decides the bounds/invariant clauses of C15, not equality with a reference editor.')
    rep.assumptions += ['distinct pointer parameters do not alias', 'signed overflow flagged nsw by clang does not occur',
                        'callers pass len >= 0 to sline_newdata and a buffer of at least bufcap bytes to sline_init']
    mod = witness('w_sline.c', repo)
    rep.units.append('witness/w_sline.c -> igris/datastruct/sline.h')
    run_contracts(rep, 'R-SLINE', mod, [SLINE], SLINE_FNS)
    rep.floor('R-SLINE:bounds', 25)
    rep.floor('R-SLINE:invariant', 60)
    rep.floor('R-SLINE:post', 20)
