"""developer driver: python3 checks/run.py C02L --repo /tmp/dev/LIFE -v  (lifetime rules of C02 alone)"""


def run(rep, repo, tier):
    import c02_life
    rep.explanation = 'Lifetime rules only (developer driver).'
    c02_life.run_life(rep, repo, tier)
