#!/usr/bin/env python3
"""Entry point of every registered check:
    python3 checks/run.py <property-id> --tier quick|thorough [--repo /repo]
Exit 0: property's statically decided clauses hold (known findings printed).
Exit 1: VIOLATION line(s).  Exit 2: analysis broken (never a pass)."""
import argparse
import importlib
import os
import sys
import traceback

HERE = os.path.dirname(os.path.abspath(__file__))
sys.path.insert(0, HERE)

from irlib import AnalysisBroken  # noqa: E402
from report import Report  # noqa: E402


def main():
    ap = argparse.ArgumentParser()
    ap.add_argument('pid')
    ap.add_argument('--tier', default=os.environ.get('VERIF_TIER', 'quick'))
    ap.add_argument('--repo', default='/repo')
    ap.add_argument('--only', default=None, help='rule|function|key : print just that instance')
    ap.add_argument('--replay', default=None)
    ap.add_argument('--verbose', '-v', action='store_true')
    a = ap.parse_args()
    pid = a.pid.upper()
    if a.replay:
        import json
        with open(a.replay) as f:
            r = json.load(f)
        a.only = '%s|%s|%s' % (r['rule'], r['function'], r['key'])
    tier = a.tier if a.tier in ('quick', 'thorough') else 'quick'
    rep = Report(pid, tier, a.repo)
    try:
        mod = importlib.import_module(pid.lower())
        mod.run(rep, a.repo, tier)
    except AnalysisBroken as e:
        # an unrecognised form stops the check: instances that failed before it may be consequences of the same unrecognised
        # form, so nothing is reported as a violation.  A rule whose failure must not hide the verdicts of the rules after it
        # uses rep.defer_broken() instead of raising.
        print('ANALYSIS-BROKEN property=%s %s' % (pid, e))
        rep.write_evidence({}, [], [], [str(e)])
        return 2
    except Exception:
        traceback.print_exc()
        print('ANALYSIS-BROKEN property=%s internal error' % pid)
        return 2
    if a.only:
        for i in rep.instances:
            if '%s|%s|%s' % (i['rule'], i['function'], i['key']) == a.only:
                print(('HOLDS ' if i['ok'] else 'FAILS ') + a.only, i['where'], i['detail'] or '')
    if a.verbose:
        for i in rep.instances:
            print(('ok   ' if i['ok'] else 'FAIL ') + '%s|%s|%s %s %s' % (
                i['rule'], i['function'], i['key'], i['where'], '' if i['ok'] else (i['detail'] or '')))
    rc = rep.finish()
    n = len(rep.instances)
    bad = sum(1 for i in rep.instances if not i['ok'])
    print('%s %s: %d rule instances evaluated, %d failing (before known-findings matching), exit %d'
          % (pid, tier, n, bad, rc))
    return rc


if __name__ == '__main__':
    sys.exit(main())
