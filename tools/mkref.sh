#!/bin/sh
# usage: tools/mkref.sh <tag> <property-id> <N> "<focus hint>"  : scratch worktree + prompt for a refactoring sub-agent
TAG=$1; PID=$2; N=$3; VAR=$4
mkdir -p /tmp/mut
python3 - <<PY
import json
for l in open('/verif/properties.jsonl'):
    p=json.loads(l)
    open('/tmp/mut/%s.txt'%p['id'],'w').write("PROPERTY %s: %s\n\n%s\n\nQuantifier: %s\n"%(p['id'],p['title'],p['statement'],p['quantifier']['text']))
PY
git -C /repo worktree add -q --detach /tmp/mut/$TAG HEAD || exit 1
mkdir -p /tmp/mut/$TAG-out
python3 - "$TAG" "$PID" "$N" "$VAR" <<'PY'
import sys
tag,pid,n,var=sys.argv[1:5]
t=open('/verif/tools/refprompt.tmpl').read()
p=t.replace('{WT}','/tmp/mut/'+tag).replace('{OUT}','/tmp/mut/%s-out'%tag).replace('{PROP}',open('/tmp/mut/%s.txt'%pid).read()).replace('{VARIANT}',var).replace('{N}',n)
open('/tmp/mut/%s.prompt'%tag,'w').write(p)
PY
echo /tmp/mut/$TAG.prompt
