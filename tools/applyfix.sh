#!/bin/sh
# usage: tools/applyfix.sh <patch.diff> "<fix: message>"  : apply a repair to /repo, rebuild, run the pinned tests, commit
set -e
P="$1"; MSG="$2"
case "$MSG" in "fix: "*) ;; *) echo "message must start with fix:"; exit 2;; esac
git -C /repo apply "$P"
cmake --build /repo/_build 2>&1 | tail -1
R=$(/repo/_build/igris_test 2>&1 | tail -3)
echo "$R" | grep -q "Status: SUCCESS" || { echo "TESTS FAIL"; echo "$R"; git -C /repo checkout -- .; exit 1; }
git -C /repo commit -qam "$MSG"
git -C /repo log --oneline -1
