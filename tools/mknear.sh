#!/bin/sh
# usage: tools/mknear.sh <seed-dir-name>  : worktree + prompt for a "correct counterpart" sub-agent (gets the property text and the seeded patch)
SEED=$1
TAG=n$(echo $SEED | tr 'A-Z' 'a-z' | tr -cd 'a-z0-9' | cut -c1-14)
git -C /repo worktree add -q --detach /tmp/mut/$TAG HEAD || exit 1
mkdir -p /tmp/mut/$TAG-out
python3 - "$SEED" "$TAG" <<'PY'
import sys, json
seed, tag = sys.argv[1:3]
m = json.load(open('/verif/seeded/%s/meta.json' % seed))
pid = seed.split('-')[0]
p = None
for l in open('/verif/properties.jsonl'):
    q = json.loads(l)
    if q['id'] == pid:
        p = q
prop = "PROPERTY %s: %s\n\n%s\n\nQuantifier: %s\n" % (p['id'], p['title'], p['statement'], p['quantifier']['text'])
t = open('/verif/tools/nearprompt.tmpl').read()
t = t.replace('{WT}', '/tmp/mut/' + tag).replace('{OUT}', '/tmp/mut/%s-out' % tag).replace('{PROP}', prop)
t = t.replace('{SUMMARY}', str(m.get('summary', ''))).replace('{NEEDS}', str(m.get('needs', '')))
t = t.replace('{PATCH}', open('/verif/seeded/%s/patch.diff' % seed).read())
open('/tmp/mut/%s.prompt' % tag, 'w').write(t)
print('/tmp/mut/%s.prompt' % tag)
PY
