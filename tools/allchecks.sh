#!/bin/sh
# run all 20 quick checks in parallel, print summary lines
cd /verif
for i in 01 02 03 04 05 06 07 08 09 10 11 12 13 14 15 16 17 18 19 20; do
  ( python3 checks/run.py C$i --tier quick > /tmp/allchecks.C$i.out 2>&1; echo "C$i exit $? $(tail -1 /tmp/allchecks.C$i.out | cut -c1-120)" ) &
done
wait
