#!/bin/sh
# usage: tools/seedtest.sh <patch.diff> <property-id>...   : apply a seeded change to /repo, run the checks, undo it
P="$1"; shift
git -C /repo apply "$P" || { echo "patch does not apply"; exit 3; }
for id in "$@"; do
  python3 /verif/checks/run.py "$id" --tier quick > /tmp/seedtest.$$.out 2>&1; rc=$?
  echo "== $id exit $rc"; grep -E "VIOLATION|ANALYSIS-BROKEN|^/repo" /tmp/seedtest.$$.out | cut -c1-300 | head -12
  rm -f /tmp/seedtest.$$.out
done
git -C /repo checkout -- .
# evidence files were rewritten by the mutated runs: restore them
git -C /verif checkout -- evidence 2>/dev/null
rm -rf /verif/evidence/replay
