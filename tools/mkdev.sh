#!/bin/sh
# usage: tools/mkdev.sh <PID> [<PID2>] : worktree + prompt for a developer sub-agent
PID=$1; PID2=${2:-none}
pid=$(echo $PID | tr 'A-Z' 'a-z')
git -C /repo worktree add -q --detach /tmp/dev/$PID HEAD || exit 1
mkdir -p /verif/proposed/$pid
sed "s|{PID}|$PID|g; s|{PID2}|$PID2|g; s|{pid}|$pid|g; s|{WT}|/tmp/dev/$PID|g" /verif/tools/devprompt.tmpl > /tmp/dev/$PID.prompt
echo /tmp/dev/$PID.prompt
