#!/usr/bin/env python3
"""Developer regression: every behaviour-preserving refactoring under refactors/<ids>/ref*.diff must leave the checks
of its properties silent (exit 0).  Each patch gets its own scratch worktree of /repo (removed afterwards).
usage: tools/refall.py [-j N] [dir-substring]"""
import os, subprocess, sys, tempfile, shutil, glob
from concurrent.futures import ThreadPoolExecutor
V = os.path.dirname(os.path.dirname(os.path.abspath(__file__)))
args = sys.argv[1:]
J = 6
if args and args[0] == '-j':
    J = int(args[1]); args = args[2:]
sub = args[0] if args else ''
jobs = []
for d in sorted(glob.glob(V + '/refactors/*')):
    if sub not in os.path.basename(d):
        continue
    for p in sorted(glob.glob(d + '/ref*.diff')):
        for pid in os.path.basename(d).split('-'):
            jobs.append((p, pid))
base = tempfile.mkdtemp(prefix='refall')
def one(j):
    p, pid = j
    wt = '%s/%s-%s-%s' % (base, os.path.basename(os.path.dirname(p)), os.path.basename(p), pid)
    for _try in range(6):
        # concurrent `git worktree add` calls on one repository can collide on its administrative files: retry
        if subprocess.run(['git', '-C', '/repo', 'worktree', 'add', '-q', '--detach', wt, 'HEAD']).returncode == 0:
            break
        import time, random
        time.sleep(0.5 + random.random())
    else:
        raise RuntimeError('git worktree add failed for %s' % wt)
    try:
        r = subprocess.run(['git', '-C', wt, 'apply', p], capture_output=True, text=True)
        if r.returncode != 0:
            return p, pid, 'patch-does-not-apply (code changed since)', ''
        r = subprocess.run(['python3', V + '/checks/run.py', pid, '--tier', 'quick', '--repo', wt], capture_output=True, text=True,
                           env=dict(os.environ, VERIF_EVIDENCE_DIR=wt + '.evidence'))
        shutil.rmtree(wt + '.evidence', ignore_errors=True)
        msg = '\n'.join(l[:300] for l in r.stdout.splitlines() if l.startswith(wt) or 'ANALYSIS-BROKEN' in l)[:1500]
        return p, pid, {0: 'silent', 1: 'FALSE-ALARM', 2: 'analysis-broken'}.get(r.returncode, str(r.returncode)), msg
    finally:
        subprocess.run(['git', '-C', '/repo', 'worktree', 'remove', '--force', wt])
with ThreadPoolExecutor(J) as ex:
    res = list(ex.map(one, jobs))
shutil.rmtree(base, ignore_errors=True)
subprocess.run(['git', '-C', V, 'checkout', '--', 'evidence'])
shutil.rmtree(V + '/evidence/replay', ignore_errors=True)
bad = 0
for p, pid, v, msg in res:
    print('%-40s %s %s' % ('/'.join(p.split('/')[-2:]), pid, v))
    if v not in ('silent',) and msg:
        print('    ' + msg.replace('\n', '\n    '))
    bad += v == 'FALSE-ALARM'
print('%d refactorings, %d false alarms' % (len(res), bad))
sys.exit(1 if bad else 0)
