#!/bin/sh
# Builds the framework's native helpers from files on disk only (offline).
set -e
cd "$(dirname "$0")/.."
mkdir -p bin
