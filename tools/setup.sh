#!/bin/sh
# Builds the framework's native helper (IR -> JSON dumper) from files on disk only (offline).
set -e
cd "$(dirname "$0")/.."
mkdir -p bin evidence
clang++ $(llvm-config-14 --cxxflags) -fno-rtti -O1 tools/irdump.cc -o bin/irdump /usr/lib/llvm-14/lib/libLLVM-14.so
echo "setup ok: bin/irdump"
