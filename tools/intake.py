#!/usr/bin/env python3
"""Developer helper: take in the results of sub-agents.
  intake.py seeds <tag>:<PID> ...   apply /tmp/mut/<tag>-out/patch.diff to /repo, run the check, undo; detected seeds are
                                    confirmed and stored with tools/keepseed.py (note = first reported rule), missed ones
                                    are listed and left in /tmp/mut for inspection
  intake.py refs <tag>:<IDS> ...    copy /tmp/mut/<tag>-out/ref*.diff to refactors/<IDS>/ (next free number), remove the
                                    worktree; run tools/refall.py afterwards"""
import glob, json, os, re, shutil, subprocess, sys
V = os.path.dirname(os.path.dirname(os.path.abspath(__file__)))
def sh(c):
    return subprocess.run(c, shell=True, capture_output=True, text=True)
mode, items = sys.argv[1], sys.argv[2:]
if mode == 'seeds':
    for it in items:
        tag, pid = it.split(':')
        p = '/tmp/mut/%s-out/patch.diff' % tag
        if not os.path.exists(p):
            print(tag, 'NO PATCH'); continue
        if sh('git -C /repo apply %s' % p).returncode != 0:
            print(tag, 'PATCH DOES NOT APPLY'); continue
        r = sh('python3 %s/checks/run.py %s --tier quick' % (V, pid))
        sh('git -C /repo checkout -- .'); sh('git -C %s checkout -- evidence' % V); shutil.rmtree(V + '/evidence/replay', ignore_errors=True)
        lines = [l for l in r.stdout.splitlines() if re.search(r':\d+: R-[A-Z]', l) or re.search(r': R-[A-Z0-9-]+(:[a-z-]+)? in ', l)]
        if r.returncode == 1 and lines:
            m = re.search(r': (R-[A-Z0-9:a-z-]+) in ([^:]+):', lines[0])
            note = '%s quick: %s %s' % (pid, m.group(1) if m else '?', (m.group(2) if m else '')[:80])
            meta = json.load(open('/tmp/mut/%s-out/meta.json' % tag))
            words = re.sub(r'[^a-z0-9]+', '-', (meta.get('summary', tag)[:200].lower()))
            fn = re.findall(r'[a-z_0-9]*[a-z_][a-z_0-9]*', words)
            sid = '%s-%s-%s' % (pid, tag, '-'.join([w for w in fn if len(w) > 3][:4])[:40])
            if meta.get('build_cmd', '').count('(') and os.path.exists('/tmp/mut/%s-out/build.sh' % tag):
                meta['build_cmd'] = 'sh /tmp/mut/%s-out/build.sh' % tag
                json.dump(meta, open('/tmp/mut/%s-out/meta.json' % tag, 'w'), indent=1)
            k = sh('python3 %s/tools/keepseed.py %s %s "%s"' % (V, tag, sid, note.replace('"', "'")))
            print(tag, pid, 'DETECTED', note, '|', (k.stdout.strip().splitlines() or ['?'])[-1])
        else:
            print(tag, pid, 'MISSED' if r.returncode == 0 else 'exit %d' % r.returncode, (r.stdout.strip().splitlines() or [''])[-1][:160])
elif mode == 'refs':
    for it in items:
        tag, ids = it.split(':')
        dst = '%s/refactors/%s' % (V, ids)
        os.makedirs(dst, exist_ok=True)
        n = 0
        for f in sorted(glob.glob('/tmp/mut/%s-out/ref*.diff' % tag)):
            k = 1
            while os.path.exists('%s/ref%d.diff' % (dst, k)):
                k += 1
            shutil.copy(f, '%s/ref%d.diff' % (dst, k))
            if os.path.exists(f[:-5] + '.txt'):
                shutil.copy(f[:-5] + '.txt', '%s/ref%d.txt' % (dst, k))
            n += 1
        sh('git -C /repo worktree remove --force /tmp/mut/%s' % tag)
        shutil.rmtree('/tmp/mut/%s-out' % tag, ignore_errors=True)
        for x in glob.glob('/tmp/mut/%s-*' % tag):
            shutil.rmtree(x, ignore_errors=True)
        print(tag, ids, '%d refactorings stored' % n)
