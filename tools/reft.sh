#!/bin/sh
# usage: reft.sh <PID> <refN> : one refactoring in its own worktree
P=/verif/refactors/$1/$2.diff; W=/tmp/reft-$1-$2
git -C /repo worktree add -q --detach $W HEAD; git -C $W apply $P || echo "no-apply"
VERIF_EVIDENCE_DIR=$W.ev python3 /verif/checks/run.py $1 --tier quick --repo $W > $W.out 2>&1; echo "$1 $2 exit $? $(grep -v VIOLATION $W.out | grep -E ': R-|BROKEN' | head -2 | cut -c1-300)"
git -C /repo worktree remove --force $W; rm -rf $W.out $W.ev
