#!/bin/sh
# usage: tools/reftest.sh <dir-with-ref*.diff> <property-id>...  : each behaviour-preserving patch must leave the checks silent
D="$1"; shift
for P in "$D"/ref*.diff; do
  git -C /repo apply "$P" || { echo "$P does not apply"; continue; }
  for id in "$@"; do
    python3 /verif/checks/run.py "$id" --tier quick > /tmp/reftest.$$.out 2>&1; rc=$?
    echo "== $(basename $P) $id exit $rc"; [ $rc -ne 0 ] && grep -E "ANALYSIS-BROKEN|^/repo" /tmp/reftest.$$.out | cut -c1-400 | head -8
    rm -f /tmp/reftest.$$.out
  done
  git -C /repo checkout -- .
done
git -C /verif checkout -- evidence 2>/dev/null
rm -rf /verif/evidence/replay
