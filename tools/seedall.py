#!/usr/bin/env python3
"""Developer regression: every seeded change under seeded/ must still be reported (exit 1) by the check of its property.
Each seed gets its own scratch worktree of /repo (removed afterwards); checks run with --repo <worktree>.
usage: tools/seedall.py [-j N] [seed-name-substring]"""
import json, os, subprocess, sys, tempfile, shutil
from concurrent.futures import ThreadPoolExecutor
V = os.path.dirname(os.path.dirname(os.path.abspath(__file__)))
args = sys.argv[1:]
J = 6
if args and args[0] == '-j':
    J = int(args[1]); args = args[2:]
sub = args[0] if args else ''
seeds = sorted(d for d in os.listdir(V + '/seeded') if sub in d)
base = tempfile.mkdtemp(prefix='seedall')
def one(s):
    pid = json.load(open('%s/seeded/%s/meta.json' % (V, s))).get('property', s.split('-')[0])
    pid = pid if isinstance(pid, str) and pid.startswith('C') else s.split('-')[0]
    wt = '%s/%s' % (base, s)
    for _try in range(6):
        # concurrent `git worktree add` calls on one repository can collide on its administrative files: retry
        if subprocess.run(['git', '-C', '/repo', 'worktree', 'add', '-q', '--detach', wt, 'HEAD']).returncode == 0:
            break
        import time, random
        time.sleep(0.5 + random.random())
    else:
        raise RuntimeError('git worktree add failed for %s' % wt)
    try:
        r = subprocess.run(['git', '-C', wt, 'apply', '%s/seeded/%s/patch.diff' % (V, s)], capture_output=True, text=True)
        if r.returncode != 0:
            return s, pid, 'PATCH-DOES-NOT-APPLY'
        r = subprocess.run(['python3', V + '/checks/run.py', pid, '--tier', 'quick', '--repo', wt], capture_output=True, text=True,
                           env=dict(os.environ, VERIF_EVIDENCE_DIR=wt + '.evidence'))
        shutil.rmtree(wt + '.evidence', ignore_errors=True)
        return s, pid, {0: 'MISSED', 1: 'detected', 2: 'analysis-broken'}.get(r.returncode, str(r.returncode))
    finally:
        subprocess.run(['git', '-C', '/repo', 'worktree', 'remove', '--force', wt])
with ThreadPoolExecutor(J) as ex:
    res = list(ex.map(one, seeds))
shutil.rmtree(base, ignore_errors=True)
subprocess.run(['git', '-C', V, 'checkout', '--', 'evidence'])
shutil.rmtree(V + '/evidence/replay', ignore_errors=True)
bad = 0
for s, pid, v in res:
    print('%-45s %s %s' % (s, pid, v))
    bad += v != 'detected'
print('%d seeds, %d not detected' % (len(res), bad))
sys.exit(1 if bad else 0)
