// irdump: read an LLVM IR module (.ll/.bc or stdin) and write a JSON rendering
// of it (functions, blocks, instructions, operands, types with sizes, GEP
// offset decomposition, global initialisers, debug locations, DI struct
// member names).  The Python analyses in /verif/checks work on this JSON, so
// no textual-IR parsing is needed and all layout facts come from LLVM's own
// DataLayout.
//
// Build (setup.sh):
//   clang++ $(llvm-config-14 --cxxflags) -fno-rtti irdump.cc -o irdump \
//       /usr/lib/llvm-14/lib/libLLVM-14.so
#include "llvm/Analysis/ConstantFolding.h"
#include "llvm/IR/Constants.h"
#include "llvm/IR/DataLayout.h"
#include "llvm/IR/DebugInfo.h"
#include "llvm/IR/DebugInfoMetadata.h"
#include "llvm/IR/Function.h"
#include "llvm/IR/GetElementPtrTypeIterator.h"
#include "llvm/IR/GlobalVariable.h"
#include "llvm/IR/InstrTypes.h"
#include "llvm/IR/Instructions.h"
#include "llvm/IR/IntrinsicInst.h"
#include "llvm/IR/LLVMContext.h"
#include "llvm/IR/Module.h"
#include "llvm/IR/Operator.h"
#include "llvm/IRReader/IRReader.h"
#include "llvm/Support/JSON.h"
#include "llvm/Support/SourceMgr.h"
#include "llvm/Support/raw_ostream.h"
#include <map>
#include <set>
#include <string>

using namespace llvm;

static const DataLayout *DL;
static std::map<const Value *, int> ValId;

static std::string typeStr(Type *T)
{
    std::string s;
    raw_string_ostream os(s);
    T->print(os, false, true);
    return os.str();
}

static void emitType(json::OStream &J, Type *T)
{
    J.object([&] {
        J.attribute("s", typeStr(T));
        if (T->isIntegerTy())
        {
            J.attribute("k", "int");
            J.attribute("bits", (int64_t)T->getIntegerBitWidth());
        }
        else if (T->isPointerTy())
        {
            J.attribute("k", "ptr");
            Type *E = T->getPointerElementType();
            J.attribute("elem", typeStr(E));
            if (E->isSized())
                J.attribute("elemsize", (int64_t)DL->getTypeAllocSize(E));
        }
        else if (T->isFloatingPointTy())
        {
            J.attribute("k", "fp");
            J.attribute("bits", (int64_t)T->getPrimitiveSizeInBits());
        }
        else if (T->isVoidTy())
            J.attribute("k", "void");
        else if (T->isStructTy())
            J.attribute("k", "struct");
        else if (T->isArrayTy())
        {
            J.attribute("k", "array");
            J.attribute("n", (int64_t)T->getArrayNumElements());
            J.attribute("elem", typeStr(T->getArrayElementType()));
        }
        else
            J.attribute("k", "other");
        if (T->isSized())
            J.attribute("size", (int64_t)DL->getTypeAllocSize(T));
    });
}

static void emitConstInit(json::OStream &J, const Constant *C, int depth);

static void emitGEPDecomp(json::OStream &J, const GEPOperator *G);

static void emitValue(json::OStream &J, const Value *V, int depth = 0)
{
    // fold constant expressions with the data layout (offsetof idioms such as
    // ptrtoint(gep null, 0, k) become plain integers)
    if (auto *CE0 = dyn_cast<ConstantExpr>(V))
        if (Constant *F = ConstantFoldConstant(CE0, *DL))
            V = F;
    J.object([&] {
        if (auto *CI = dyn_cast<ConstantInt>(V))
        {
            J.attribute("k", "ci");
            unsigned w = CI->getBitWidth();
            J.attribute("w", (int64_t)w);
            if (w <= 64)
            {
                J.attribute("v", (int64_t)CI->getSExtValue());
                // unsigned rendering as string to avoid JSON 2^63 issues
                J.attribute("u", std::to_string(CI->getZExtValue()));
            }
            else
            {
                SmallString<40> s;
                CI->getValue().toStringSigned(s);
                J.attribute("big", s.str());
            }
        }
        else if (auto *CF = dyn_cast<ConstantFP>(V))
        {
            J.attribute("k", "cf");
            SmallString<40> s;
            CF->getValueAPF().toString(s);
            J.attribute("v", s.str());
            bool loses;
            APFloat d = CF->getValueAPF();
            d.convert(APFloat::IEEEdouble(), APFloat::rmNearestTiesToEven,
                      &loses);
            J.attribute("bitsd",
                        std::to_string(d.bitcastToAPInt().getZExtValue()));
        }
        else if (isa<ConstantPointerNull>(V))
            J.attribute("k", "null");
        else if (isa<UndefValue>(V))
            J.attribute("k", "undef");
        else if (auto *F = dyn_cast<Function>(V))
        {
            J.attribute("k", "func");
            J.attribute("name", F->getName());
        }
        else if (auto *GV = dyn_cast<GlobalVariable>(V))
        {
            J.attribute("k", "global");
            J.attribute("name", GV->getName());
        }
        else if (auto *GA = dyn_cast<GlobalAlias>(V))
        {
            J.attribute("k", "global");
            J.attribute("name", GA->getName());
        }
        else if (auto *A = dyn_cast<Argument>(V))
        {
            J.attribute("k", "arg");
            J.attribute("i", (int64_t)A->getArgNo());
        }
        else if (auto *BB = dyn_cast<BasicBlock>(V))
        {
            J.attribute("k", "bb");
            J.attribute("name", BB->getName());
        }
        else if (auto *I = dyn_cast<Instruction>(V))
        {
            J.attribute("k", "inst");
            J.attribute("id", (int64_t)ValId[I]);
        }
        else if (auto *CE = dyn_cast<ConstantExpr>(V))
        {
            J.attribute("k", "cexpr");
            J.attribute("op", CE->getOpcodeName());
            J.attributeBegin("ty");
            emitType(J, CE->getType());
            J.attributeEnd();
            if (depth < 6)
            {
                J.attributeArray("ops", [&] {
                    for (auto &U : CE->operands())
                        emitValue(J, U.get(), depth + 1);
                });
                if (auto *G = dyn_cast<GEPOperator>(CE))
                {
                    J.attributeBegin("gep");
                    emitGEPDecomp(J, G);
                    J.attributeEnd();
                }
                if (CE->isCompare())
                    J.attribute("pred", CmpInst::getPredicateName(
                                            (CmpInst::Predicate)CE->getPredicate()));
            }
        }
        else if (auto *C = dyn_cast<Constant>(V))
        {
            J.attribute("k", "cagg");
            J.attributeBegin("init");
            emitConstInit(J, C, 0);
            J.attributeEnd();
        }
        else if (isa<MetadataAsValue>(V))
            J.attribute("k", "meta");
        else if (isa<InlineAsm>(V))
            J.attribute("k", "asm");
        else
            J.attribute("k", "unknown");
    });
}

static void emitConstInit(json::OStream &J, const Constant *C, int depth)
{
    if (auto *CDS = dyn_cast<ConstantDataSequential>(C))
    {
        J.array([&] {
            for (unsigned i = 0; i < CDS->getNumElements(); ++i)
            {
                if (CDS->getElementType()->isIntegerTy())
                    J.value((int64_t)CDS->getElementAsInteger(i));
                else if (CDS->getElementType()->isFloatTy())
                    J.value((double)CDS->getElementAsFloat(i));
                else if (CDS->getElementType()->isDoubleTy())
                    J.value(CDS->getElementAsDouble(i));
                else
                    J.value(nullptr);
            }
        });
        return;
    }
    if (isa<ConstantAggregateZero>(C))
    {
        J.object([&] {
            J.attribute("k", "zero");
            J.attribute("size", (int64_t)DL->getTypeAllocSize(C->getType()));
            if (C->getType()->isArrayTy())
                J.attribute("n", (int64_t)C->getType()->getArrayNumElements());
        });
        return;
    }
    if (isa<ConstantArray>(C) || isa<ConstantStruct>(C) || isa<ConstantVector>(C))
    {
        J.array([&] {
            for (auto &U : C->operands())
                emitConstInit(J, cast<Constant>(U.get()), depth + 1);
        });
        return;
    }
    emitValue(J, C, 0);
}

// Decompose a GEP into ordered steps: struct field steps (constant offset,
// field size, whether the field is an array) and index steps (stride, index
// value, element count when indexing inside an array type).
static void emitGEPDecomp(json::OStream &J, const GEPOperator *G)
{
    J.object([&] {
        J.attribute("src_elem", typeStr(G->getSourceElementType()));
        J.attribute("res_elem", typeStr(G->getResultElementType()));
        J.attribute("res_elem_size",
                    G->getResultElementType()->isSized()
                        ? (int64_t)DL->getTypeAllocSize(G->getResultElementType())
                        : (int64_t)0);
        J.attribute("inbounds", G->isInBounds());
        J.attributeArray("steps", [&] {
            bool first = true;
            Type *Cur = nullptr; // type being indexed (null for the leading pointer index)
            for (gep_type_iterator GTI = gep_type_begin(G), E = gep_type_end(G);
                 GTI != E; ++GTI)
            {
                const Value *Idx = GTI.getOperand();
                if (StructType *ST = GTI.getStructTypeOrNull())
                {
                    unsigned f = cast<ConstantInt>(Idx)->getZExtValue();
                    Type *FT = ST->getElementType(f);
                    J.object([&] {
                        J.attribute("k", "field");
                        J.attribute("struct", ST->hasName() ? ST->getName().str() : typeStr(ST));
                        J.attribute("field", (int64_t)f);
                        J.attribute("off", (int64_t)DL->getStructLayout(ST)->getElementOffset(f));
                        J.attribute("size", (int64_t)DL->getTypeAllocSize(FT));
                        J.attribute("is_array", FT->isArrayTy());
                        J.attribute("fty", typeStr(FT));
                    });
                }
                else
                {
                    Type *ET = GTI.getIndexedType();
                    J.object([&] {
                        J.attribute("k", "index");
                        J.attribute("stride", (int64_t)DL->getTypeAllocSize(ET));
                        if (!first && Cur && Cur->isArrayTy())
                            J.attribute("n", (int64_t)Cur->getArrayNumElements());
                        J.attributeBegin("v");
                        emitValue(J, Idx);
                        J.attributeEnd();
                    });
                }
                Cur = GTI.getIndexedType();
                first = false;
            }
        });
    });
}

static void emitLoc(json::OStream &J, const Instruction &I)
{
    const DebugLoc &L = I.getDebugLoc();
    if (!L)
        return;
    J.attributeBegin("loc");
    J.object([&] {
        J.attribute("line", (int64_t)L.getLine());
        J.attribute("col", (int64_t)L.getCol());
        if (auto *S = dyn_cast_or_null<DIScope>(L.getScope()))
        {
            std::string f = S->getFilename().str();
            std::string d = S->getDirectory().str();
            if (!f.empty() && f[0] != '/' && !d.empty())
                f = d + "/" + f;
            J.attribute("file", f);
        }
    });
    J.attributeEnd();
}

static std::string diTypeName(const DIType *T, int depth = 0)
{
    if (!T)
        return "void";
    if (depth > 8)
        return "?";
    if (auto *D = dyn_cast<DIDerivedType>(T))
    {
        std::string b = diTypeName(D->getBaseType(), depth + 1);
        switch (D->getTag())
        {
        case dwarf::DW_TAG_pointer_type:
            return b + "*";
        case dwarf::DW_TAG_reference_type:
            return b + "&";
        case dwarf::DW_TAG_rvalue_reference_type:
            return b + "&&";
        case dwarf::DW_TAG_const_type:
            return "const " + b;
        case dwarf::DW_TAG_volatile_type:
            return "volatile " + b;
        case dwarf::DW_TAG_typedef:
            return D->getName().str();
        default:
            return b;
        }
    }
    if (!T->getName().empty())
        return T->getName().str();
    if (auto *C = dyn_cast<DICompositeType>(T))
        if (C->getTag() == dwarf::DW_TAG_array_type)
            return diTypeName(C->getBaseType(), depth + 1) + "[]";
    return "?";
}

// 1 = signed integer, 0 = unsigned integer/bool/char unsigned, -1 = not an integer
static int diSigned(const DIType *T, int depth = 0)
{
    if (!T || depth > 12)
        return -1;
    if (auto *B = dyn_cast<DIBasicType>(T))
    {
        switch (B->getEncoding())
        {
        case dwarf::DW_ATE_signed:
        case dwarf::DW_ATE_signed_char:
            return 1;
        case dwarf::DW_ATE_unsigned:
        case dwarf::DW_ATE_unsigned_char:
        case dwarf::DW_ATE_boolean:
        case dwarf::DW_ATE_UTF:
            return 0;
        default:
            return -1;
        }
    }
    if (auto *D = dyn_cast<DIDerivedType>(T))
    {
        switch (D->getTag())
        {
        case dwarf::DW_TAG_typedef:
        case dwarf::DW_TAG_const_type:
        case dwarf::DW_TAG_volatile_type:
        case dwarf::DW_TAG_member:
            return diSigned(D->getBaseType(), depth + 1);
        default:
            return -1;
        }
    }
    if (auto *C = dyn_cast<DICompositeType>(T))
        if (C->getTag() == dwarf::DW_TAG_enumeration_type)
            return C->getBaseType() ? diSigned(C->getBaseType(), depth + 1) : 0;
    return -1;
}

int main(int argc, char **argv)
{
    if (argc < 2)
    {
        errs() << "usage: irdump <file.ll|-> [out.json]\n";
        return 2;
    }
    LLVMContext Ctx;
    SMDiagnostic Err;
    std::unique_ptr<Module> M = parseIRFile(argv[1], Err, Ctx);
    if (!M)
    {
        Err.print("irdump", errs());
        return 2;
    }
    DL = &M->getDataLayout();
    std::error_code EC;
    std::unique_ptr<raw_fd_ostream> OutF;
    raw_ostream *Out = &outs();
    if (argc > 2)
    {
        OutF.reset(new raw_fd_ostream(argv[2], EC));
        Out = OutF.get();
    }
    json::OStream J(*Out, 0);
    J.object([&] {
        J.attribute("source", M->getSourceFileName());
        J.attribute("datalayout", M->getDataLayoutStr());
        J.attribute("ptrsize", (int64_t)DL->getPointerSize());
        // LLVM struct types
        J.attributeObject("structs", [&] {
            for (StructType *ST : M->getIdentifiedStructTypes())
            {
                if (ST->isOpaque())
                    continue;
                J.attributeObject(ST->getName(), [&] {
                    const StructLayout *SL = DL->getStructLayout(ST);
                    J.attribute("size", (int64_t)SL->getSizeInBytes());
                    J.attributeArray("fields", [&] {
                        for (unsigned i = 0; i < ST->getNumElements(); ++i)
                            J.object([&] {
                                J.attribute("off", (int64_t)SL->getElementOffset(i));
                                J.attributeBegin("ty");
                                emitType(J, ST->getElementType(i));
                                J.attributeEnd();
                            });
                    });
                });
            }
        });
        // Debug-info composite types: member names by offset
        J.attributeArray("ditypes", [&] {
            DebugInfoFinder F;
            F.processModule(*M);
            for (DIType *T : F.types())
            {
                auto *C = dyn_cast<DICompositeType>(T);
                if (!C)
                    continue;
                if (C->getTag() != dwarf::DW_TAG_structure_type &&
                    C->getTag() != dwarf::DW_TAG_class_type &&
                    C->getTag() != dwarf::DW_TAG_union_type)
                    continue;
                if (C->isForwardDecl())
                    continue;
                J.object([&] {
                    J.attribute("name", C->getName());
                    J.attribute("ident", C->getIdentifier());
                    J.attribute("size", (int64_t)(C->getSizeInBits() / 8));
                    std::string scope;
                    for (const DIScope *S = C->getScope(); S; S = S->getScope())
                        if (!S->getName().empty())
                            scope = S->getName().str() + "::" + scope;
                    J.attribute("scope", scope);
                    J.attributeArray("members", [&] {
                        for (const DINode *N : C->getElements())
                        {
                            auto *D = dyn_cast<DIDerivedType>(N);
                            if (!D)
                                continue;
                            if (D->getTag() != dwarf::DW_TAG_member &&
                                D->getTag() != dwarf::DW_TAG_inheritance)
                                continue;
                            if (D->isStaticMember())
                                continue;
                            J.object([&] {
                                J.attribute("name",
                                            D->getTag() == dwarf::DW_TAG_inheritance
                                                ? std::string("<base>")
                                                : D->getName().str());
                                J.attribute("off", (int64_t)(D->getOffsetInBits() / 8));
                                J.attribute("size", (int64_t)(D->getSizeInBits() / 8));
                                J.attribute("type", diTypeName(D->getBaseType()));
                                J.attribute("signed", (int64_t)diSigned(D->getBaseType()));
                            });
                        }
                    });
                });
            }
        });
        J.attributeArray("globals", [&] {
            for (GlobalVariable &G : M->globals())
            {
                J.object([&] {
                    J.attribute("name", G.getName());
                    J.attribute("const", G.isConstant());
                    J.attribute("linkage", (int64_t)G.getLinkage());
                    J.attribute("tls", G.isThreadLocal());
                    J.attributeBegin("ty");
                    emitType(J, G.getValueType());
                    J.attributeEnd();
                    if (G.hasInitializer())
                    {
                        J.attributeBegin("init");
                        emitConstInit(J, G.getInitializer(), 0);
                        J.attributeEnd();
                    }
                });
            }
        });
        J.attributeArray("functions", [&] {
            for (Function &F : *M)
            {
                if (F.isIntrinsic() &&
                    (F.getName().startswith("llvm.dbg") ||
                     F.getName().startswith("llvm.lifetime")))
                    continue;
                ValId.clear();
                int n = 0;
                for (BasicBlock &B : F)
                    for (Instruction &I : B)
                        ValId[&I] = n++;
                J.object([&] {
                    J.attribute("name", F.getName());
                    J.attribute("decl", F.isDeclaration());
                    J.attribute("linkage", (int64_t)F.getLinkage());
                    J.attribute("varargs", F.isVarArg());
                    if (DISubprogram *SP = F.getSubprogram())
                    {
                        J.attribute("srcname", SP->getName());
                        J.attribute("line", (int64_t)SP->getLine());
                        std::string f = SP->getFilename().str();
                        std::string d = SP->getDirectory().str();
                        if (!f.empty() && f[0] != '/' && !d.empty())
                            f = d + "/" + f;
                        J.attribute("file", f);
                        std::string scope;
                        for (const DIScope *S = SP->getScope(); S; S = S->getScope())
                        {
                            if (isa<DIFile>(S) || isa<DICompileUnit>(S))
                                break;
                            if (!S->getName().empty())
                                scope = S->getName().str() + "::" + scope;
                        }
                        J.attribute("scope", scope);
                        if (auto *STy = SP->getType())
                        {
                            J.attributeArray("ditypes", [&] {
                                for (const DIType *PT : STy->getTypeArray())
                                    J.object([&] {
                                        J.attribute("type", diTypeName(PT));
                                        J.attribute("signed", (int64_t)diSigned(PT));
                                        J.attribute("artificial", PT ? PT->isArtificial() : false);
                                    });
                            });
                        }
                    }
                    J.attributeBegin("ret");
                    emitType(J, F.getReturnType());
                    J.attributeEnd();
                    J.attributeArray("params", [&] {
                        for (Argument &A : F.args())
                            J.object([&] {
                                J.attribute("name", A.getName());
                                J.attributeBegin("ty");
                                emitType(J, A.getType());
                                J.attributeEnd();
                                if (A.hasStructRetAttr())
                                    J.attribute("sret", true);
                                if (A.hasByValAttr())
                                    J.attribute("byval", true);
                            });
                    });
                    if (F.isDeclaration())
                        return;
                    J.attributeArray("blocks", [&] {
                        for (BasicBlock &B : F)
                        {
                            J.object([&] {
                                J.attribute("name", B.getName());
                                J.attributeArray("insts", [&] {
                                    for (Instruction &I : B)
                                    {
                                        if (auto *DI = dyn_cast<DbgVariableIntrinsic>(&I))
                                        {
                                            // keep as a light 'dbg' record
                                            J.object([&] {
                                                J.attribute("id", (int64_t)ValId[&I]);
                                                J.attribute("op", "dbg");
                                                J.attribute("var", DI->getVariable()->getName());
                                                J.attribute("signed", (int64_t)diSigned(DI->getVariable()->getType()));
                                                if (DI->getNumVariableLocationOps() == 1 &&
                                                    DI->getVariableLocationOp(0))
                                                {
                                                    J.attributeBegin("val");
                                                    emitValue(J, DI->getVariableLocationOp(0));
                                                    J.attributeEnd();
                                                }
                                                J.attribute("isdecl", isa<DbgDeclareInst>(DI));
                                            });
                                            continue;
                                        }
                                        if (auto *II = dyn_cast<IntrinsicInst>(&I))
                                            if (II->isLifetimeStartOrEnd())
                                                continue;
                                        J.object([&] {
                                            J.attribute("id", (int64_t)ValId[&I]);
                                            J.attribute("op", I.getOpcodeName());
                                            if (I.hasName())
                                                J.attribute("name", I.getName());
                                            J.attributeBegin("ty");
                                            emitType(J, I.getType());
                                            J.attributeEnd();
                                            emitLoc(J, I);
                                            if (auto *PN = dyn_cast<PHINode>(&I))
                                            {
                                                J.attributeArray("incoming", [&] {
                                                    for (unsigned i = 0; i < PN->getNumIncomingValues(); ++i)
                                                        J.object([&] {
                                                            J.attribute("bb", PN->getIncomingBlock(i)->getName());
                                                            J.attributeBegin("v");
                                                            emitValue(J, PN->getIncomingValue(i));
                                                            J.attributeEnd();
                                                        });
                                                });
                                                return;
                                            }
                                            if (auto *CB = dyn_cast<CallBase>(&I))
                                            {
                                                J.attributeBegin("callee");
                                                emitValue(J, CB->getCalledOperand()->stripPointerCasts());
                                                J.attributeEnd();
                                                J.attributeArray("args", [&] {
                                                    for (auto &A : CB->args())
                                                        emitValue(J, A.get());
                                                });
                                                if (auto *IV = dyn_cast<InvokeInst>(&I))
                                                {
                                                    J.attribute("normal", IV->getNormalDest()->getName());
                                                    J.attribute("unwind", IV->getUnwindDest()->getName());
                                                }
                                                return;
                                            }
                                            J.attributeArray("ops", [&] {
                                                for (auto &U : I.operands())
                                                    emitValue(J, U.get());
                                            });
                                            if (auto *C = dyn_cast<CmpInst>(&I))
                                                J.attribute("pred", CmpInst::getPredicateName(C->getPredicate()));
                                            if (auto *G = dyn_cast<GetElementPtrInst>(&I))
                                            {
                                                J.attributeBegin("gep");
                                                emitGEPDecomp(J, cast<GEPOperator>(G));
                                                J.attributeEnd();
                                            }
                                            if (auto *A = dyn_cast<AllocaInst>(&I))
                                            {
                                                J.attributeBegin("alloc_ty");
                                                emitType(J, A->getAllocatedType());
                                                J.attributeEnd();
                                            }
                                            if (auto *L = dyn_cast<LoadInst>(&I))
                                            {
                                                J.attribute("volatile", L->isVolatile());
                                                J.attribute("align", (int64_t)L->getAlign().value());
                                            }
                                            if (auto *S = dyn_cast<StoreInst>(&I))
                                            {
                                                J.attribute("volatile", S->isVolatile());
                                                J.attribute("align", (int64_t)S->getAlign().value());
                                                J.attribute("store_size", (int64_t)DL->getTypeStoreSize(S->getValueOperand()->getType()));
                                            }
                                            if (auto *BR = dyn_cast<BranchInst>(&I))
                                            {
                                                if (BR->isConditional())
                                                {
                                                    J.attribute("t", BR->getSuccessor(0)->getName());
                                                    J.attribute("f", BR->getSuccessor(1)->getName());
                                                }
                                                else
                                                    J.attribute("t", BR->getSuccessor(0)->getName());
                                            }
                                            if (auto *SW = dyn_cast<SwitchInst>(&I))
                                            {
                                                J.attribute("default", SW->getDefaultDest()->getName());
                                                J.attributeArray("cases", [&] {
                                                    for (auto &C : SW->cases())
                                                        J.object([&] {
                                                            J.attribute("v", (int64_t)C.getCaseValue()->getSExtValue());
                                                            J.attribute("bb", C.getCaseSuccessor()->getName());
                                                        });
                                                });
                                            }
                                            if (auto *O = dyn_cast<OverflowingBinaryOperator>(&I))
                                            {
                                                J.attribute("nsw", O->hasNoSignedWrap());
                                                J.attribute("nuw", O->hasNoUnsignedWrap());
                                            }
                                            if (auto *EV = dyn_cast<ExtractValueInst>(&I))
                                                J.attributeArray("indices", [&] {
                                                    for (unsigned i : EV->indices())
                                                        J.value((int64_t)i);
                                                });
                                            if (auto *IV = dyn_cast<InsertValueInst>(&I))
                                                J.attributeArray("indices", [&] {
                                                    for (unsigned i : IV->indices())
                                                        J.value((int64_t)i);
                                                });
                                        });
                                    }
                                });
                            });
                        }
                    });
                });
            }
        });
    });
    Out->flush();
    return 0;
}
