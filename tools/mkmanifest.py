#!/usr/bin/env python3
"""Regenerates MANIFEST.json from the table below (keeps it schema-valid)."""
import json, os
V = os.path.dirname(os.path.dirname(os.path.abspath(__file__)))
props = [json.loads(l) for l in open(os.path.join(V, 'properties.jsonl'))]

CHECKS = {
 'C15': dict(
    category='other', design_ref='DESIGN.md 5/C15',
    technique='abstract interpretation over LLVM IR (linear-inequality domain, contracts), IR dataflow rules',
    text='Static proof obligations: every sline operation keeps 0 <= cursor <= len < cap with every buffer access in bounds and '
         'its closed-form effect (all capacities, all states); the readline key automaton (C and C++ twin) obeys one per-(state, '
         'key class) table - insert/refuse (a refused character is not echoed), backspace, arrows, delete, escape sequences, '
         'CR/LF pairing - and keeps the line invariant; history index arithmetic and slot copies stay inside the history buffer '
         '(capacity instantiated at 16); vt100_left fits its 16-byte buffer. Equality with a reference editor over key '
         'sequences and VT100 screen equivalence are not decided.',
    note='Trusted: clang lowering to IR, irdump, the interpreter (checks/absint.py, lin.py) and the contract '
         'in checks/common.py (SLINE). Undecided: reference-editor equality, screen equivalence, history order.'),
}
CHECKS['C03'] = dict(
    category='other', design_ref='DESIGN.md 5/C03',
    technique='abstract interpretation over LLVM IR (linear-inequality domain, contracts with closed-form postconditions)',
    text='Static proof obligations for every function of the C ring, the ring counter, igris::ring<T> and cyclic_buffer<T>: '
         'indices stay in [0,size), every buffer access is in bounds, ring size equals buffer size, empty/full/avail/room '
         'equal their closed forms, refusal leaves the state unchanged, getc returns -1 or 0..255, index fix-up is the '
         'mathematical modulo on one wrap either side. For all sizes and states; FIFO/lossless over histories is not decided.',
    note='Trusted: clang lowering, irdump, checks/absint.py + lin.py, the contracts in checks/c03.py. Assumes size <= 2^30, '
         'bulk moves with bias <= size, non-aliasing parameters.')
CHECKS['C14'] = dict(
    category='other', design_ref='DESIGN.md 5/C14',
    technique='abstract interpretation over LLVM IR of every instantiated member (class invariant m_size <= N, slot accesses inside the inline array); slot typestate (RAW/LIVE) by trace partitioning on the entry size and small arguments',
    text='For static_vector<int,4>, static_vector<VTr,4> (probe element type with external special members), static_string<4> and '
         'their std_portable twins: every constructor and method re-establishes m_size <= N, every element construct/destroy/assign '
         'and every byte copy lies inside the inline storage, push/emplace refuse when full, resize clamps - for all states and '
         'arguments. Element lifetimes (static_vector<VTr,N>, N = 1, 2, 4 and the twin): slot typestate RAW/LIVE decided per '
         '(member, entry size, position, count, aliasing of the value argument) partition - constructors only on RAW slots, '
         'destructors/assignments/reads only on LIVE ones, exactly [0,m_size) LIVE at every return - hence every constructed '
         'element is destroyed exactly once. Content equality is not decided by this check.',
    note='Trusted: clang lowering, irdump, absint/lin, the argument contracts in checks/c14.py (iterators of erase point into the '
         'container, range arguments delimit one array). N is instantiated at 4.')
CHECKS['C04'] = dict(
    category='other', design_ref='DESIGN.md 5/C04',
    technique='abstract interpretation over LLVM IR with a ghost frame-grammar automaton on the output stores; constant alphabet agreement',
    text='For the configurable encoder (symbolic marker alphabet) and the legacy encoder: every byte stored between the frame '
         'delimiters is either an escape pair or provably different from every marker (incl. the CRC byte), first/last byte are '
         'START/STOP, the return value is the number of bytes written, the CRC seed is 0xFF, all stores stay within 2n+4 bytes and '
         'the self-sizing overloads allocate at least that; gstuff_byte realises the inverse of the escape table proved for the '
         'receiver; the shipped alphabets are consistent. Decides these clauses for all payloads; decode(encode(p)) == p as a '
         'whole is not decided.',
    note='Trusted: clang lowering, irdump, absint/lin, the std::vector<uint8_t> summary (resize/operator[]), igris_strmcrc8 '
         'summarised as a one-byte update. Size bound proved for the single-buffer entry point (iovec count 1).')
CHECKS['C05'] = dict(
    category='other', design_ref='DESIGN.md 5/C05',
    technique='abstract interpretation over LLVM IR: sline contract + per-(state, byte class) postconditions of the receiver automata',
    text='For gstuff_autorecv::newchar and the legacy receiver, for every automaton state, input byte, marker alphabet (symbolic) '
         'and buffer capacity: all buffer writes in bounds and only through sline_putchar, at most one byte stored per input, a '
         'refused byte gives OVERFLOW, NEWPACKAGE only with zero CRC residue and with the CRC stripped, start marker inside a frame '
         'restarts, each escape code decodes to its marker, invalid escape is an error. Resynchronisation over whole streams is '
         'not decided.',
    note='Trusted: clang lowering, irdump, absint/lin, contracts in checks/c05.py; igris_strmcrc8 summarised (its value is C17).')
CHECKS['C01'] = dict(
    category='other', design_ref='DESIGN.md 5/C01',
    technique='shape analysis: symbolic-heap abstract interpretation of the IR over all footprint configurations, compared with a sequence-rewrite model; IR traversal rules',
    text='Every loop-free mutator of the C dlist, C++ dlist_node/dlist_base/dlist<T>, slist and hlist is interpreted on every '
         'aliasing/shape configuration of its arguments and their neighbours (rings with opaque gaps for arbitrarily many other '
         'nodes); the resulting pointer graph must equal the one induced by an independent insert/remove/move/splice model, '
         'removed nodes must be self-linked (or poisoned for dlist_del). Traversal macros and iterators must step through '
         'next/prev and stop at the head. Whole-history equivalence with a reference list follows by the frame argument '
         '(not mechanised).',
    note='Trusted: clang lowering, irdump, absint, the sequence model in checks/shape.py + checks/c01.py. Excluded by '
         'precondition: a node used as its own anchor; dlist_add_* on an already linked node. Loops (~dlist_base, clear) on '
         'explicit rings up to 3 elements.')
CHECKS['C17'] = dict(
    category='other', design_ref='DESIGN.md 5/C17',
    technique='abstract interpretation in a GF(2)-affine bit-vector domain (exact transformer of each CRC step vs. the polynomial definition); linear-inequality abstract interpretation for the data reads',
    text='For every routine the per-byte/per-word update step is computed as an exact affine map over GF(2) for all register '
         'and data values at once (bit loops fully unrolled by LLVM, look-up tables proved affine in their index) and must '
         'equal the map generated from the bit-serial mathematical definition (CRC-8 Dallas 0x8C reflected: bit-serial and '
         '2x16 table; CRC-16 0x1021; MMC CRC-7 0x09; streaming CRC-8 0x31; CRC-32 0x04C11DB7 word-wise, little-endian lanes). '
         'Fold structure gives piecewise == one-shot, linearity in crc^byte gives residue 0, and all data reads are single '
         'bytes inside [data, data+length).',
    note='Trusted: clang + LLVM unroll/GVN/simplifycfg passes (semantics preserving), irdump, checks/gf2.py, absint. A routine '
         'whose bit loop LLVM cannot unroll is reported as analysis-broken, not as held.')
CHECKS['C18'] = dict(
    category='other', design_ref='DESIGN.md 5/C18',
    technique='abstract interpretation (closed forms of the hex digit maps, buffer bounds), IR dataflow for byte lanes, GF(2) bit-vector domain for the base64 bit regrouping, constant alphabet agreement',
    text='hex: half2hex/hex2half/hex2byte equal their closed forms on every digit class and hex2half(half2hex(n)) == n for all '
         'nibbles (proved for all values), hexascii_encode/decode stay inside their buffers, uintN_to_hex and hex_to_uintN use the '
         'same byte-lane order (MSB first, high nibble first). base64: alphabet constant == RFC 4648, the alphabet index of every '
         'output character (full group and both padded tails) and the 4-sextet -> 3-byte regrouping equal the RFC 4648 bit '
         'slices for all inputs, url-safe variant applies inverse character maps around the matching codec. Output length and '
         'whole-string equality with a reference are not decided.',
    note='Trusted: clang/LLVM lowering and unrolling, irdump, absint, gf2. Little-endian target. std::string is not analysed '
         '(calls are opaque); sextets are assumed < 64 because only alphabet characters reach the regrouping.')
CHECKS['C08'] = dict(
    category='other', design_ref='DESIGN.md 5/C08',
    technique='abstract interpretation over LLVM IR with a C-string model (symbolic terminator position) and exact-extent buffers; IR dataflow rules',
    text='Each of the mem*/str* functions is interpreted under its ISO C / POSIX access contract - buffers with exactly n '
         'bytes (n may be 0), strings with a symbolic terminator position, destinations with exactly the required room - and '
         'every load/store is proved inside those extents for all lengths and contents; returned pointers lie inside the right '
         'object or are NULL; strlen/strnlen/strlcpy/strspn/strcspn results obey their definitions; memmove copies overlapping '
         'ranges from the far end; memcpy uses word accesses only under its alignment guard; comparison results are differences '
         'of unsigned chars. Byte-exact copied contents and comparison signs are not decided.',
    note='Trusted: clang lowering (hosted against the system headers, -fno-builtin), irdump, absint/lin, the summaries of '
         'tolower/toupper and of the sibling libc functions called across units (each analysed on its own). strtok is only '
         'covered through strchr/strcspn.')
CHECKS['C02'] = dict(
    category='other', design_ref='DESIGN.md 5/C02',
    technique='abstract interpretation over LLVM IR of every instantiated member under the class contract (size <= capacity, m_data owns capacity*sizeof(T)); slot typestate (RAW/LIVE) and block ownership by trace partitioning on small sizes; IR dataflow rules for flat_map/flat_set',
    text='For igris::vector<int> and igris::vector<VTr> (probe element with external special members): every constructor and '
         'method re-establishes m_size <= m_capacity and leaves in m_data a block of exactly the recorded capacity (or null), '
         'every element read/write/construct/destroy/assign lies inside the allocation, size bookkeeping follows the '
         'definition of each operation - for all sizes, positions and arguments. flat_map/flat_set: no member returns a '
         'reference to a temporary, insert and count search with the same function, all lookups scan by key equality. '
         'Element lifetimes of igris::vector<VTr>: slot typestate RAW/LIVE and block ownership decided per (member, size 0..4, '
         'capacity, position, count, aliasing of value/range arguments) partition, thorough tier sizes 0..7 - constructors only '
         'on RAW slots, destructors/assignments/reads only on LIVE ones, exactly [0,m_size) LIVE at every return, no live slot '
         'in a deallocated block, every dropped block deallocated once; larger sizes rest on the uniformity of the loops. '
         'Sequence equality with std::vector/std::map is not decided here.',
    note='Trusted: clang lowering (libstdc++ helper templates are interpreted as IR), irdump, absint/lin, the argument '
         'contracts in checks/c02.py (iterators point into the vector at positions <= size).')
# later extensions (helper modules hooked at the end of the checks): what they add, and the stale "not decided" phrases they replace
EXTRA = {
 'C01': dict(drop=[' Excluded by precondition: a node used as its own anchor; dlist_add_* on an already linked node.'],
             note=' A C++ node moved next to itself is covered (it ends detached); excluded by precondition: dlist_add_* on an already linked node.'),
 'C02': dict(drop=[' Sequence equality with std::vector/std::map is not decided here.'],
             tech='; element-identity typestate (every live slot carries the identity of its value) compared with a reference sequence per operation',
             text=' Contents: R-IDENT-VEC decides for 46 members of igris::vector<VTr> that the identities in [0,size) equal the reference '
                  'sequence of the operation (erase, insert/emplace, push/pop, resize, copies, moves, range construction) and that returned '
                  'references/iterators address the expected slot; operator< is the lexicographic comparison alone; at(size) throws; '
                  'resize value-initialises new int elements. flat_map/flat_set contents are decided at shape level only.'),
 'C03': dict(drop=[' For all sizes and states; FIFO/lossless over histories is not decided.'],
             tech='; slot-identity analysis on every ring size 2..5 x every (head, tail) with symbolic contents; RAW/LIVE typestate for typed rings',
             text=' For all sizes and states. FIFO content (c03_content): put stores the argument in slot head_before and moves head only, get '
                  'returns slot tail_before and moves tail only, bulk transfers move exactly min(n, room/avail) bytes in order, typed-ring '
                  'accessors and the cyclic buffer address the reference element, and the FIFO induction is replayed on the interpreted '
                  'transition tables against a reference deque (sizes 2..5, thorough ..7); typed rings keep every slot constructed.'),
 'C04': dict(drop=[' Decides these clauses for all payloads; decode(encode(p)) == p as a whole is not decided.'],
             text=' Two scatter-gather pieces of arbitrary lengths (empty included) give a closed frame of at least total+3 and at most '
                  '2*total+4 bytes (no piece dropped); the decoding half - the receiver clauses of C05 - is evaluated here as R-DECODE. '
                  'decode(encode(p)) == p follows from the two halves and the CRC residue property of C17 by induction over the frame; '
                  'that composition is stated in prose.'),
 'C05': dict(drop=[' Resynchronisation over whole streams is not decided.'],
             text=' Resynchronisation is a finite case analysis over receiver configurations (idle, fresh, mid-frame, after-escape) whose '
                  'every step is a proven clause: differing markers - a start marker from any state gives the fresh configuration (delivery '
                  'from the first frame); START == STOP and the legacy receiver - delivery from the second frame at the latest. '
                  'Stream level (c05_streams): both receivers are interpreted one byte at a time with concrete control and symbolic '
                  'bytes (CRC-8 uninterpreted, f(x,x) = 0 from C17) into a memoised symbolic transition system; garbage prefixes of 0..3 '
                  'bytes in all byte classes, truncated frames, frames with one byte replaced by each class, frames 1..3 bytes too long, '
                  'each followed by good frames, for the v1 / v0 / symbolic / legacy alphabets and buffers of 2..8 bytes, are walked '
                  'against a reference reader that knows only the property: the good frame is delivered intact exactly on its last byte '
                  '(from the second at the latest when the markers coincide), nothing else is delivered unless those bytes are a complete '
                  'frame on that path, every status is the one the property names, the byte that does not fit gives OVERFLOW. Streams '
                  'longer than these families are covered by the per-transition clauses only.',
             tech='; stream families as DAGs walked through the memoised symbolic transition system of the interpreted receiver'),
 'C08': dict(drop=[' Byte-exact copied contents and comparison signs are not decided.'],
             tech='; byte-identity analysis on small concrete sizes with symbolic contents (byte-granular memory, exact lane arithmetic)',
             text=' Contents (c08_content): for n = 0..9 and the word-path thresholds, every alignment and every overlap offset, the bytes '
                  'left by memcpy/memmove/memset/strcpy/strncpy/strlcpy/strcat/strncat/strdup/strndup/strlwr/strupr/strtok(_r) equal the '
                  'definition and nothing else is written; the ten search functions return the first/last matching position; the five '
                  'comparison functions return the sign of the first differing (folded) byte; strcasecmp folds with tolower.'),
 'C14': dict(drop=[' Content equality is not decided by this check.'],
             tech='; element-identity typestate compared with a reference sequence per operation',
             text=' Contents: R-IDENT-SVEC/-TWIN decide for N = 4, 2, 1 that the identities in [0,size) equal the reference sequence of every '
                  'operation (copies, moves, range/initializer-list construction clamped at N, erase, push/emplace incl. aliased arguments, '
                  'resize, clear) and that operator[]/front/back/begin/end address the expected slot.'),
 'C15': dict(drop=[' Equality with a reference editor over key sequences and VT100 screen equivalence are not decided.',
                   ' Undecided: reference-editor equality, screen equivalence, history order.'],
             tech='; byte-identity analysis of line, history and emitted terminal bytes on small concrete configurations; one-line VT100 screen model',
             text=' Contents (c15_content): on capacities 4..8 x every len/cursor the sline operations leave exactly the reference character '
                  'sequence; history push/recall store and bring back exactly the line of slot (head - cur) mod depth; readline_putchar per '
                  '(state, key class) equals the reference editor step; the bytes vterm emits, replayed on a one-line VT100 model, show prompt '
                  '+ line with the cursor at prompt + cursor after every key; the execute callback receives exactly the line. The induction '
                  'over key sequences is not mechanised.',
             note=' Undecided: capacities above 8 (12 thorough), the C++ twins of readline/vterm for contents.'),
 'C18': dict(drop=[' Output length and whole-string equality with a reference are not decided.',
                   ' std::string is not analysed (calls are opaque);'],
             tech='; std::string summarised by a length cell for the length / loop-structure clauses; interval-partitioned evaluation of the admission predicate and of the url character map',
             text=' Lengths and structure (c18_len): hexascii 2n / n/2 with every byte visited; base64_encode reads inside [0,size), three '
                  'bytes per group, tails of exactly 1 and 2, length 4*ceil(size/3); base64_decode stops at the first non-alphabet symbol P = '
                  '4Q+k and produces 3Q + max(k-1, 0) bytes; the url-safe variants visit every position once and map only +/- and //_ ; the '
                  'decoder admission predicate accepts each whole alphabet class and rejects the padding.',
             note=' std::string members are summarised (length cell, exact character block). The byte lanes of the fixed-width hex '
                  'helpers are decided by a bit-lane evaluation (c18_lanes) that does not depend on how the lanes are addressed.'),
}
for _pid, _e in EXTRA.items():
    _c = CHECKS[_pid]
    for _d in _e.get('drop', []):
        assert _d in _c['text'] or _d in _c['note'], (_pid, _d)
        _c['text'] = _c['text'].replace(_d, '')
        _c['note'] = _c['note'].replace(_d, '')
    _c['text'] += _e.get('text', '')
    _c['note'] += _e.get('note', '')
    _c['technique'] += _e.get('tech', '')

# extensions of checks whose base text comes from proposed/<id>/manifest.json (applied after loading, see below)
EXTRA_PROPOSED = {
 'C19': dict(drop=[' Equality of the produced tokens/strings with a reference implementation is not decided.'],
             tech='; texts modelled as runs of symbolic length with a byte class per run for the content clauses',
             text=' Contents (c19_content): trim returns exactly [first non-space, last non-space]; split / split_cmdargs / argvc hand out '
                  'exactly the maximal delimiter-free ranges in order for texts with 0, 1 and 2 tokens of any length (quotes, argcmax, NUL '
                  'behind each token); memmem results start and end with the needle\'s first and last byte and find an occurrence behind a '
                  'prefix free of the first needle byte; path_compare_node follows the first differing byte and the shorter node sorts first; '
                  'path results are component starts; creader skip/readline lengths, token and cursor. Texts with three or more tokens, join '
                  'and the text produced by replace are not decided.'),
 'C13': dict(tech='; truth-table walks over the comparisons that choose the %g notation and the renormalisation',
             text=' %g chooses the exponent form exactly when X < -4 or X >= P with P >= 1 (R-GSTYLE); the integer part is renormalised from '
                  '>= base on (R-RENORM).'),
 'C09': dict(drop=[' Equality of the decoded value (element order, container insertion semantics) is not decided.'],
             tech='; writer-then-reader interpretation on concrete shapes with symbolic contents (libstdc++ interpreted from its IR)',
             text=' The 16-bit counts are used unsigned both as loop bounds and as block lengths; a reader that accumulates into its target '
                  'is handed a fresh object per value (R-FRESH). c09_roundtrip: for 85 writer/reader pairs of both archive families '
                  '(scalars, strings, vectors, maps, pairs, tuples, reflectable structs, nested to depth 3, lengths 0..3 at every level) the '
                  'reader rebuilds the written value symbol by symbol, leaves the cursor exactly behind its encoding, reads nothing outside '
                  'it, values written in sequence come back in order, and counted blocks deliver the first min(len, max) bytes.'),
 'C11': dict(drop=[], tech='; concrete-control / symbolic-content interpretation of qsort and bsearch with the comparator as a weak-order oracle',
             text=' A character is consumed as a digit only if its value is below the base, also after an overflow (end pointer). '
                  'c11_order: for nmemb 0..5 (thorough ..6), element sizes 1/3/4/8, every weak order of the keys and every pivot choice, '
                  'qsort leaves a permutation of whole elements that is sorted and terminates; bsearch (n 0..7) returns an element '
                  'comparing equal iff one exists with at most floor(log2 n)+2 comparisons; atol/atoi return the decimal value of texts '
                  'up to 18 / 9 digits.'),
 'C07': dict(tech='; value analysis with symbolic digits and an exact Euclidean split for division by the constant base',
             text=' c07_roundtrip: for bases 2/8/10/16/36 and values of 1..4 symbolic digits (plus 0, -1, minimum and maximum of each '
                  'type) every renderer leaves sign, digits most significant first and terminator; every parser returns the signed digit '
                  'sum and the stopper position; parse(render(v)) == v for every pair; the debug printers emit exactly the digits.'),
 'C12': dict(text=' igris_atof64 adds the exponent to the fraction-digit scale; local_pow accumulates at the width of its result.'),
 'C16': dict(text=' plan(tim, start, interval) on a pending timer moves it to the place of its new deadline; signed scenarios state the '
                  'representability of deadlines and elapsed times explicitly (a wrap-safe due test is decided as well).'),
}
# checks delivered with a manifest fragment under proposed/<id>/manifest.json
FROM_PROPOSED = ['C06', 'C07', 'C13', 'C09', 'C10', 'C11', 'C12', 'C19', 'C16', 'C20']
for _pid in FROM_PROPOSED:
    _m = json.load(open(os.path.join(V, 'proposed', _pid.lower(), 'manifest.json')))
    CHECKS[_pid] = dict(category=_m.get('category', 'other'), design_ref='DESIGN.md 5/%s' % _pid,
                        technique=_m['technique'], text=_m['text'], note=_m['note'])
    _e = EXTRA_PROPOSED.get(_pid, {})
    for _d in _e.get('drop', []):
        assert _d in CHECKS[_pid]['text'], (_pid, _d)
        CHECKS[_pid]['text'] = CHECKS[_pid]['text'].replace(_d, '')
    CHECKS[_pid]['text'] += _e.get('text', '')
    CHECKS[_pid]['technique'] += _e.get('tech', '')
ENGINE = {'C01': 'shape', 'C17': 'gf2', 'C20': 'lockflow', 'C09': 'wire', 'C06': 'printf-sx', 'C13': 'printf-sx'}
NA_REASON = 'check not built yet (work in progress; see DESIGN.md section 9)'

m = {"version": 1,
     "setup_cmd": "sh tools/setup.sh",
     "hooks": {"guard": "IGRIS_VERIF",
               "enable": "none needed: checks analyse /repo sources directly (no instrumentation hooks in /repo)",
               "baseline_off_cmd": "cmake --build /repo/_build && ctest --test-dir /repo/_build -j8 --timeout 900",
               "source_commits": [], "add_only": True},
     "engines": [
        {"name": "irdump", "path": "tools/irdump.cc", "serves_properties": sorted(CHECKS),
         "kind_free_text": "LLVM IR -> JSON front end (clang -O0 + mem2reg/simplifycfg, optional selective inlining / unrolling), rebuilt from /repo on every run"},
        {"name": "absint", "path": "checks/absint.py", "serves_properties": sorted(set(CHECKS) - {'C01'}),
         "kind_free_text": "abstract interpreter over LLVM IR: linear forms + inequality sets, Fourier-Motzkin entailment, template loop invariants, contracts (checks/contracts.py, lin.py, absval.py)"},
        {"name": "shape", "path": "checks/shape.py", "serves_properties": [x for x in ('C01', 'C10') if x in CHECKS],
         "kind_free_text": "symbolic-heap shape analysis of list/pool primitives over all footprint configurations (rings with opaque gaps)"},
        {"name": "gf2", "path": "checks/gf2.py", "serves_properties": [x for x in ('C17', 'C18') if x in CHECKS],
         "kind_free_text": "GF(2)-affine bit-vector domain: exact transformers of unrolled bit-level code"},
        {"name": "life", "path": "checks/life_core.py", "serves_properties": [x for x in ('C02', 'C14') if x in CHECKS],
         "kind_free_text": "slot typestate (RAW/LIVE) and block ownership by trace partitioning on small sizes"},
        {"name": "lockflow", "path": "checks/c20_lockflow.py", "serves_properties": [x for x in ('C20', 'C16') if x in CHECKS],
         "kind_free_text": "lockset dataflow over IR CFGs (lock depth per path, guarded accesses)"},
        {"name": "wire", "path": "checks/c09_wire.py", "serves_properties": [x for x in ('C09',) if x in CHECKS],
         "kind_free_text": "wire-grammar extraction from resolved serialize/deserialize call trees"},
        {"name": "printf-sx", "path": "checks/c06_sx.py", "serves_properties": [x for x in ('C06', 'C13') if x in CHECKS],
         "kind_free_text": "path-wise symbolic extraction of the emission sequence of the printf engine (abstract interpretation with symbolic counts)"},
     ],
     "notes": "Genuine defects: known_findings.json (status fixed = repaired by the named fix: commit in /repo; status known = "
              "reported as KNOWN-FINDING). Seeded changes that the checks must report: seeded/<id>/ (regression: "
              "tools/seedall.py). Behaviour-preserving refactorings on which the checks must stay silent: refactors/<ids>/ "
              "(regression: tools/refall.py). DESIGN.md describes the approach; FRAMEWORK.md is the developer guide.",
     "checks": [], "not_applicable": []}
for p in props:
    pid = p['id']
    c = CHECKS.get(pid)
    if not c:
        m['not_applicable'].append({"property_id": pid, "reason": NA_REASON})
        continue
    m['checks'].append({
        "property_id": pid,
        "quick_cmd": "python3 checks/run.py %s --tier quick" % pid,
        "thorough_cmd": "python3 checks/run.py %s --tier thorough" % pid,
        "evidence_file": "evidence/%s.json" % pid,
        "replay_cmd_template": "python3 checks/run.py %s --replay {path}" % pid,
        "engine": ENGINE.get(pid, "absint"),
        "level_claimed": {"category": c['category'], "text": c['text'], "design_ref": c['design_ref']},
        "level_note": c['note'],
        "technique": c['technique']})
json.dump(m, open(os.path.join(V, 'MANIFEST.json'), 'w'), indent=1)
print('MANIFEST.json: %d checks, %d not_applicable' % (len(m['checks']), len(m['not_applicable'])))
