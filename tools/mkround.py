#!/usr/bin/env python3
"""Developer helper: prepare a round of seeding prompts, one per property, telling each sub-agent which ideas were already
used (summaries of seeded/ and seeded-missed/), and batch files of 5 prompts each.
usage: tools/mkround.py <suffix-letter>     -> /tmp/mut/cNN<suffix>.prompt, /tmp/mut/s<suffix>1..4.batch"""
import glob, json, os, subprocess, sys
V = os.path.dirname(os.path.dirname(os.path.abspath(__file__)))
suf = sys.argv[1]
tags = []
for n in range(1, 21):
    pid = 'C%02d' % n
    used = []
    for d in sorted(glob.glob(V + '/seeded/%s-*' % pid) + glob.glob(V + '/seeded-missed/%s-*' % pid)):
        try:
            used.append(json.load(open(d + '/meta.json')).get('summary', '')[:170].replace('\n', ' '))
        except Exception:
            pass
    hint = ('Pick any function among the files that implement this property which is NOT touched by the ideas listed below; prefer '
            'a slip that only shows for a boundary value, a wrap-around, an aliasing argument, a particular state/sequence, or a '
            'rarely used flag/overload. Ideas that were ALREADY used by others for this property (do something different, '
            'preferably in a different function): ' + ' || '.join(used))
    tag = 'c%02d%s' % (n, suf)
    subprocess.run(['sh', V + '/tools/mkmut.sh', tag, pid, hint], check=True, stdout=subprocess.DEVNULL)
    tags.append(tag)
t = open(V + '/tools/batch.tmpl').read()
for b in range(4):
    part = tags[5 * b:5 * b + 5]
    open('/tmp/mut/s%s%d.batch' % (suf, b + 1), 'w').write(
        t.replace('{N}', str(len(part))).replace('{LIST}', '\n'.join('/tmp/mut/%s.prompt' % x for x in part) + '\n'))
print(' '.join(tags))
