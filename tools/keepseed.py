#!/usr/bin/env python3
"""usage: keepseed.py <tag> <seed-id> "<checks that caught it / notes>"
Confirms a sub-agent's seeded change in its worktree /tmp/mut/<tag> (library
tests pass with it, demo fails with it and passes without), stores it under
/verif/seeded/<seed-id>/ and removes the worktree."""
import json, os, shutil, subprocess, sys
tag, sid, note = sys.argv[1], sys.argv[2], sys.argv[3]
wt = '/tmp/mut/%s' % tag
out = '/tmp/mut/%s-out' % tag
meta = json.load(open(out + '/meta.json'))
import re
meta['build_cmd'] = re.sub(r'&&\s*(\./|/tmp/mut/\S*/)demo\s*$', '', meta['build_cmd'])
def sh(c, cwd=None):
    r = subprocess.run(c, shell=True, cwd=cwd, capture_output=True, text=True, errors='replace')
    return r.returncode, (r.stdout + r.stderr)[-600:]
res = {}
rc, o = sh('cmake --build _build 2>&1 | tail -1 && ./_build/igris_test | tail -2', wt)
res['suite_with_change'] = o.strip().splitlines()[-1] if o.strip() else str(rc)
rc, o = sh(meta['build_cmd'])
if rc != 0:
    print('demo build failed', o); sys.exit(1)
demo = None
for cand in ('demo',):
    if os.path.exists(out + '/' + cand): demo = out + '/' + cand
rc1, o1 = sh(demo)
res['demo_with_change'] = 'exit %d: %s' % (rc1, o1.strip()[-200:])
sh('git diff > /tmp/keepseed.%d.diff && git apply -R /tmp/keepseed.%d.diff' % (os.getpid(), os.getpid()), wt)
rc, o = sh(meta['build_cmd'])
rc0, o0 = sh(demo)
res['demo_without_change'] = 'exit %d: %s' % (rc0, o0.strip()[-200:])
sh('git apply /tmp/keepseed.%d.diff; rm -f /tmp/keepseed.%d.diff' % (os.getpid(), os.getpid()), wt)
print(json.dumps(res, indent=1))
if not ('SUCCESS' in res['suite_with_change'] and rc1 != 0 and rc0 == 0):
    print('NOT CONFIRMED'); sys.exit(1)
dst = '/verif/seeded/%s' % sid
os.makedirs(dst, exist_ok=True)
for f in os.listdir(out):
    if f.endswith(('.diff', '.c', '.cpp', '.h', '.sh')):
        shutil.copy(out + '/' + f, dst)
meta['confirmed'] = res
meta['detected_by'] = note
json.dump(meta, open(dst + '/meta.json', 'w'), indent=1)
sh('git -C /repo worktree remove --force %s' % wt)
shutil.rmtree(out, ignore_errors=True)
print('kept as', dst)
