#!/usr/bin/env python3
"""mutation / rewrite harness of c05_streams: applies each textual change to the private worktree, runs the developer driver,
reverts.  usage: mutations.py [mut|ref] [name-substring]"""
import os
import subprocess
import sys

WT = '/tmp/dev/c05_streams'
DRV = '/tmp/dev/c05_streams_drv.py'
CPP = 'igris/protocols/gstuff.cpp'
HDR = 'igris/protocols/gstuff.h'
DEC1 = 'igris/protocols/gstuff_v1/autorecv.c'
SLINE = 'igris/datastruct/sline.h'

# (name, mutated function, file, old, new)
MUTATIONS = [
    ('idle-state-after-init-is-in-frame', 'newchar', CPP,
     '        reset();\n        state = 4;', '        reset();\n        state = 1;'),
    ('restart-without-reset', 'newchar', CPP,
     '                //Приняли стартовый символ. Реинициализация.\n                reset();\n                goto __force_restart__;',
     '                goto __force_restart__;'),
    ('overflow-returns-directly', 'newchar', CPP,
     '        sts = GSTUFF_OVERFLOW;\n        state = 0;\n        goto __finish__;', '        return GSTUFF_OVERFLOW;'),
    ('stuffing-error-returns-directly', 'newchar', CPP,
     '            sts = GSTUFF_STUFFING_ERROR;\n            goto __finish__;', '            return GSTUFF_STUFFING_ERROR;'),
    ('same-marker-empty-line-test-dropped', 'newchar', CPP,
     '            if (sline_empty(&line))\n                goto __continue__;', ''),
    ('restart-after-stub-compare-dropped', 'newchar', CPP,
     '        else if (c == ctx.GSTUFF_START) \n        {\n            reset();', '        else if (ctx.GSTUFF_START) \n        {\n            reset();'),
    ('crc-not-checked', 'newchar', CPP, '    if (crc != 0)\n    {\n        //Принят', '    if (0)\n    {\n        //Принят'),
    ('garbage-status-is-continue', 'newchar', CPP, '__garbage__:\n    return GSTUFF_GARBAGE;', '__garbage__:\n    return GSTUFF_CONTINUE;'),
    ('restart-status-is-continue', 'newchar', CPP, '    state = 1;\n    return GSTUFF_FORCE_RESTART;', '    state = 1;\n    return GSTUFF_CONTINUE;'),
    ('crc-not-stripped', 'newchar', CPP, '        sline_backspace(&line, 1);', '        sline_backspace(&line, 0);'),
    ('escape-in-idle-state', 'newchar', CPP,
     '        else \n        {\n            goto __garbage__;\n        }',
     '        else if (c == ctx.GSTUFF_STUB)\n        {\n            state = 2;\n            goto __garbage__;\n        }\n        else\n        {\n            goto __garbage__;\n        }'),
    ('restart-after-stub-without-reset', 'newchar', CPP,
     '        else if (c == ctx.GSTUFF_START) \n        {\n            reset();\n            goto __force_restart__;',
     '        else if (c == ctx.GSTUFF_START) \n        {\n            goto __force_restart__;'),
    ('stop-code-restores-start', 'newchar', CPP, '            c = ctx.GSTUFF_STOP;', '            c = ctx.GSTUFF_START;'),
    ('finish-keeps-state', 'newchar', CPP, '__finish__:\n    state = 0;\n    return sts;', '__finish__:\n    return sts;'),
    ('init-stale-state', 'init', CPP, '    this->state = 0;\n    sline_init', '    this->state = 1;\n    sline_init'),
    ('init-capacity-minus-one', 'init', CPP, 'sline_init(&this->line, (char *)buf, len);', 'sline_init(&this->line, (char *)buf, len - 1);'),
    ('reset-seed', 'reset', CPP, '    this->crc = 0xff;\n    sline_reset(&this->line);', '    this->crc = 0x00;\n    sline_reset(&this->line);'),
    ('reset-keeps-line', 'reset', CPP, '    this->crc = 0xff;\n    sline_reset(&this->line);', '    this->crc = 0xff;'),
    ('putchar-bound-off-by-one', 'sline_putchar', SLINE, '    if (sl->len >= sl->cap - 1)\n        return 0;\n\n    if (sl->cursor != sl->len)\n    {\n        memmove(sl->buf + sl->cursor + 1,',
     '    if (sl->len >= sl->cap)\n        return 0;\n\n    if (sl->cursor != sl->len)\n    {\n        memmove(sl->buf + sl->cursor + 1,'),
    ('putchar-bound-too-strict', 'sline_putchar', SLINE, '    if (sl->len >= sl->cap - 1)\n        return 0;\n\n    if (sl->cursor != sl->len)\n    {\n        memmove(sl->buf + sl->cursor + 1,',
     '    if (sl->len >= sl->cap - 2)\n        return 0;\n\n    if (sl->cursor != sl->len)\n    {\n        memmove(sl->buf + sl->cursor + 1,'),
    ('legacy-empty-test-dropped', 'gstuff_autorecv_newchar_v1', DEC1,
     '            if (sline_empty(\n                    &autom->line)) //< Повторный стартовый. Ничего не делаем.\n                goto __continue__;\n', ''),
    ('legacy-crc-test-inverted', 'gstuff_autorecv_newchar_v1', DEC1, '            if (autom->crc != 0)', '            if (autom->crc == 0)'),
    ('legacy-stub-code-restores-start', 'gstuff_autorecv_newchar_v1', DEC1, '            c = GSTUFF_STUB_V1;', '            c = GSTUFF_START_V1;'),
    ('legacy-overflow-continues', 'gstuff_autorecv_newchar_v1', DEC1, '        sts = GSTUFF_OVERFLOW_V1;\n        goto __finish__;', '        goto __continue__;'),
    ('legacy-invalid-escape-stored', 'gstuff_autorecv_newchar_v1', DEC1,
     '            sts = GSTUFF_DATA_ERROR_V1;\n            goto __finish__;\n        }\n\n        goto __putchar__;', '            break;\n        }\n\n        goto __putchar__;'),
    ('legacy-finish-stays-in-frame', 'gstuff_autorecv_newchar_v1', DEC1, '__finish__:\n    autom->state = 0;', '__finish__:\n    autom->state = 1;'),
    ('legacy-idle-does-not-reset', 'gstuff_autorecv_newchar_v1', DEC1,
     '    case 0:\n        gstuff_autorecv_reset_v1(autom);\n', '    case 0:\n'),
    ('legacy-reset-seed', 'gstuff_autorecv_reset_v1', DEC1, '    autom->crc = 0xff;', '    autom->crc = 0xfe;'),
    ('legacy-data-error-status', 'gstuff_autorecv_newchar_v1', DEC1, '            sts = GSTUFF_DATA_ERROR_V1;', '            sts = GSTUFF_CRC_ERROR_V1;'),
]

# behaviour-preserving rewrites: (name, file, old, new, [old, new ...])
REWRITES = [
    ('recv-escape-switch-to-lookup', CPP,
     '''        if (c == ctx.GSTUFF_STUB_START)
        {
            c = ctx.GSTUFF_START;
        }
        else if (c == ctx.GSTUFF_STUB_STOP)
        {
            c = ctx.GSTUFF_STOP;
        }
        else if (c == ctx.GSTUFF_STUB_STUB)
        {
            c = ctx.GSTUFF_STUB;
        }
        else if (c == ctx.GSTUFF_START) ''',
     '''        if (c == ctx.GSTUFF_STUB_START || c == ctx.GSTUFF_STUB_STOP || c == ctx.GSTUFF_STUB_STUB)
        {
            const char from[3] = {ctx.GSTUFF_STUB_START, ctx.GSTUFF_STUB_STOP, ctx.GSTUFF_STUB_STUB};
            const char to[3] = {ctx.GSTUFF_START, ctx.GSTUFF_STOP, ctx.GSTUFF_STUB};
            for (int k = 0; k < 3; k++)
                if (from[k] == c)
                {
                    c = to[k];
                    break;
                }
        }
        else if (c == ctx.GSTUFF_START) '''),
    ('recv-stop-handler-inline-returns', CPP,
     '''__stop_handler__:
    if (crc != 0)
    {
        //Принят символ окончания пакета, но crc не пройден.
        sts = GSTUFF_CRC_ERROR;
        goto __finish__;
    }

    else
    {
        //Корректный приём пакета. Удаляем crc символ
        sline_backspace(&line, 1);
        sts = GSTUFF_NEWPACKAGE;
        goto __finish__;
    }
''',
     '''__stop_handler__:
    state = 0;
    if (!crc)
    {
        line.len -= 1;
        line.cursor -= 1;
        return GSTUFF_NEWPACKAGE;
    }
    return GSTUFF_CRC_ERROR;
'''),
    ('recv-idle-state-merged-by-loop', CPP,
     '''    case 0:
        reset();
        state = 4;
        //__attribute__((fallthrough));
        goto __start__;

    case 4:
        if (c == ctx.GSTUFF_START) ''',
     '''    case 0:
        reset();
        state = 4;
        /* fall through */
    case 4:
        if (!(c != ctx.GSTUFF_START)) '''),
    ('recv-helper-for-putchar', CPP,
     '''__putchar__:
    if (!sline_putchar(&line, c))
    {
        sts = GSTUFF_OVERFLOW;
        state = 0;
        goto __finish__;
    }

    igris_strmcrc8(&crc, c);
    state = 1;
''',
     '''__putchar__:
    {
        struct sline *l = &line;
        int stored = 0;
        if (l->len + 1 < l->cap)
        {
            stored = sline_putchar(l, c);
        }
        if (stored == 0)
        {
            state = 0;
            return GSTUFF_OVERFLOW;
        }
    }
    state = 1;
    igris_strmcrc8(&crc, c);
'''),
    ('legacy-recv-if-chain', DEC1,
     '''        switch (c)
        {
        case GSTUFF_STUB_START_V1:
            c = GSTUFF_START_V1;
            break;
        case GSTUFF_STUB_STUB_V1:
            c = GSTUFF_STUB_V1;
            break;
        default:
            // Невалидный пакет.
            sts = GSTUFF_DATA_ERROR_V1;
            goto __finish__;
        }
''',
     '''        if (c != GSTUFF_STUB_START_V1 && c != GSTUFF_STUB_STUB_V1)
        {
            sts = GSTUFF_DATA_ERROR_V1;
            goto __finish__;
        }
        c = (c == GSTUFF_STUB_START_V1) ? GSTUFF_START_V1 : GSTUFF_STUB_V1;
'''),
    ('recv-unsigned-compares', CPP,
     '''        if (c == ctx.GSTUFF_STOP)
        {
            // Срабатывает на стоп байт (может быть равен стартовому).
            goto __stop_handler__;
        }

        else if (c == ctx.GSTUFF_STUB) ''',
     '''        if ((uint8_t)c == (uint8_t)ctx.GSTUFF_STOP)
        {
            goto __stop_handler__;
        }

        else if ((unsigned)(uint8_t)c == (unsigned)(uint8_t)ctx.GSTUFF_STUB) '''),
    ('legacy-recv-unsigned-switch', DEC1,
     '''        switch (c)
        {
        case GSTUFF_START_V1:
            //Приняли стартовый символ.''',
     '''        switch ((unsigned char)c)
        {
        case (unsigned char)GSTUFF_START_V1:
            //Приняли стартовый символ.''',
     '''        case GSTUFF_STUB_V1:
            //Принят STUFF ждем вторй байт.''',
     '''        case (unsigned char)GSTUFF_STUB_V1:
            //Принят STUFF ждем вторй байт.'''),
    ('legacy-recv-state-machine-as-ifs', DEC1,
     '''    case 0:
        gstuff_autorecv_reset_v1(autom);

        // goto state 1 imediatly;
        autom->state = 1;
        IGRIS_FALLTHROUGH
''',
     '''    case 0:
        autom->crc = 0xff;
        autom->line.len = 0;
        autom->line.cursor = 0;
        autom->state = 1;
        IGRIS_FALLTHROUGH
'''),
    ('sline-putchar-index-form', SLINE,
     '''    sl->buf[sl->cursor++] = c;
    sl->len++;

    return 1;''',
     '''    unsigned int at = sl->cursor;
    *(sl->buf + at) = c;
    sl->cursor = at + 1;
    sl->len = sl->len + 1;

    return 1;'''),
    ('status-codes-renumbered', HDR,
     '#define GSTUFF_FORCE_RESTART 2\n#define GSTUFF_GARBAGE 3', '#define GSTUFF_FORCE_RESTART 12\n#define GSTUFF_GARBAGE 13',
     '#define GSTUFF_CRC_ERROR -1\n#define GSTUFF_OVERFLOW -2', '#define GSTUFF_CRC_ERROR -11\n#define GSTUFF_OVERFLOW -12'),

    ('recv-stop-handler-in-static-helper', CPP,
     '''int gstuff_autorecv::newchar(char c)
{''',
     '''static int gstuff_close_frame(struct sline *l, uint8_t residue)
{
    if (residue)
        return GSTUFF_CRC_ERROR;
    sline_backspace(l, 1);
    return GSTUFF_NEWPACKAGE;
}

int gstuff_autorecv::newchar(char c)
{''',
     '''__stop_handler__:
    if (crc != 0)
    {
        //Принят символ окончания пакета, но crc не пройден.
        sts = GSTUFF_CRC_ERROR;
        goto __finish__;
    }

    else
    {
        //Корректный приём пакета. Удаляем crc символ
        sline_backspace(&line, 1);
        sts = GSTUFF_NEWPACKAGE;
        goto __finish__;
    }
''',
     '''__stop_handler__:
    sts = gstuff_close_frame(&line, crc);
    goto __finish__;
'''),
    ('recv-reset-clears-the-buffer', CPP,
     '''    this->crc = 0xff;
    sline_reset(&this->line);''',
     '''    this->crc = 0xff;
    for (unsigned int k = 0; k < this->line.cap; ++k)
        this->line.buf[k] = 0;
    sline_reset(&this->line);'''),
    ('legacy-recv-crc-test-demorgan', DEC1,
     '''            if (autom->crc != 0)
            {
                //Принят символ окончания пакета, но crc не пройден.
                sts = GSTUFF_CRC_ERROR_V1;
                goto __finish__;
            }

            else
            {
                //Корректный приём пакета.
                sts = GSTUFF_NEWPACKAGE_V1;
                goto __finish__;
            }''',
     '''            sts = !(autom->crc == 0) ? GSTUFF_CRC_ERROR_V1 : GSTUFF_NEWPACKAGE_V1;
            goto __finish__;'''),
]


def run():
    r = subprocess.run(['python3', DRV, '--repo', WT], capture_output=True, text=True, cwd='/verif/checks')
    return r.returncode, r.stdout + r.stderr


def apply(path, old, new):
    p = os.path.join(WT, path)
    strip = lambda t: '\n'.join(l.rstrip() for l in t.split('\n'))
    s = strip(open(p, encoding='utf-8').read())
    old, new = strip(old), new
    if s.count(old) != 1:
        return False
    open(p, 'w', encoding='utf-8').write(s.replace(old, new))
    return True


def revert():
    subprocess.run(['git', '-C', WT, 'checkout', '--', '.'], check=True)


def main():
    mode = sys.argv[1] if len(sys.argv) > 1 else 'mut'
    sub = sys.argv[2] if len(sys.argv) > 2 else ''
    if mode == 'mut':
        for (name, fn, path, old, new) in MUTATIONS:
            if sub not in name:
                continue
            if not apply(path, old, new):
                print('%-40s PATTERN NOT FOUND' % name)
                continue
            try:
                rc, out = run()
            finally:
                revert()
            lines = [l for l in out.split('\n') if RULEP in l and ' in ' in l and not l.startswith('VIOLATION') and not l.startswith('KNOWN')]
            named = any(fn in l for l in lines)
            print('%-40s %-28s exit %d, %d violation line(s), names %s: %s' % (name, fn, rc, len(lines), fn, 'yes' if named else 'NO'))
            for l in [l for l in lines if fn in l][:1] or lines[:1]:
                print('      ' + l[:520])
            for l in out.split('\n'):
                if l.startswith('NOTE') or l.startswith('ANALYSIS-BROKEN') or 'Traceback' in l or 'Error' in l:
                    print('      ' + l[:300])
    else:
        for (name, path, *pairs) in REWRITES:
            if sub not in name:
                continue
            if not all(apply(path, pairs[k], pairs[k + 1]) for k in range(0, len(pairs), 2)):
                print('%-40s PATTERN NOT FOUND' % name)
                revert()
                continue
            try:
                rc, out = run()
            finally:
                revert()
            print('%-40s exit %d %s' % (name, rc, 'silent' if rc == 0 else ''))
            if rc != 0:
                print('\n'.join('      ' + l[:600] for l in out.split('\n')[-12:]))


RULEP = 'R-STREAM'
if __name__ == '__main__':
    main()
