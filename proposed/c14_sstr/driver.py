#!/usr/bin/env python3
import sys, os, time
os.environ.setdefault('VERIF_EVIDENCE_DIR', '/tmp/dev/c14_sstr_ev')
sys.path.insert(0, '/verif/checks')
from irlib import AnalysisBroken
from report import Report
import c14_sstr
import argparse
ap = argparse.ArgumentParser()
ap.add_argument('--repo', default='/tmp/dev/c14_sstr')
ap.add_argument('--only', default=None)
ap.add_argument('--caps', default=None)
ap.add_argument('-v', action='store_true')
ap.add_argument('--tier', default='quick')
a = ap.parse_args()
rep = Report('C14', a.tier, a.repo)
t0 = time.time()
try:
    bk = c14_sstr.run_ext(rep, a.repo, a.tier, only=a.only.split(',') if a.only else None,
                          caps=[int(x) for x in a.caps.split(',')] if a.caps else None)
except AnalysisBroken as e:
    print('ANALYSIS-BROKEN', e); sys.exit(2)
if a.v:
    for i in rep.instances:
        print(('ok   ' if i['ok'] else 'FAIL ') + '%s|%s|%s %s %s' % (i['rule'], i['function'], i['key'], i['fact'], '' if i['ok'] else i['detail']))
else:
    for i in rep.instances:
        if not i['ok']:
            print('FAIL %s|%s|%s %s' % (i['rule'], i['function'], i['key'], i['detail']))
rc = rep.finish()
print('instances %d failing %d rc %d time %.1fs scenarios %s' % (len(rep.instances), sum(1 for i in rep.instances if not i['ok']), rc, time.time() - t0, rep.extra.get('c14_sstr')))
sys.exit(rc)
