#!/usr/bin/env python3
"""hand-made mutations of the anchored code: apply in the worktree (on top of the fixes), run the extension, restore.
usage: mutations.py [name-substring]     (worktree /tmp/dev/c14_sstr, driver /tmp/dev/c14_sstr_drv.py)"""
import subprocess, sys, os, json
WT = '/tmp/dev/c14_sstr'
FIXES = '/tmp/dev/c14_sstr_fixes.diff'
DRV = '/tmp/dev/c14_sstr_drv.py'
SS = 'igris/container/static_string.h'
SV = 'igris/container/static_vector.h'
SP = 'igris/container/std_portable.h'
# the twin classes are the last definitions of std_portable.h: replacements there are anchored on the text behind `after`
M = [
 ('ss-push_back-guard-gt', SS, None, 'if (m_size >= N)\n                return;\n\n            data[m_size++] = c;', 'if (m_size > N)\n                return;\n\n            data[m_size++] = c;', 'static_string<N>::push_back'),
 ('ss-ctor-copies-N', SS, None, 'memcpy(data, dat, m_size);', 'memcpy(data, dat, N);', 'static_string<N>::static_string(char const*)'),
 ('ss-ctor-skips-first-char', SS, None, 'memcpy(data, dat, m_size);', 'memcpy(data, dat + 1, m_size);', 'static_string<N>::static_string(char const*)'),
 ('ss-c_str-terminator-on-last-char', SS, None, 'data[m_size] = 0;', 'data[m_size ? m_size - 1 : 0] = 0;', 'static_string<N>::c_str'),
 ('ss-c_str-terminator-at-N', SS, None, 'data[m_size] = 0;', 'data[N] = 0;', 'static_string<N>::c_str'),
 ('ss-end-is-storage-end', SS, None, 'return &data[m_size];', 'return &data[N];', 'static_string<N>::end'),
 ('ss-room-off-by-one', SS, None, 'return N - m_size;', 'return N + 1 - m_size;', 'static_string<N>::room'),
 ('ss-index-plus-one', SS, None, 'char &operator[](std::size_t pos)\n        {\n            return data[pos];', 'char &operator[](std::size_t pos)\n        {\n            return data[pos + 1];', 'static_string<N>::operator[]'),
 ('ss-size-returns-capacity', SS, None, 'return m_size;\n        }\n\n        // Delete', 'return N;\n        }\n\n        // Delete', 'static_string<N>::size'),
 ('ss-storage-without-terminator-slot', SS, None, 'mutable char data[N + 1];', 'mutable char data[N];', 'static_string<N>::c_str'),
 ('tw-ctor-len-wrong-comparison', SP, 'template <igris::size_t N> class static_string', 'm_size = sz > N ? N : sz;', 'm_size = sz < N ? N : sz;', 'static_string<N>::static_string(char const*, unsigned long)'),
 ('tw-ctor-len-copies-sz', SP, 'template <igris::size_t N> class static_string', 'memcpy(_data, dat, m_size);\n        }\n\n        char *data()', 'memcpy(_data, dat, sz);\n        }\n\n        char *data()', 'static_string<N>::static_string(char const*, unsigned long)'),
 ('tw-find-starts-behind-pos', SP, 'template <igris::size_t N> class static_string', 'for (size_t i = pos; i <= m_size - len; i++)', 'for (size_t i = pos + 1; i <= m_size - len; i++)', 'static_string<N>::find'),
 ('tw-find-drops-length-guard', SP, 'template <igris::size_t N> class static_string', '            if (len > m_size)\n                return -1;\n', '', 'static_string<N>::find'),
 ('tw-find-returns-last-match', SP, 'template <igris::size_t N> class static_string', '            for (size_t i = pos; i <= m_size - len; i++)\n            {\n                if (memcmp(_data + i, str, len) == 0)\n                    return i;\n            }\n            return -1;', '            int found = -1;\n            for (size_t i = pos; i <= m_size - len; i++)\n            {\n                if (memcmp(_data + i, str, len) == 0)\n                    found = i;\n            }\n            return found;', 'static_string<N>::find'),
 ('tw-split-token-one-short', SP, 'template <igris::size_t N> class static_string', 'outvec.emplace_back(strt, ptr - strt);', 'outvec.emplace_back(strt, ptr - strt - 1);', 'static_string<N>::split'),
 ('tw-split-keeps-leading-delims', SP, 'template <igris::size_t N> class static_string', '                while (ptr != end && *ptr == delim)\n                    ptr++;\n\n                if (ptr == end)\n                    break;\n\n                strt = ptr;', '                if (ptr == end)\n                    break;\n\n                strt = ptr;\n                while (ptr != end && *ptr == delim)\n                    ptr++;', 'static_string<N>::split'),
 ('tw-clear-leaves-one', SP, 'template <igris::size_t N> class static_string', 'void clear()\n        {\n            m_size = 0;', 'void clear()\n        {\n            m_size = m_size ? 1 : 0;', 'static_string<N>::clear'),
 ('tw-plus-eq-stale-room-test', SP, 'template <igris::size_t N> class static_string', '            push_back(c);\n            return *this;', '            if (m_size + 1 < N)\n                push_back(c);\n            return *this;', 'static_string<N>::operator+='),
 ('tw-c_str-terminator-at-N', SP, 'template <igris::size_t N> class static_string', '_data[m_size] = 0;', '_data[N] = 0;', 'static_string<N>::c_str'),
 ('tw-push_back-overwrites-last', SP, 'template <igris::size_t N> class static_string', '            if (m_size >= N)\n                return;\n\n            _data[m_size++] = c;', '            if (m_size >= N)\n                m_size = N - 1;\n\n            _data[m_size++] = c;', 'static_string<N>::push_back'),
 ('sv-copy-ctor-reversed', SV, None, 'static_vector(const static_vector &other)\n        {\n            m_size = other.m_size;\n            for (std::size_t pos = 0; pos < m_size; ++pos)\n            {\n                new (&_data[pos]) T(other[pos]);', 'static_vector(const static_vector &other)\n        {\n            m_size = other.m_size;\n            for (std::size_t pos = 0; pos < m_size; ++pos)\n            {\n                new (&_data[pos]) T(other[m_size - 1 - pos]);', 'static_vector<int, N>::static_vector(igris::static_vector<int, N> const&)'),
 ('sv-erase-shifts-one-too-far', SV, None, 'iterator newend = std::move(last, end(), first);', 'iterator newend = std::move(last, end(), first + 1) - 1;', 'static_vector<int, N>::erase'),
 ('sv-erase-size-stale', SV, None, 'm_size -= sz;', 'm_size -= 1;', 'static_vector<int, N>::erase'),
 ('sv-resize-skips-first-new', SV, None, 'for (size_t i = m_size; i < newsize; ++i)\n            {\n                new (&_data[i]) T{};', 'for (size_t i = m_size + 1; i < newsize; ++i)\n            {\n                new (&_data[i]) T{};', 'static_vector<int, N>::resize'),
 ('sv-push_back-guard-gt', SV, None, 'void push_back(const T &obj)\n        {\n            if (m_size >= N)', 'void push_back(const T &obj)\n        {\n            if (m_size > N)', 'static_vector<int, N>::push_back'),
 ('sv-range-ctor-skips-first', SV, None, 'for (; b != e; ++b)\n            {\n                push_back(*b);', 'for (b != e ? ++b : b; b != e; ++b)\n            {\n                push_back(*b);', 'static_vector<int, N>::static_vector<int const*>'),
 ('sv-move-assign-copies-first', SV, None, 'clear();\n            m_size = other.m_size;\n            for (std::size_t pos = 0; pos < m_size; ++pos)\n            {\n                new (&_data[pos]) T(std::move(other[pos]));', 'clear();\n            m_size = other.m_size;\n            for (std::size_t pos = 0; pos < m_size; ++pos)\n            {\n                new (&_data[pos]) T(std::move(other[0]));', 'static_vector<int, N>::operator=(igris::static_vector<int, N>&&)'),
 ('sv-ilist-stops-one-early', SV, None, 'for (auto &obj : lst)\n            {\n                if (m_size >= N)', 'for (auto &obj : lst)\n            {\n                if (m_size + 1 >= N)', 'static_vector<int, N>::static_vector(std::initializer_list'),
 ('sv-back-is-end', SV, None, 'T &back()\n        {\n            return *reinterpret_cast<T *>(&_data[m_size - 1]);', 'T &back()\n        {\n            return *reinterpret_cast<T *>(&_data[m_size]);', 'static_vector<int, N>::back()'),
 ('sv-emplace-ignores-argument', SV, None, 'new (&_data[m_size]) T(std::forward<Args>(args)...);', 'new (&_data[m_size]) T();', 'static_vector<int, N>::emplace_back<int'),
 ('twv-emplace-forgets-size', SP, 'template <class T, igris::size_t N> class static_vector', 'new (&_data[m_size]) T(igris::forward<Args>(args)...);\n            ++m_size;', 'new (&_data[m_size]) T(igris::forward<Args>(args)...);', 'static_vector<int, N>::emplace_back'),
 ('twv-copy-assign-keeps-old-size', SP, 'template <class T, igris::size_t N> class static_vector', 'clear();\n            m_size = other.m_size;\n            for (igris::size_t pos = 0; pos < m_size; ++pos)\n            {\n                new (&_data[pos]) T(other[pos]);', 'igris::size_t old = m_size;\n            clear();\n            m_size = other.m_size > old ? other.m_size : old;\n            for (igris::size_t pos = 0; pos < other.m_size; ++pos)\n            {\n                new (&_data[pos]) T(other[pos]);', 'static_vector<int, N>::operator=(igris::static_vector<int, N> const&)'),
 ('twv-resize-clamp-wrong-constant', SP, 'template <class T, igris::size_t N> class static_vector', 'if (newsize >= N)\n                newsize = N;', 'if (newsize >= N)\n                newsize = N - 1;', 'static_vector<int, N>::resize'),
]


def sh(cmd, **kw):
    return subprocess.run(cmd, shell=True, capture_output=True, text=True, **kw)


def restore():
    sh('git -C %s checkout -- . && git -C %s apply %s' % (WT, WT, FIXES))


def main():
    sel = sys.argv[1] if len(sys.argv) > 1 else ''
    results = []
    for (name, path, after, old, new, fn) in M:
        if sel not in name:
            continue
        restore()
        p = os.path.join(WT, path)
        s = open(p).read()
        k0 = s.index(after) if after else 0
        k = s.find(old, k0)
        if k < 0:
            print('%-38s PATTERN NOT FOUND' % name)
            results.append((name, 'pattern-not-found', ''))
            continue
        s = s[:k] + new + s[k + len(old):]
        open(p, 'w').write(s)
        r = sh('python3 %s --repo %s' % (DRV, WT))
        fails = [l for l in r.stdout.splitlines() if l.startswith('FAIL ')]
        named = [l for l in fails if fn in l]
        broken = [l for l in r.stdout.splitlines() if 'ANALYSIS-BROKEN' in l or l.startswith('NOTE')]
        rc = r.returncode
        verdict = 'detected' if rc == 1 and named else ('exit %d, function not named' % rc if rc == 1 else 'exit %d' % rc)
        first = (named or fails or broken or [''])[0]
        print('%-38s %-28s %s' % (name, verdict, first[:230]))
        results.append((name, verdict, first[:300]))
    restore()
    json.dump(results, open('/tmp/dev/c14_sstr_mut_results.json', 'w'), indent=1)


if __name__ == '__main__':
    main()
