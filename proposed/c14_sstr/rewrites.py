#!/usr/bin/env python3
"""behaviour-preserving rewrites of the anchored code: apply in the worktree (on top of the fixes), the extension must stay
silent (exit 0).  usage: rewrites.py [name-substring]"""
import subprocess, sys, os, json
WT = '/tmp/dev/c14_sstr'
FIXES = '/tmp/dev/c14_sstr_fixes.diff'
DRV = '/tmp/dev/c14_sstr_drv.py'
SS = 'igris/container/static_string.h'
SV = 'igris/container/static_vector.h'
SP = 'igris/container/std_portable.h'
TWS = 'template <igris::size_t N> class static_string'
TWV = 'template <class T, igris::size_t N> class static_vector'
R = [
 ('r01-ss-ctor-pointer-walk', [(SS, None, '''            m_size = strlen(dat);
            if (m_size > N)
                m_size = N;
            memcpy(data, dat, m_size);''', '''            while (*dat != '\\0' && m_size < N)
                data[m_size++] = *dat++;''')]),
 ('r02-ss-push_back-helper-demorgan', [(SS, None, '''            if (m_size >= N)
                return;

            data[m_size++] = c;
        }''', '''            if (!(m_size < N))
                return;
            put_unchecked(c);
        }

        void put_unchecked(char c)
        {
            char *p = data + m_size;
            *p = c;
            m_size = m_size + 1;
        }''')]),
 ('r03-ss-c_str-pointer-form', [(SS, None, '''            data[m_size] = 0;
            return data;''', '''            char *p = data;
            p += m_size;
            *p = '\\0';
            return &data[0];''')]),
 ('r04-ss-observers-through-helper-and-renamed-storage', [(SS, None, 'return N - m_size;', 'return N - length();'),
     (SS, None, '''        std::size_t size()
        {
            return m_size;
        }''', '''        std::size_t size()
        {
            return length();
        }
        std::size_t length() const
        {
            return m_size;
        }'''), (SS, None, 'return &data[m_size];', 'return begin() + length();')]),
 ('r05-tw-ctor-len-index-loop', [(SP, TWS, '''            m_size = sz > N ? N : sz;
            memcpy(_data, dat, m_size);''', '''            size_t n = sz;
            if (N < n)
                n = N;
            for (size_t i = 0; i != n; ++i)
                _data[i] = dat[i];
            m_size = n;''')]),
 ('r06-tw-find-manual-compare', [(SP, TWS, '''            if (pos >= m_size)
                return -1;
            auto len = strlen(str);
            if (len == 0)
                return -1;
            if (len > m_size)
                return -1;
            for (size_t i = pos; i <= m_size - len; i++)
            {
                if (memcmp(_data + i, str, len) == 0)
                    return i;
            }
            return -1;''', '''            size_t len = 0;
            while (str[len])
                ++len;
            if (len == 0 || pos >= m_size || len > m_size)
                return -1;
            for (size_t i = pos; i + len <= m_size; ++i)
            {
                size_t j = 0;
                while (j < len && _data[i + j] == str[j])
                    ++j;
                if (j == len)
                    return (int)i;
            }
            return -1;''')]),
 ('r07-tw-split-index-walk', [(SP, TWS, '''            char *strt;
            char *ptr = (char *)_data;
            char *end = (char *)_data + size();

            while (true)
            {
                while (ptr != end && *ptr == delim)
                    ptr++;

                if (ptr == end)
                    break;

                strt = ptr;

                while (ptr != end && *ptr != delim)
                    ptr++;

                outvec.emplace_back(strt, ptr - strt);
            }''', '''            size_t i = 0;
            const size_t n = size();
            while (i < n)
            {
                if (_data[i] == delim)
                {
                    ++i;
                    continue;
                }
                size_t start = i;
                while (i < n && _data[i] != delim)
                    ++i;
                char *tok = (char *)_data + start;
                outvec.emplace_back(tok, (long)(i - start));
            }''')]),
 ('r08-tw-plus-eq-inline-and-clear-via-resize-idiom', [(SP, TWS, '''            push_back(c);
            return *this;''', '''            if (m_size < N)
            {
                _data[m_size] = c;
                ++m_size;
            }
            return *this;''')]),
 ('r09-sv-copy-ctor-memcpy-for-trivial', [(SV, None, '''        static_vector(const static_vector &other)
        {
            m_size = other.m_size;
''', '''        static_vector(const static_vector &other)
        {
            m_size = other.m_size;
            if constexpr (std::is_trivially_copyable<T>::value)
            {
                memcpy(_data, other._data, m_size * sizeof(T));
                return;
            }
''')]),
 ('r10-sv-erase-index-loops', [(SV, None, '''            if (first == last)
                return;
            size_t sz = last - first;
            // the tail is shifted down by assignment onto live elements,
            // then the sz elements left over at the end are destroyed
            iterator newend = std::move(last, end(), first);
            igris::array_destructor(newend, end());
            m_size -= sz;''', '''            size_t a = first - begin();
            size_t b = last - begin();
            size_t sz = b - a;
            if (sz == 0)
                return;
            for (size_t i = b; i < m_size; ++i)
                (*this)[i - sz] = std::move((*this)[i]);
            for (size_t i = m_size - sz; i < m_size; ++i)
                reinterpret_cast<T *>(&_data[i])->~T();
            m_size -= sz;''')]),
 ('r11-sv-copy-assign-through-temporary', [(SV, None, '''        static_vector &operator=(const static_vector &other)
        {
            if (this == &other)
                return *this;
            clear();
            m_size = other.m_size;
            for (std::size_t pos = 0; pos < m_size; ++pos)
            {
                new (&_data[pos]) T(other[pos]);
            }
            return *this;''', '''        static_vector &operator=(const static_vector &other)
        {
            if (this == &other)
                return *this;
            static_vector tmp(other);
            *this = std::move(tmp);
            return *this;''')]),
 ('r12-sv-resize-min-and-while', [(SV, None, '''            if (newsize >= N)
                newsize = N;

            for (size_t i = m_size; i < newsize; ++i)
            {
                new (&_data[i]) T{};
            }

            for (size_t i = newsize; i < m_size; ++i)
            {
                reinterpret_cast<T *>(&_data[i])->~T();
            }

            m_size = newsize;''', '''            const size_t target = std::min<size_t>(newsize, N);
            while (m_size < target)
            {
                new (&_data[m_size]) T{};
                ++m_size;
            }
            while (m_size > target)
            {
                --m_size;
                reinterpret_cast<T *>(&_data[m_size])->~T();
            }''')]),
 ('r13-sv-push_back-delegates-and-range-ctor-index', [(SV, None, '''        void push_back(const T &obj)
        {
            if (m_size >= N)
                return;
            new (&_data[m_size]) T(obj);
            ++m_size;
        }''', '''        void push_back(const T &obj)
        {
            emplace_back(obj);
        }'''), (SV, None, '''            for (; b != e; ++b)
            {
                push_back(*b);
            }''', '''            for (std::size_t k = 0; b + k != e; ++k)
            {
                if (m_size == N)
                    break;
                push_back(b[k]);
            }''')]),
 ('r14-twv-move-assign-counting-down', [(SP, TWV, '''            clear();
            m_size = other.m_size;
            for (igris::size_t pos = 0; pos < m_size; ++pos)
            {
                new (&_data[pos]) T(igris::move(other[pos]));
            }
            other.clear();''', '''            clear();
            m_size = other.m_size;
            for (igris::size_t pos = m_size; pos > 0; --pos)
            {
                new (&_data[pos - 1]) T(igris::move(other[pos - 1]));
            }
            other.clear();''')]),
 ('r15-ss-push_back-through-int', [(SS, None, 'data[m_size++] = c;', 'int wide = c;\n            data[m_size++] = static_cast<char>(wide);')]),
 ('r16-tw-push_back-masked-unsigned', [(SP, TWS, '_data[m_size++] = c;', 'unsigned char u = static_cast<unsigned char>(c);\n            _data[m_size++] = static_cast<char>(u & 0xffu);')]),
 ('r17-tw-split-compares-as-unsigned-char', [(SP, TWS, 'while (ptr != end && *ptr != delim)', 'while (ptr != end && static_cast<unsigned char>(*ptr) != static_cast<unsigned char>(delim))')]),
 ('r18-ss-ctor-memset-then-copy', [(SS, None, '            memcpy(data, dat, m_size);', '            memset(data, 0, sizeof(data));\n            memcpy(data, dat, m_size);')]),
 ('r19-sv-emplace-via-local-copy', [(SV, None, 'new (&_data[m_size]) T(obj);\n            ++m_size;', 'T tmp(obj);\n            new (&_data[m_size]) T(std::move(tmp));\n            ++m_size;')]),
]


def sh(cmd, **kw):
    return subprocess.run(cmd, shell=True, capture_output=True, text=True, **kw)


def restore():
    sh('git -C %s checkout -- . && git -C %s apply %s' % (WT, WT, FIXES))


def main():
    sel = sys.argv[1] if len(sys.argv) > 1 else ''
    results = []
    for (name, edits) in R:
        if sel not in name:
            continue
        restore()
        bad = False
        for (path, after, old, new) in edits:
            p = os.path.join(WT, path)
            s = open(p).read()
            k0 = s.index(after) if after else 0
            k = s.find(old, k0)
            if k < 0:
                bad = True
                break
            s = s[:k] + new + s[k + len(old):]
            open(p, 'w').write(s)
        if bad:
            print('%-55s PATTERN NOT FOUND' % name)
            continue
        if '--keep' in sys.argv:
            print('kept', name)
            return
        r = sh('python3 %s --repo %s' % (DRV, WT))
        lines = [l for l in r.stdout.splitlines() if l.startswith('FAIL ') or 'ANALYSIS-BROKEN' in l or l.startswith('NOTE')]
        print('%-55s exit %d %s' % (name, r.returncode, (lines or [''])[0][:260]))
        results.append((name, r.returncode, (lines or [''])[0][:300]))
    restore()
    json.dump(results, open('/tmp/dev/c14_sstr_rew_results.json', 'w'), indent=1)


if __name__ == '__main__':
    main()
