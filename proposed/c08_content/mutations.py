#!/usr/bin/env python3
"""mutation / rewrite harness for c08_content: apply the proposed fixes, then one change, run the driver, revert"""
import subprocess, sys, os, glob, json
WT = '/tmp/dev/c08_content'
D = WT + '/compat/libc/string/'

def sh(cmd):
    return subprocess.run(cmd, shell=True, capture_output=True, text=True)

def reset():
    sh('git -C %s checkout -- .' % WT)
    for p in sorted(glob.glob('/verif/proposed/c08_content/*.diff')):
        r = sh('git -C %s apply %s' % (WT, p))
        assert r.returncode == 0, r.stderr

MUTS = [
 # (name, file, old, new, function expected in a VIOLATION line)
 ('memcpy-word-loop-skips-a-word', 'memcpy.c', '\t\tfor (; n >= BLOCK_SZ; n -= BLOCK_SZ) {\n\t\t\t*aligned_dst++ = *aligned_src++;', '\t\tfor (; n >= BLOCK_SZ; n -= BLOCK_SZ) {\n\t\t\t*aligned_dst++ = *++aligned_src;', 'memcpy'),
 ('memcpy-tail-off-by-one', 'memcpy.c', '\twhile (n--) {\n\t\t*dst++ = *src++;', '\twhile (n-- > 1) {\n\t\t*dst++ = *src++;', 'memcpy'),
 ('memmove-backward-postdecrement', 'memmove.c', '*--dst = *--src;', '*dst-- = *src--;', 'memmove'),
 ('memmove-guard-le', 'memmove.c', 'dst < src + n)', 'dst <= src + n - 2)', 'memmove'),
 ('memset-stores-the-count', 'memset.c', '        *ptr++ = c;', '        *ptr++ = n;', 'memset'),
 ('memset-one-short', 'memset.c', 'while (n--)\n', 'while (n-- > 1)\n', 'memset'),
 ('strcpy-no-terminator', 'strcpy.c', 'while ((*cp++ = *src++))\n\t\t;', 'while (*src)\n\t\t*cp++ = *src++;', 'strcpy'),
 ('strncpy-no-padding', 'strncpy.c', "\twhile (n--) {\n\t\t*dst++ = '\\0';\n\t}\n", '', 'strncpy'),
 ('strncpy-terminates-always', 'strncpy.c', '\t\tif (!n--) {\n\t\t\treturn ret;', "\t\tif (!n--) {\n\t\t\tif (dst != ret) dst[-1] = '\\0';\n\t\t\treturn ret;", 'strncpy'),
 ('strlcpy-copies-size', 'strlcpy.c', 'while(n-- != 1)', 'while(n-- != 0)', 'strlcpy'),
 ('strlcpy-no-terminator-when-truncated', 'strlcpy.c', "\t*dst = '\\0';", "\tif (*s == '\\0') *dst = '\\0';", 'strlcpy'),
 ('strcat-overwrites-last-char', 'strcat.c', 's1 -= 2;', 's1 -= 3;', 'strcat'),
 ('strncat-n4-remainder', 'strncat.c', 'n &= 3;', 'n &= 1;', 'strncat'),
 ('strncat-no-terminator', 'strncat.c', "\tif (c != '\\0')\n\t\t*++s1 = '\\0';", '', 'strncat'),
 ('strdup-swapped-args', 'strdup.c', 'strcpy(ret, s);', 'strcpy(ret, s + (*s != 0));', 'strdup'),
 ('strndup-no-terminator', 'strndup.c', "\tret[len] = '\\0';", "\tif (len < size) ret[len] = '\\0';", 'strndup'),
 ('strlwr-skips-first', 'strlwr.c', 'for (cp = string; *cp; ++cp)', 'for (cp = string + (*string != 0); *cp; ++cp)', 'strlwr'),
 ('strupr-stale-state-stops-early', 'strupr.c', "if ('a' <= *cp && *cp <= 'z')\n\t\t\t*cp += 'A' - 'a';", "if ('a' <= *cp && *cp <= 'z')\n\t\t\t*cp += 'A' - 'a';\n\t\telse\n\t\t\tbreak;", 'strupr'),
 ('strtok-zero-always', 'strtok.c', "\tif (**saveptr != '\\0') { /* if string is not finished */\n\t\t**saveptr = 0;", "\t**saveptr = 0;\n\tif (str[0] != '\\0' && 0) {", 'strtok_r'),
 ('strtok-save-not-advanced', 'strtok.c', '\t\t(*saveptr)++;\n', '', 'strtok_r'),
 ('strtok-cspn-from-token-plus-one', 'strtok.c', '*saveptr = str + strcspn(str, delim);', '*saveptr = str + 1 + strcspn(str + (*str != 0), delim);', 'strtok_r'),
 ('memchr-signed-byte', 'memchr.c', 'unsigned char d = c;', 'char d = c;', 'memchr'),
 ('memchr-last-not-first', 'memchr.c', "\tunsigned char d = c;\n\n\twhile (n--) {\n\t\tif (*src == d)\n\t\t\treturn (void *) src;\n\t\tsrc++;\n\t}\n\n\treturn NULL;", "\tunsigned char d = c;\n\tconst unsigned char *hit = NULL;\n\n\twhile (n--) {\n\t\tif (*src == d)\n\t\t\thit = src;\n\t\tsrc++;\n\t}\n\n\treturn (void *) hit;", 'memchr'),
 ('memrchr-stops-one-early', 'memrchr.c', 'while (src != (const unsigned char *) s) {', 'while (src != (const unsigned char *) s + (n > 1)) {', 'memrchr'),
 ('strchrnul-int-compare', 'strchrnul.c', 'while (*str && *str != c)', 'while (*str && *str != ch)', 'strchrnul'),
 ('strrchr-first-not-last', 'strrchr.c', '\t\tfound = str++;\n', '\t\tif (!found) found = str;\n\t\tstr++;\n', 'strrchr'),
 ('strspn-counts-to-end', 'strspn.c', "\t\tif (*a == '\\0') {\n\t\t\treturn count;\n\t\t} else {\n\t\t\t++count;\n\t\t}", "\t\tif (*a != '\\0') {\n\t\t\t++count;\n\t\t}", 'strspn'),
 ('strcspn-off-by-one', 'strcspn.c', '\t\t\treturn count;\n\t\t}\n\t}', '\t\t\treturn count + 1;\n\t\t}\n\t}', 'strcspn'),
 ('strpbrk-only-first-set-char', 'strpbrk.c', 'for (c = s2; *c; c++) {', 'for (c = s2; *c; c += 1 + (c[1] != 0)) {', 'strpbrk'),
 ('strstr-prefix-match', 'strstr.c', '\t\tif (!*n) {\n\t\t\treturn (char *) haystack;', '\t\tif (!*n || !*h) {\n\t\t\treturn (char *) haystack;', 'strstr'),
 ('strcasestr-toupper-one-side', 'strcasestr.c', 'tolower(*h) == tolower(*n)', 'toupper(*h) == tolower(*n)', 'strcasestr'),
 ('memcmp-signed-char', 'memcmp.c', 'const unsigned char *dst = (const unsigned char *) _dst;\n\tconst unsigned char *src = (const unsigned char *) _src;', 'const signed char *dst = (const signed char *) _dst;\n\tconst signed char *src = (const signed char *) _src;', 'memcmp'),
 ('memcmp-last-byte-not-first-difference', 'memcmp.c', 'while (--n && *dst == *src) {\n\t\t++dst;\n\t\t++src;\n\t}', 'while (--n) {\n\t\t++dst;\n\t\t++src;\n\t}', 'memcmp'),
 ('strcmp-swapped', 'strcmp.c', 'return *s1 - *s2;', 'return *s2 - *s1;', 'strcmp'),
 ('strncmp-compares-n-plus-1', 'strncmp.c', 'while (--n && *s1', 'while (n-- && *s1', 'strncmp'),
 ('strcasecmp-result-not-folded', 'strcasecmp.c', 'return tolower(*s1) - tolower(*s2);', 'return *s1 - *s2;', 'strcasecmp'),
 ('strncasecmp-no-nul-stop', 'strncasecmp.c', 'while (--n && *s1 && (tolower', 'while (--n && (tolower', 'strncasecmp'),
 ('strchr-unfixed', 'strchr.c', 'return (char) ch == *chp', 'return ch == *chp', 'strchr'),
]

def mutate(f, old, new):
    p = D + f
    s = open(p).read()
    assert s.count(old) == 1, (f, old, s.count(old))
    open(p, 'w').write(s.replace(old, new))

def run(only=None):
    r = sh('python3 /tmp/dev/c08_content_drv.py' + (' --only ' + only if only else ''))
    return r.returncode, r.stdout + r.stderr

if __name__ == '__main__':
    sel = sys.argv[1:]
    res = []
    for (name, f, old, new, fn) in MUTS:
        if sel and not any(x in name for x in sel):
            continue
        reset()
        mutate(f, old, new)
        rc, out = run()
        vio = [l for l in out.split('\n') if ' in %s: ' % fn in l]
        other = [l for l in out.split('\n') if ': R-' in l and ' in %s: ' % fn not in l]
        ok = rc == 1 and bool(vio)
        print('%-45s rc=%d %s  %s' % (name, rc, 'DETECTED' if ok else 'MISSED', (vio[0][vio[0].index(': R-') + 2:][:170] if vio else out[-300:])))
        if other:
            print('      also:', other[0][:200])
        res.append((name, fn, rc, ok, vio[0] if vio else ''))
    reset()
    json.dump(res, open('/tmp/dev/c08c/mut_results.json', 'w'), indent=1)
