#!/usr/bin/env python3
"""behaviour-preserving rewrites: the content rules must stay silent (exit 0)"""
import sys, json
sys.path.insert(0, '/tmp/dev/c08c')
from mut import reset, run, D

REWS = {
 'memcpy-index-loop': ('memcpy.c', '''#include <string.h>
void *memcpy(void *dst_, const void *src_, size_t n) {
	unsigned char *d = dst_;
	const unsigned char *s = src_;
	size_t i;
	for (i = 0; i < n; i++)
		d[i] = s[i];
	return dst_;
}
'''),
 'memcpy-32bit-words': ('memcpy.c', '''#include <string.h>
#include <stdint.h>
void *memcpy(void *dst_, const void *src_, size_t n) {
	unsigned char *d = dst_;
	const unsigned char *s = src_;
	if ((((uintptr_t) d | (uintptr_t) s) & 3) == 0) {
		while (n >= 4) {
			*(uint32_t *) d = *(const uint32_t *) s;
			d += 4; s += 4; n -= 4;
		}
	}
	while (n > 0) {
		*d++ = *s++;
		--n;
	}
	return dst_;
}
'''),
 'memmove-demorgan-index': ('memmove.c', '''#include <string.h>
void *memmove(void *_dst, const void *_src, size_t n) {
	char *d = _dst;
	const char *s = _src;
	size_t i;
	if (!(s < d) || !(d < s + n)) {
		for (i = 0; i != n; ++i)
			d[i] = s[i];
		return _dst;
	}
	for (i = n; i > 0; --i)
		d[i - 1] = s[i - 1];
	return _dst;
}
'''),
 'strcat-via-strlen-strcpy': ('strcat.c', '''#include <string.h>
char *strcat(char *dest, const char *src) {
	strcpy(dest + strlen(dest), src);
	return dest;
}
'''),
 'strncpy-index-memset': ('strncpy.c', '''#include <string.h>
char *strncpy(char *dst, const char *src, size_t n) {
	size_t i;
	for (i = 0; i < n && src[i] != '\\0'; i++)
		dst[i] = src[i];
	if (i < n)
		memset(dst + i, 0, n - i);
	return dst;
}
'''),
 'strtok-via-strspn-strcspn': ('strtok.c', '''#include <string.h>
char *strtok_r(char *str, const char *delim, char **saveptr) {
	char *end;
	if (str == NULL) {
		str = *saveptr;
		if (str == NULL)
			return NULL;
	}
	str += strspn(str, delim);
	if (*str == '\\0')
		return NULL;
	end = str + strcspn(str, delim);
	if (*end == '\\0') {
		*saveptr = end;
		return str;
	}
	*end = '\\0';
	*saveptr = end + 1;
	return str;
}
char *strtok(char *str, const char *delim) {
	static char *saveptr;
	return strtok_r(str, delim, &saveptr);
}
'''),
 'strchr-direct-loop': ('strchr.c', '''#include <string.h>
char *strchr(const char *str, int ch) {
	const char c = (char) ch;
	for (;; ++str) {
		if (*str == c)
			return (char *) str;
		if (*str == '\\0')
			return NULL;
	}
}
'''),
 'strrchr-single-pass': ('strrchr.c', '''#include <string.h>
char *strrchr(const char *str, int ch) {
	const char *found = NULL;
	char c = (char) ch;
	do {
		if (*str == c)
			found = str;
	} while (*str++ != '\\0');
	return (char *) found;
}
'''),
 'strspn-helper': ('strspn.c', '''#include <string.h>
static int in_set(char c, const char *set) {
	while (*set != '\\0') {
		if (*set++ == c)
			return 1;
	}
	return 0;
}
size_t strspn(const char *s, const char *accept) {
	size_t count = 0;
	while (s[count] != '\\0' && in_set(s[count], accept))
		++count;
	return count;
}
'''),
 'memcmp-index-early-return': ('memcmp.c', '''#include <string.h>
int memcmp(const void *_dst, const void *_src, size_t n) {
	const unsigned char *a = _dst, *b = _src;
	size_t i;
	for (i = 0; i < n; i++) {
		if (a[i] != b[i])
			return a[i] < b[i] ? -1 : 1;
	}
	return 0;
}
'''),
 'strlwr-via-tolower': ('strlwr.c', '''#include <string.h>
#include <ctype.h>
char *strlwr (char *string) {
	size_t i;
	for (i = 0; string[i] != '\\0'; i++)
		string[i] = (char) tolower((unsigned char) string[i]);
	return string;
}
'''),
 'strdup-via-memcpy': ('strdup.c', '''#include <stdlib.h>
#include <string.h>
char * strdup(const char *s) {
	size_t n = strlen(s) + 1;
	char *ret = malloc(n);
	return ret ? memcpy(ret, s, n) : NULL;
}
'''),
 'strncat-via-strnlen-memcpy': ('strncat.c', '''#include <string.h>
char *strncat(char *s1, const char *s2, size_t n) {
	size_t l = strnlen(s2, n);
	char *e = s1 + strlen(s1);
	memcpy(e, s2, l);
	e[l] = '\\0';
	return s1;
}
'''),
 'strstr-via-strncmp': ('strstr.c', '''#include <string.h>
char *strstr(const char *haystack, const char *needle) {
	size_t nl = strlen(needle);
	for (;; ++haystack) {
		if (strncmp(haystack, needle, nl) == 0)
			return (char *) haystack;
		if (*haystack == '\\0')
			return NULL;
	}
}
'''),
 'strlcpy-via-strlen-memcpy': ('strlcpy.c', '''#include <string.h>
size_t strlcpy(char *dst, const char *src, size_t size) {
	size_t l = strlen(src);
	if (size != 0) {
		size_t k = l < size - 1 ? l : size - 1;
		memcpy(dst, src, k);
		dst[k] = '\\0';
	}
	return l;
}
'''),
 'strcmp-switch-form': ('strcmp.c', '''#include <string.h>
int strcmp(const char *str1, const char *str2) {
	size_t i = 0;
	for (;;) {
		unsigned char a = (unsigned char) str1[i], b = (unsigned char) str2[i];
		switch (a == b) {
		case 0:
			return (int) a - (int) b;
		default:
			if (a == 0)
				return 0;
		}
		++i;
	}
}
'''),
 'strcspn-nested-loops': ('strcspn.c', '''#include <string.h>
size_t strcspn(const char *s, const char *reject) {
	const char *p, *r;
	for (p = s; *p; ++p)
		for (r = reject; *r; ++r)
			if (*r == *p)
				return (size_t) (p - s);
	return (size_t) (p - s);
}
'''),
 'memchr-index': ('memchr.c', '''#include <string.h>
void *memchr(const void *s, int c, size_t n) {
	const unsigned char *p = s;
	size_t i = 0;
	while (i < n) {
		if (p[i] == (unsigned char) c)
			return (void *) (p + i);
		i++;
	}
	return NULL;
}
'''),
}

REWS['strcasecmp-index-dowhile'] = ('strcasecmp.c', '''#include <ctype.h>
#include <string.h>
int strcasecmp(const char *str1, const char *str2) {
	size_t i = 0;
	int a, b;
	do {
		a = tolower((unsigned char) str1[i]);
		b = tolower((unsigned char) str2[i]);
		++i;
	} while (a != 0 && a == b);
	return a - b;
}
''')
_ms = open(D + 'memset.c').read()
REWS['memset-word-version'] = ('memset.c', _ms.replace('#if 0\n#define BLOCK_SZ', '#if 1\n#define BLOCK_SZ').replace(
    'void *memset(void *dest, int c, size_t n)\n{', '#if 0\nvoid *memset(void *dest, int c, size_t n)\n{', 1).replace(
    '    return dest;\n}\n', '    return dest;\n}\n#endif\n', 1))

if __name__ == '__main__':
    sel = sys.argv[1:]
    res = []
    for name, (f, body) in REWS.items():
        if sel and not any(x in name for x in sel):
            continue
        reset()
        open(D + f, 'w').write(body)
        rc, out = run()
        bad = [l for l in out.split('\n') if ': R-' in l or 'UNRESOLVED' in l or 'BROKEN' in l or 'Error' in l or 'error' in l]
        print('%-32s rc=%d %s %s' % (name, rc, 'SILENT' if rc == 0 else 'ALARM', bad[0][:230] if bad else ''))
        res.append((name, rc))
    reset()
    json.dump(res, open('/tmp/dev/c08c/rew_results.json', 'w'), indent=1)
