#!/bin/sh
# hand-made mutations used to test checks/c07_roundtrip.py (each: apply in the scratch worktree, run driver.py, revert)
# usage: sh mutations.sh            (worktree /tmp/dev/c07_roundtrip, driver proposed/c07_roundtrip/driver.py)
W=${W:-/tmp/dev/c07_roundtrip}
DRV=$(dirname "$0")/driver.py
N=igris/util/numconvert.c; H=igris/util/hexascii.h; I=compat/libc/stdlib/itoa.c; A=compat/libc/stdlib/atol.c
D=igris/dprint/dprint_func_impl.c; C=igris/util/ctype.h
mut() { # name sed-expr file
    cd $W && git checkout -- . && sed -i "$2" "$3"
    if git diff --quiet; then echo "NO CHANGE $1"; return; fi
    python3 $DRV -v > /tmp/mut_$1.log 2>&1; rc=$?
    echo "$1: exit $rc: $(grep '^FAIL' /tmp/mut_$1.log | cut -d'|' -f1,2 | sort -u | tr '\n' ' ' | cut -c1-300)"
    git checkout -- .
}
mut m1_letter_const    "0,/remainder + 'a' - 10/s/remainder + 'a' - 10/remainder + 'a' - 9/" $N
mut m2_reverse_offby1  "0,/while (p1 < p2)/s/while (p1 < p2)/while (p1 < p2 - 1)/" $N
mut m3_itoa_stale_p1   "0,/p1++;/s/p1++;//" $I
mut m6_return          "0,/return p;/s/return p;/return p - 1;/" $N
mut m7_noterm          "0,/\*p = '\\\\0';/s/\*p = '\\\\0';//" $N
mut m8_wrong_base      "0,/res = res \* base + hex2half(c);/s/res = res \* base + hex2half(c);/res = res * 10 + hex2half(c);/" $N
mut m9_hex2half_cmp    "s/(c >= 'a' ? c - 'a' : c - 'A')/(c > 'a' ? c - 'a' : c - 'A')/" $H
mut m10_swapped_arms   "0,/minus ? 0 - u : u/s/minus ? 0 - u : u/minus ? u : 0 - u/" $N
mut m11_end_minus1     "0,/\*end = (char \*)buf;/s/\*end = (char \*)buf;/*end = (char *)buf - 1;/" $N
mut m12_atol_digit     "s/total = 10 \* total + (c - '0');/total = 10 * total + (c - '1');/" $A
mut m13_atol_sign      "s/if (sign == '-') {/if (sign == '+') {/" $A
mut m14_hex4_le        "s/uint8_t c = b < 10 ? b + '0'/uint8_t c = b <= 10 ? b + '0'/" $D
mut m15_hex8_swapped   "s/debug_printhex_uint4((b \& 0xF0) >> 4);/debug_printhex_uint4(b \& 0x0F);/" $D
mut m16_signed_nominus "/u = 0 - u;/{n;d}" $D
mut m17_dec_loop       "s/for (; x != 0; x \/= 10)/for (; x > 9; x \/= 10)/" $D
mut m18_isalnum        "s/return igris_isalpha(c) || igris_isdigit(c); }/return igris_isalpha(c); }/" $C
mut m20_stale_buf      "0,/        ++buf;/s/        ++buf;//" $N
for s in /verif/seeded/C07-*; do
    cd $W && git checkout -- . && git apply $s/patch.diff && python3 $DRV -v > /tmp/mut_seed.log 2>&1; rc=$?
    echo "$(basename $s): exit $rc: $(grep '^FAIL' /tmp/mut_seed.log | cut -d'|' -f1,2 | sort -u | tr '\n' ' ' | cut -c1-300)"
    git checkout -- .
done
