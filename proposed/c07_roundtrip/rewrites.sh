#!/bin/sh
# behaviour-preserving rewrites: refactors/C07/ref1..10.diff (shared regression set) + rewrites/rw*.diff (written for this
# module); each must leave driver.py silent (exit 0)
W=${W:-/tmp/dev/c07_roundtrip}
HERE=$(cd "$(dirname "$0")" && pwd)
for d in /verif/refactors/C07/ref*.diff $HERE/rewrites/*.diff; do
    cd $W && git checkout -- . && git apply $d || { echo "APPLY FAILED $d"; continue; }
    python3 $HERE/driver.py > /tmp/rw.log 2>&1; echo "$(basename $d): exit $? $(tail -1 /tmp/rw.log)"
    git checkout -- .
done
