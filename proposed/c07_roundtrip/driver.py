#!/usr/bin/env python3
"""driver: runs c07_roundtrip.run_ext alone into a fresh report (as checks/run.py does)"""
import os, sys, time
os.environ.setdefault('VERIF_EVIDENCE_DIR', '/tmp/dev/c07_roundtrip_ev')
sys.path.insert(0, '/verif/checks')
from irlib import AnalysisBroken
from report import Report
import c07_roundtrip
repo = '/tmp/dev/c07_roundtrip'
tier = 'quick'
verbose = False
for a in sys.argv[1:]:
    if a == '-v': verbose = True
    elif a in ('quick', 'thorough'): tier = a
    else: repo = a
rep = Report('C07', tier, repo)
t0 = time.time()
try:
    c07_roundtrip.run_ext(rep, repo, tier)
except AnalysisBroken as e:
    print('ANALYSIS-BROKEN', e); sys.exit(2)
if verbose:
    for i in rep.instances:
        print(('ok   ' if i['ok'] else 'FAIL ') + '%s|%s|%s %s' % (i['rule'], i['function'], i['key'], '' if i['ok'] else (i['detail'] or '')))
rc = rep.finish()
print(rep.extra.get('c07_roundtrip'))
per = {}
for i in rep.instances: per[i['rule']] = per.get(i['rule'], 0) + 1
print(per)
print('%d instances, %d failing, exit %d, %.1fs' % (len(rep.instances), sum(1 for i in rep.instances if not i['ok']), rc, time.time() - t0))
sys.exit(rc)
