#include <igris/serialize/serialize_archive.h>
#include <cstdio>
#include <cstring>
__attribute__((noinline)) void dirty(unsigned char v) { volatile unsigned char buf[4096]; for (int i = 0; i < 4096; ++i) buf[i] = v; }
__attribute__((noinline)) std::string enc(int k) { long double x = k; return igris::serialize(x); }
int main() {
    dirty(0xAA); std::string a = enc(1);
    dirty(0x55); std::string b = enc(1);
    for (unsigned char c : a) printf("%02x ", c); printf("\n");
    for (unsigned char c : b) printf("%02x ", c); printf("\n");
    printf("equal encodings: %d, decoded equal: %d\n", a == b, igris::deserialize<long double>(a) == igris::deserialize<long double>(b));
}
