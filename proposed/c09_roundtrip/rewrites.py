#!/usr/bin/env python3
"""behaviour-preserving rewrites: the recorded refactors/C09/ref*.diff plus hand-made ones; every one must leave the
extension silent (exit 0).  usage: rewrites.py [name-substring]"""
import subprocess, sys, os, glob
WT = '/tmp/dev/c09_roundtrip'
DRV = '/tmp/dev/c09_roundtrip_drv.py'
S = 'igris/serialize/'
REW = [
 ('r01-vector-reader-emplace-back-in-place', S + 'stdtypes.h',
  'for (int i = 0; i < size; i++)\n            {\n                T value;\n                igris::deserialize(keeper, value);\n                vec.push_back(value);\n            }',
  'vec.reserve(vec.size() + size);\n            for (uint16_t i = 0; i != size; ++i)\n            {\n                vec.emplace_back();\n                igris::deserialize(keeper, vec.back());\n            }'),
 ('r02-string-reader-through-temporary', S + 'stdtypes.h',
  'str.resize(size);\n            keeper.load_data((char *)str.data(), str.size());',
  'std::string tmp(size, \'\\0\');\n            if (size != 0)\n                keeper.load_data(&tmp[0], size);\n            else\n                keeper.load_data(&tmp[0], 0);\n            str = std::move(tmp);'),
 ('r03-map-iterators-and-emplace', S + 'stdtypes.h',
  'for (auto pair : map)\n            {\n                igris::serialize(keeper, pair);\n            }',
  'for (auto it = map.begin(); it != map.end(); ++it)\n            {\n                igris::serialize(keeper, it->first);\n                igris::serialize(keeper, it->second);\n            }'),
 ('r04-map-reader-emplace-move', S + 'stdtypes.h',
  'map.insert(std::make_pair(first, second));', 'map.emplace(std::move(first), std::move(second));'),
 ('r05-buffer-reader-byte-loop', S + 'archive.h',
  'memcpy(dat, ptr, size);\n                ptr += size;\n            }\n\n            void skip',
  'const char *stop = ptr + size;\n                while (ptr != stop)\n                    *dat++ = *ptr++;\n            }\n\n            void skip'),
 ('r06-load-cstr-helper-and-if', S + 'archive.h',
  'uint16_t readsz = sz > maxsz ? maxsz : sz;\n                load_data(dat, readsz);\n                skip(sz - readsz);',
  'uint16_t readsz = sz;\n                if (!(sz <= maxsz))\n                    readsz = maxsz;\n                int rest = sz;\n                rest -= readsz;\n                load_data(dat, readsz);\n                if (rest > 0)\n                    skip(rest);\n                else\n                    skip(0);'),
 ('r07-vector-writer-index-walk', S + 'stdtypes.h',
  'for (const T &value : vec)\n            {\n                igris::serialize(keeper, value);\n            }',
  'const size_t n = vec.size();\n            for (size_t k = 0; k < n; ++k)\n                igris::serialize(keeper, vec.data()[k]);'),
 ('r08-string-writer-string-view', S + 'stdtypes.h',
  'igris::serialize(keeper, igris::buffer(str.data(), str.size()));',
  'keeper.dump((uint16_t)str.length());\n            keeper.dump_data(str.empty() ? str.data() : &str[0], (uint16_t)str.length());'),
 ('r09-pair-through-references', S + 'stdtypes.h',
  'igris::deserialize(keeper, pair.first);\n            igris::deserialize(keeper, pair.second);',
  'F &a = pair.first;\n            S &b = pair.second;\n            igris::deserialize(keeper, a);\n            igris::deserialize(keeper, b);'),
 ('r10-protocol-list-index-loop', S + 'serialize_protocol.h',
  'auto it = listtag.container.begin();\n            auto eit = listtag.container.end();\n            while (it != eit)\n                archive.serialize(*it++);',
  'for (size_t k = 0; k != listtag.container.size(); ++k)\n                archive.serialize(listtag.container[k]);'),
 ('r11-writable-buffer-size_t-min', S + 'archive.h',
  'int readsize = buf.size() < len ? buf.size() : len;\n                load_data((char *)buf.data(), readsize);\n                skip(len - readsize);',
  'size_t readsize = len;\n                if (buf.size() < readsize)\n                    readsize = buf.size();\n                char *dst = buf.data();\n                load_data(dst, (uint16_t)readsize);\n                skip((int)(len - readsize));'),
 ('r12-map-reader-subscript', S + 'stdtypes.h', 'map.insert(std::make_pair(first, second));', 'map[first] = second;'),
 ('r13-map-reader-emplace-hint', S + 'stdtypes.h', 'map.insert(std::make_pair(first, second));', 'map.emplace_hint(map.end(), first, second);'),
 ('r14-vector-reader-resize-then-index', S + 'stdtypes.h',
  'for (int i = 0; i < size; i++)\n            {\n                T value;\n                igris::deserialize(keeper, value);\n                vec.push_back(value);\n            }',
  'const size_t old = vec.size();\n            vec.resize(old + size);\n            for (size_t i = old; i < vec.size(); ++i)\n                igris::deserialize(keeper, vec[i]);'),
 ('r15-string-reader-assign-from-scratch-vector', S + 'stdtypes.h',
  'str.resize(size);\n            keeper.load_data((char *)str.data(), str.size());',
  'std::vector<char> tmp(size);\n            keeper.load_data(tmp.data(), (uint16_t)tmp.size());\n            str.assign(tmp.begin(), tmp.end());'),
 ('r16-buffer-reader-char_traits-copy', S + 'archive.h',
  'memcpy(dat, ptr, size);\n                ptr += size;\n            }\n\n            void skip',
  'std::char_traits<char>::copy(dat, ptr, (size_t)size);\n                ptr = ptr + size;\n            }\n\n            void skip'),
 ('r17-tuple-apply-fold', S + 'stdtypes.h',
  'static void deserialize(Archive &keeper, Tuple &tpl)\n        {\n            tuple_deserialize_helper(keeper, tpl,\n                                     std::index_sequence_for<Args...>{});\n        }',
  'static void deserialize(Archive &keeper, Tuple &tpl)\n        {\n            std::apply([&keeper](auto &...member) { (igris::deserialize(keeper, member), ...); }, tpl);\n        }'),
 ('r18-storage-load-std-min', S + 'serialize_storage.h',
  'auto len = MIN(size, _storage.size() - cursor);\n            memcpy(data, _storage.data() + cursor, len);\n            cursor += len;',
  'const size_t left = _storage.size() - cursor;\n            const size_t len = std::min(size, left);\n            const char *from = _storage.data() + cursor;\n            for (size_t k = 0; k < len; ++k)\n                data[k] = from[k];\n            cursor = cursor + len;'),
 ('r19-load-cstr-switch', S + 'archive.h',
  'uint16_t readsz = sz > maxsz ? maxsz : sz;',
  'uint16_t readsz;\n                switch (sz > maxsz ? 1 : 0)\n                {\n                case 1:\n                    readsz = maxsz;\n                    break;\n                default:\n                    readsz = sz;\n                    break;\n                }'),
 ('r20-vector-writer-for_each-lambda', S + 'stdtypes.h',
  ['#include <vector>\n\nnamespace igris', 'for (const T &value : vec)\n            {\n                igris::serialize(keeper, value);\n            }'],
  ['#include <vector>\n#include <algorithm>\n\nnamespace igris', 'std::for_each(vec.cbegin(), vec.cend(), [&keeper](const T &value) { igris::serialize(keeper, value); });']),
 ('r21-string-writer-append-via-count-then-chars', S + 'archive.h',
  'dump((uint16_t)buf.size());\n                dump_data(buf.data(), buf.size());\n            }\n\n#if',
  'const uint16_t n = (uint16_t)buf.size();\n                dump_data((const char *)&n, sizeof(n));\n                for (uint16_t k = 0; k < n; ++k)\n                    dump_data(buf.data() + k, 1);\n            }\n\n#if'),
]
def run():
    r = subprocess.run([sys.executable, DRV, '--fails', '--repo', WT], capture_output=True, text=True)
    fails = [l for l in r.stdout.split('\n') if l.startswith('FAIL ') or 'ANALYSIS-BROKEN' in l]
    return r, fails
def main():
    pat = sys.argv[1] if len(sys.argv) > 1 else ''
    res = []
    for d in sorted(glob.glob('/verif/refactors/C09/ref*.diff')):
        name = 'refactors/C09/' + os.path.basename(d)
        if pat not in name:
            continue
        a = subprocess.run(['git', '-C', WT, 'apply', d], capture_output=True, text=True)
        if a.returncode:
            print('%s: does not apply: %s' % (name, a.stderr[:200]))
            continue
        try:
            r, fails = run()
        finally:
            subprocess.run(['git', '-C', WT, 'apply', '-R', d])
        print('== %s: exit %d' % (name, r.returncode))
        for l in fails[:4]:
            print('     ' + l[:500])
        if r.returncode not in (0, 1, 2) or (r.returncode and not fails):
            print(r.stdout[-600:], r.stderr[-1500:])
        res.append((name, r.returncode))
    for (name, rel, old, new) in REW:
        if pat not in name:
            continue
        p = os.path.join(WT, rel)
        src = open(p).read()
        olds, news = (old, new) if isinstance(old, list) else ([old], [new])
        if any(src.count(o) != 1 for o in olds):
            print('%s: anchor text found %s times - not applied' % (name, [src.count(o) for o in olds]))
            continue
        for o, n_ in zip(olds, news):
            src = src.replace(o, n_)
        orig = open(p).read()
        open(p, 'w').write(src)
        try:
            r, fails = run()
        finally:
            open(p, 'w').write(orig)       # back to the worktree's state (the proposed fixes stay applied)
        print('== %s: exit %d' % (name, r.returncode))
        for l in fails[:4]:
            print('     ' + l[:600])
        if r.returncode not in (0, 1, 2) or (r.returncode and not fails):
            print(r.stdout[-600:], r.stderr[-1500:])
        res.append((name, r.returncode))
    print(res)
main()
