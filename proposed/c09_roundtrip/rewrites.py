#!/usr/bin/env python3
"""behaviour-preserving rewrites: the recorded refactors/C09/ref*.diff plus hand-made ones; every one must leave the
extension silent (exit 0).  usage: rewrites.py [name-substring]"""
import subprocess, sys, os, glob
WT = '/tmp/dev/c09_roundtrip'
DRV = '/tmp/dev/c09_roundtrip_drv.py'
S = 'igris/serialize/'
REW = [
 ('r01-vector-reader-emplace-back-in-place', S + 'stdtypes.h',
  'for (int i = 0; i < size; i++)\n            {\n                T value;\n                igris::deserialize(keeper, value);\n                vec.push_back(value);\n            }',
  'vec.reserve(vec.size() + size);\n            for (uint16_t i = 0; i != size; ++i)\n            {\n                vec.emplace_back();\n                igris::deserialize(keeper, vec.back());\n            }'),
 ('r02-string-reader-through-temporary', S + 'stdtypes.h',
  'str.resize(size);\n            keeper.load_data((char *)str.data(), str.size());',
  'std::string tmp(size, \'\\0\');\n            if (size != 0)\n                keeper.load_data(&tmp[0], size);\n            else\n                keeper.load_data(&tmp[0], 0);\n            str = std::move(tmp);'),
 ('r03-map-iterators-and-emplace', S + 'stdtypes.h',
  'for (auto pair : map)\n            {\n                igris::serialize(keeper, pair);\n            }',
  'for (auto it = map.begin(); it != map.end(); ++it)\n            {\n                igris::serialize(keeper, it->first);\n                igris::serialize(keeper, it->second);\n            }'),
 ('r04-map-reader-emplace-move', S + 'stdtypes.h',
  'map.insert(std::make_pair(first, second));', 'map.emplace(std::move(first), std::move(second));'),
 ('r05-buffer-reader-byte-loop', S + 'archive.h',
  'memcpy(dat, ptr, size);\n                ptr += size;\n            }\n\n            void skip',
  'const char *stop = ptr + size;\n                while (ptr != stop)\n                    *dat++ = *ptr++;\n            }\n\n            void skip'),
 ('r06-load-cstr-helper-and-if', S + 'archive.h',
  'uint16_t readsz = sz > maxsz ? maxsz : sz;\n                load_data(dat, readsz);\n                skip(sz - readsz);',
  'uint16_t readsz = sz;\n                if (!(sz <= maxsz))\n                    readsz = maxsz;\n                int rest = sz;\n                rest -= readsz;\n                load_data(dat, readsz);\n                if (rest > 0)\n                    skip(rest);\n                else\n                    skip(0);'),
 ('r07-vector-writer-index-walk', S + 'stdtypes.h',
  'for (const T &value : vec)\n            {\n                igris::serialize(keeper, value);\n            }',
  'const size_t n = vec.size();\n            for (size_t k = 0; k < n; ++k)\n                igris::serialize(keeper, vec.data()[k]);'),
 ('r08-string-writer-string-view', S + 'stdtypes.h',
  'igris::serialize(keeper, igris::buffer(str.data(), str.size()));',
  'keeper.dump((uint16_t)str.length());\n            keeper.dump_data(str.empty() ? str.data() : &str[0], (uint16_t)str.length());'),
 ('r09-pair-through-references', S + 'stdtypes.h',
  'igris::deserialize(keeper, pair.first);\n            igris::deserialize(keeper, pair.second);',
  'F &a = pair.first;\n            S &b = pair.second;\n            igris::deserialize(keeper, a);\n            igris::deserialize(keeper, b);'),
 ('r10-protocol-list-index-loop', S + 'serialize_protocol.h',
  'auto it = listtag.container.begin();\n            auto eit = listtag.container.end();\n            while (it != eit)\n                archive.serialize(*it++);',
  'for (size_t k = 0; k != listtag.container.size(); ++k)\n                archive.serialize(listtag.container[k]);'),
 ('r11-writable-buffer-size_t-min', S + 'archive.h',
  'int readsize = buf.size() < len ? buf.size() : len;\n                load_data((char *)buf.data(), readsize);\n                skip(len - readsize);',
  'size_t readsize = len;\n                if (buf.size() < readsize)\n                    readsize = buf.size();\n                char *dst = buf.data();\n                load_data(dst, (uint16_t)readsize);\n                skip((int)(len - readsize));'),
]
def run():
    r = subprocess.run([sys.executable, DRV, '--fails', '--repo', WT], capture_output=True, text=True)
    fails = [l for l in r.stdout.split('\n') if l.startswith('FAIL ') or 'ANALYSIS-BROKEN' in l]
    return r, fails
def main():
    pat = sys.argv[1] if len(sys.argv) > 1 else ''
    res = []
    for d in sorted(glob.glob('/verif/refactors/C09/ref*.diff')):
        name = 'refactors/C09/' + os.path.basename(d)
        if pat not in name:
            continue
        a = subprocess.run(['git', '-C', WT, 'apply', d], capture_output=True, text=True)
        if a.returncode:
            print('%s: does not apply: %s' % (name, a.stderr[:200]))
            continue
        try:
            r, fails = run()
        finally:
            subprocess.run(['git', '-C', WT, 'checkout', '--', '.'])
        print('== %s: exit %d' % (name, r.returncode))
        for l in fails[:4]:
            print('     ' + l[:500])
        if r.returncode not in (0, 1, 2) or (r.returncode and not fails):
            print(r.stdout[-600:], r.stderr[-1500:])
        res.append((name, r.returncode))
    for (name, rel, old, new) in REW:
        if pat not in name:
            continue
        p = os.path.join(WT, rel)
        src = open(p).read()
        if src.count(old) != 1:
            print('%s: anchor text found %d times - not applied' % (name, src.count(old)))
            continue
        open(p, 'w').write(src.replace(old, new))
        try:
            r, fails = run()
        finally:
            subprocess.run(['git', '-C', WT, 'checkout', '--', '.'])
        print('== %s: exit %d' % (name, r.returncode))
        for l in fails[:4]:
            print('     ' + l[:600])
        if r.returncode not in (0, 1, 2) or (r.returncode and not fails):
            print(r.stdout[-600:], r.stderr[-1500:])
        res.append((name, r.returncode))
    print(res)
main()
