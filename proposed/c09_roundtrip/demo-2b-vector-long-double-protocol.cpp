#include <igris/serialize/serialize_archive.h>
#include <cstdio>
#include <cstring>
#include <cstdlib>
int main(int argc, char**) {
    { char *p = (char*)malloc(32); memset(p, 0xCC, 32); free(p); }
    std::vector<long double> v; v.reserve(2); v.push_back((long double)argc); v.push_back((long double)(argc + 1));
    std::string a = igris::serialize(v);
    for (unsigned char c : a) printf("%02x ", c); printf("\n");
}
