#!/usr/bin/env python3
"""hand-made mutations of the anchored code (applied in the developer worktree, run, reverted).
usage: mutations.py [name-substring]      (worktree: /tmp/dev/c09_roundtrip, driver: /tmp/dev/c09_roundtrip_drv.py)"""
import subprocess, sys, os
WT = '/tmp/dev/c09_roundtrip'
DRV = '/tmp/dev/c09_roundtrip_drv.py'
S = 'igris/serialize/'
MUT = [
 ('m01-vector-reader-one-too-many', S + 'stdtypes.h', 'for (int i = 0; i < size; i++)\n            {\n                T value;',
  'for (int i = 0; i <= size; i++)\n            {\n                T value;'),
 ('m02-string-reader-drops-last-char', S + 'stdtypes.h', 'keeper.load_data((char *)str.data(), str.size());',
  'keeper.load_data((char *)str.data(), str.size() ? str.size() - 1 : 0);'),
 ('m03-pair-reader-swapped', S + 'stdtypes.h', 'igris::deserialize(keeper, pair.first);\n            igris::deserialize(keeper, pair.second);',
  'igris::deserialize(keeper, pair.second);\n            igris::deserialize(keeper, pair.first);'),
 ('m04-map-reader-hoisted-temporaries', S + 'stdtypes.h', 'igris::deserialize(keeper, size);\n\n            for (int i = 0; i < size; i++)\n            {\n                // typename std::map<K,T>::value_type pair;\n                K first;\n                T second;',
  'igris::deserialize(keeper, size);\n            K first;\n            T second;\n\n            for (int i = 0; i < size; i++)\n            {'),
 ('m05-load-cstr-wrong-comparison', S + 'archive.h', 'uint16_t readsz = sz > maxsz ? maxsz : sz;', 'uint16_t readsz = sz < maxsz ? maxsz : sz;'),
 ('m06-load-cstr-skips-whole-block', S + 'archive.h', 'skip(sz - readsz);', 'skip(sz);'),
 ('m07-buffer-reader-stale-cursor', S + 'archive.h', 'memcpy(dat, ptr, size);\n                ptr += size;', 'memcpy(dat, ptr, size);\n                ptr += sizeof(size);'),
 ('m08-dump-buffer-count-after-data', S + 'archive.h', 'dump((uint16_t)buf.size());\n                dump_data(buf.data(), buf.size());\n            }\n\n#if',
  'dump_data(buf.data(), buf.size());\n                dump((uint16_t)buf.size());\n            }\n\n#if'),
 ('m09-storage-load-ignores-cursor', S + 'serialize_storage.h', 'memcpy(data, _storage.data() + cursor, len);', 'memcpy(data, _storage.data(), len);'),
 ('m10-protocol-list-writer-skips-first', S + 'serialize_protocol.h', 'auto it = listtag.container.begin();\n            auto eit',
  'auto it = listtag.container.begin();\n            if (it != listtag.container.end()) ++it;\n            auto eit'),
 ('m11-vector-writer-reversed', S + 'stdtypes.h', 'for (const T &value : vec)\n            {\n                igris::serialize(keeper, value);\n            }',
  'for (auto it = vec.rbegin(); it != vec.rend(); ++it)\n            {\n                igris::serialize(keeper, *it);\n            }'),
 ('m12-writable-buffer-wrong-size', S + 'archive.h', 'buf = igris::buffer(buf.data(), readsize);', 'buf = igris::buffer(buf.data(), len);'),
 ('m13-settable-buffer-view-after-skip', S + 'archive.h', 'buf.ref = igris::buffer((char *)pointer(), len);\n\n                skip(len);',
  'skip(len);\n\n                buf.ref = igris::buffer((char *)pointer(), len);'),
 ('m14-string-writer-c_str', S + 'stdtypes.h', 'igris::buffer(str.data(), str.size())', 'igris::buffer(str.c_str())'),
 ('m15-map-writer-count-minus-one', S + 'stdtypes.h', 'igris::serialize(keeper, (uint16_t)map.size());', 'igris::serialize(keeper, (uint16_t)(map.size() - 1));'),
 ('m16-protocol-list-reader-drops-last', S + 'serialize_protocol.h', 'for (int i = 0; i < size; ++i)', 'for (int i = 1; i < size; ++i)'),
 ('m17-dump-cstr-count-as-char', S + 'archive.h', 'void dump(const char *dat, uint16_t sz)\n            {\n                dump(sz);', 'void dump(const char *dat, uint16_t sz)\n            {\n                dump((unsigned char)sz);'),
 ('m18-writable-buffer-no-skip', S + 'archive.h', 'load_data((char *)buf.data(), readsize);\n                skip(len - readsize);', 'load_data((char *)buf.data(), readsize);'),
 ('m19-tuple-reader-reads-into-first', S + 'stdtypes.h', 'int ___[] = {(igris::deserialize(keeper, std::get<I>(tpl)), 0)...};', 'int ___[] = {(igris::deserialize(keeper, std::get<sizeof...(I) - 1 - I>(tpl)), 0)...};'),
 ('m20-string-reader-signed-count', S + 'stdtypes.h', 'static void deserialize(Archive &keeper, std::string &str)\n        {\n            uint16_t size;', 'static void deserialize(Archive &keeper, std::string &str)\n        {\n            int8_t size;'),
 ('m21-buffer-writer-stale-cursor', S + 'archive.h', 'memcpy(ptr, dat, size);\n                ptr += size;', 'memcpy(ptr, dat, size);'),
 ('m22-deserialize-entry-starts-one-late', S + 'stdtypes.h', 'igris::archive::binary_buffer_reader reader(in.data(), in.size());', 'igris::archive::binary_buffer_reader reader(in.data() + 1, in.size() - 1);'),
 ('m23-storage-dump-assigns', S + 'serialize_storage.h', '_storage.append(data, size);', '_storage.assign(data, size);'),
 ('m24-load-int16-wrong-size', S + 'archive.h', 'void load(int16_t &i) { load_data((char *)&i, sizeof(i)); }', 'void load(int16_t &i) { load_data((char *)&i, sizeof(int8_t)); }'),
 ('m25-dump-long-as-int', S + 'archive.h', 'void dump(long i) { dump_data((char *)&i, sizeof(i)); }', 'void dump(long i) { dump_data((char *)&i, sizeof(int)); }'),
 ('m26-list-tag-capacity', S + 'serialize_tags.h', 'serialize_list_tag(Container &container)\n            : container(const_cast<std::remove_const_t<Container> &>(container))\n        {\n        }\n        size_t size() { return container.size(); }', 'serialize_list_tag(Container &container)\n            : container(const_cast<std::remove_const_t<Container> &>(container))\n        {\n        }\n        size_t size() { return container.capacity(); }'),
 ('m27-pair-writer-swapped', S + 'stdtypes.h', 'igris::serialize(keeper, pair.first);\n            igris::serialize(keeper, pair.second);', 'igris::serialize(keeper, pair.second);\n            igris::serialize(keeper, pair.first);'),
 ('m28-serialize-entry-b-returns-empty', S + 'serialize_archive.h', 'igris::serializer<string_storage, Protocol> archive(storage);\n        archive.serialize(obj);\n        return storage.storage();', 'string_storage copy = storage;\n        igris::serializer<string_storage, Protocol> archive(copy);\n        archive.serialize(obj);\n        return storage.storage();'),
 ('m29-vector-writer-count-is-capacity', S + 'stdtypes.h', 'igris::serialize(keeper, (uint16_t)vec.size());', 'igris::serialize(keeper, (uint16_t)vec.capacity());'),
 ('m30-storage-ctor-cursor-one', S + 'serialize_storage.h', 'size_t cursor = 0;', 'size_t cursor = 1;'),
 ('m31-dump-buffer-address-of-object', S + 'archive.h', 'dump((uint16_t)buf.size());\n                dump_data(buf.data(), buf.size());\n            }\n\n#if', 'dump((uint16_t)buf.size());\n                dump_data((const char *)&buf, buf.size());\n            }\n\n#if'),
 ('m32-protocol-dump-from-uninitialised-copy', S + 'serialize_protocol.h', 'archive.dump(reinterpret_cast<const char *>(&obj), sizeof(Type));', 'Type copy;\n            if (sizeof(Type) > 16)\n                copy = obj;\n            archive.dump(reinterpret_cast<const char *>(&copy), sizeof(Type));'),
 ('m33-vector-reader-no-increment', S + 'stdtypes.h', 'for (int i = 0; i < size; i++)\n            {\n                T value;', 'for (int i = 0; i < size;)\n            {\n                T value;'),
 ('m34-dump-buffer-one-byte-too-many', S + 'archive.h', 'dump((uint16_t)buf.size());\n                dump_data(buf.data(), buf.size());\n            }\n\n#if', 'dump((uint16_t)buf.size());\n                dump_data(buf.data(), buf.size() + 1);\n            }\n\n#if'),
 ('m35-map-reader-inserts-key-only', S + 'stdtypes.h', 'map.insert(std::make_pair(first, second));', 'map.insert(std::make_pair(first, T()));'),
 ('m36-load-writable-buffer-reads-len-bytes', S + 'archive.h', 'load_data((char *)buf.data(), readsize);', 'load_data((char *)buf.data(), len);'),
 ('m37-reserved-field-not-initialised', S + 'archive.h',
  ['void dump(int i) { dump_data((char *)&i, sizeof(i)); }', 'void load(int32_t &i) { load_data((char *)&i, sizeof(i)); }'],
  ['void dump(int i)\n            {\n                int reserved;\n                dump_data((char *)&i, sizeof(i));\n                dump_data((char *)&reserved, sizeof(reserved));\n            }',
   'void load(int32_t &i)\n            {\n                load_data((char *)&i, sizeof(i));\n                skip(4);\n            }']),
]
def main():
    pat = sys.argv[1] if len(sys.argv) > 1 else ''
    res = []
    for (name, rel, old, new) in MUT:
        if pat not in name:
            continue
        p = os.path.join(WT, rel)
        src = open(p).read()
        olds, news = (old, new) if isinstance(old, list) else ([old], [new])
        if any(src.count(o) != 1 for o in olds):
            print('%s: anchor text found %s times - mutation not applied' % (name, [src.count(o) for o in olds]))
            continue
        mut = src
        for o, n_ in zip(olds, news):
            mut = mut.replace(o, n_)
        open(p, 'w').write(mut)
        try:
            r = subprocess.run([sys.executable, DRV, '--fails', '--repo', WT], capture_output=True, text=True)
        finally:
            open(p, 'w').write(src)        # back to the worktree's state (the proposed fixes stay applied)
        fails = [l for l in r.stdout.split('\n') if l.startswith('FAIL ')]
        brk = [l for l in r.stdout.split('\n') if 'ANALYSIS-BROKEN' in l]
        print('== %s: exit %d, %d failing instance(s), %d broken' % (name, r.returncode, len(fails), len(brk)))
        for l in fails[:3]:
            print('     ' + l[:420])
        for l in brk[:2]:
            print('     ' + l[:300])
        if r.returncode not in (0, 1, 2) or (not fails and not brk and r.returncode):
            print(r.stdout[-800:], r.stderr[-1500:])
        res.append((name, r.returncode))
    print(res)
main()
