#!/usr/bin/env python3
"""hand-made mutations of the anchored code (applied in the worktree, run, restored).
usage: python3 mutations.py [substring]      every mutation must be reported (exit 1) naming the mutated function"""
import os
import subprocess
import sys

WT = '/tmp/dev/c11_order'
DRV = '/tmp/dev/c11_order_drv.py'
Q = 'compat/libc/stdlib/qsort.c'
B = 'compat/libc/stdlib/bsearch.c'
A = 'compat/libc/stdlib/atol.c'

BS_LOOP = '''	while (left + size < right) {
		mid = left + ((right - left) / (size << 1) * size);
		if (compar(key, mid) < 0) {
			right = mid;
		} else {
			left = mid;
		}
	}
	if (compar(key, left) == 0) {'''

MUT = [
    # name, file, old, new, function, nth occurrence (0-based, None = must be unique)
    ('q-network3-drops-last-compare', Q, '''				if (compar(base + size, base) < 0) {
					swap(base, base + size, size);
				}
''', '', 'qsort', None),
    ('q-scan-le', Q, 'while (compar(i, key) < 0) {', 'while (compar(i, key) <= 0) {', 'qsort', None),
    ('q-swap-guard-lt', Q, '''			if (i <= j) {
				swap(i, j, size);''', '''			if (i < j) {
				swap(i, j, size);''', 'qsort', None),
    ('q-left-recursion-one-short', Q, 'qsort(base, (j - base) / size + 1, size, compar);',
     'qsort(base, (j - base) / size, size, compar);', 'qsort', None),
    ('q-swap-restores-from-snd', Q, 'memcpy(fst, temp, size);', 'memcpy(fst, snd, size);', 'qsort', None),
    ('q-swap-one-byte-short', Q, 'memcpy(snd, fst, size);', 'memcpy(snd, fst, size - 1);', 'qsort', None),
    ('q-pivot-by-reference', Q, '''		char key[size];
		char *i = base, *j = base + (size * (nmemb - 1));

		memcpy(key, pos, size);
''', '''		char *key = pos;
		char *i = base, *j = base + (size * (nmemb - 1));

''', 'qsort', None),
    ('q-j-starts-past-the-end', Q, "char *i = base, *j = base + (size * (nmemb - 1));", "char *i = base, *j = base + (size * nmemb);",
     'qsort', None),
    ('q-scan-arguments-swapped', Q, 'while (compar(i, key) < 0) {', 'while (compar(key, i) < 0) {', 'qsort', None),
    ('q-right-recursion-one-short', Q, 'qsort(i, nmemb - (i - base) / size, size, compar);',
     'qsort(i, nmemb - (i - base) / size - 1, size, compar);', 'qsort', None),
    ('q-pivot-index-past-end', Q, 'rand() % nmemb', 'rand() % (nmemb + 1)', 'qsort', None),
    ('q-compares-with-minus-one', Q, '''		if (nmemb == 2) {
			if (compar(base + size, base) < 0) {''', '''		if (nmemb == 2) {
			if (compar(base + size, base) == -1) {''', 'qsort', None),
    ('q-small-threshold', Q, 'if (nmemb < 4) {', 'if (nmemb < 5) {', 'qsort', None),
    ('q-network3-wrong-element', Q, 'if (compar(base + (size << 1), base + size) < 0) {', 'if (compar(base + (size << 1), base) < 0) {',
     'qsort', None),
    ('q-stale-j-after-swap', Q, '''				i += size;
				j -= size;
			}''', '''				i += size;
			}''', 'qsort', None),
    ('b-equal-goes-left', B, BS_LOOP, BS_LOOP.replace('compar(key, mid) < 0', 'compar(key, mid) <= 0'), 'bsearch', None),
    ('b-no-final-compare', B, '''	if (compar(key, left) == 0) {
		return left;
	} else {
		return NULL;
	}''', '''	return left;''', 'bsearch', None),
    ('b-right-one-short', B, '''		*right = (char *)base + size * nmemb,
		*mid;
	if (nmemb == 0) {''', '''		*right = (char *)base + size * (nmemb - 1),
		*mid;
	if (nmemb == 0) {''', 'bsearch', None),
    ('b-branches-swapped', B, BS_LOOP, BS_LOOP.replace('right = mid;', 'XX').replace('left = mid;', 'right = mid;').replace('XX', 'left = mid;'),
     'bsearch', None),
    ('b-loop-le', B, BS_LOOP, BS_LOOP.replace('left + size < right', 'left + size <= right'), 'bsearch', None),
    ('b-compares-with-minus-one', B, BS_LOOP, BS_LOOP.replace('compar(key, mid) < 0', 'compar(key, mid) == -1'), 'bsearch', None),
    ('b-linear-probe', B, BS_LOOP, BS_LOOP.replace('mid = left + ((right - left) / (size << 1) * size);', 'mid = left + size;'),
     'bsearch', None),
    ('b-final-compare-swapped', B, 'if (compar(key, left) == 0) {', 'if (compar(left, key) == 0) {', 'bsearch', None),
    ('b-mid-unaligned', B, BS_LOOP, BS_LOOP.replace('(right - left) / (size << 1) * size', '(right - left) / 2'), 'bsearch', None),
    ('a-digit-off-by-one', A, "total = 10 * total + (c - '0');", "total = 10 * total + (c - '1');", 'atol', None),
    ('a-wrong-radix', A, "total = 10 * total + (c - '0');", "total = 8 * total + (c - '0');", 'atol', None),
    ('a-sign-test-inverted', A, "if (sign == '-') {", "if (sign == '+') {", 'atol', None),
    ('a-plus-not-consumed', A, "if (c == '-' || c == '+')", "if (c == '-')", 'atol', None),
    ('a-atoi-skips-first-char', A, 'return (int) atol(nptr);', 'return (int) atol(nptr + 1);', 'atoi', None),
    ('a-no-space-skipping', A, """	while (isspace(*p))
		++p;
""", '', 'atol', None),
    ('a-double-advance', A, """		total = 10 * total + (c - '0');
		c = *p++;""", """		total = 10 * total + (c - '0');
		p++;
		c = *p++;""", 'atol', None),
    ('a-sign-applied-twice', A, 'return (long) (0 - total);', 'return (long) (0 - total) * -1;', 'atol', None),
    ('a-accumulates-in-int', A, 'unsigned long total;', 'unsigned int total;', 'atol', None),
]


def main():
    sel = sys.argv[1] if len(sys.argv) > 1 else ''
    env = dict(os.environ, VERIF_EVIDENCE_DIR='/tmp/dev/c11_order_ev')
    rows = []
    for (name, rel, old, new, fn, nth) in MUT:
        if sel not in name:
            continue
        p = os.path.join(WT, rel)
        src = open(p).read()
        if src.count(old) != 1:
            print('%s: pattern occurs %d times' % (name, src.count(old)))
            rows.append((name, fn, 'NOT APPLIED', ''))
            continue
        try:
            open(p, 'w').write(src.replace(old, new))
            r = subprocess.run(['timeout', '-s', 'KILL', '600', sys.executable, DRV, WT], capture_output=True, text=True, env=env)
        finally:
            open(p, 'w').write(src)
        fails = [l for l in r.stdout.split('\n') if l.startswith('FAIL ')]
        named = [l for l in fails if '|%s|' % fn in l]
        verdict = 'detected' if r.returncode == 1 and named else ('exit %d' % r.returncode)
        first = (named or fails or [r.stdout.strip().split('\n')[-1]])[0]
        rules = sorted(set(l.split('|')[0][5:] for l in named))
        print('%-34s %-12s %-10s %s' % (name, fn, verdict, ', '.join(rules)))
        print('      ' + first[:400])
        rows.append((name, fn, verdict, first))
    bad = [r for r in rows if r[2] != 'detected']
    print('%d / %d detected' % (len(rows) - len(bad), len(rows)))
    return 1 if bad else 0


if __name__ == '__main__':
    sys.exit(main())
