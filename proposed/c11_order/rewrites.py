#!/usr/bin/env python3
"""behaviour-preserving rewrites of qsort.c / bsearch.c (applied in the worktree, run, restored).
usage: python3 rewrites.py [substring]      every rewrite must leave c11_order silent (exit 0)"""
import os
import subprocess
import sys

WT = '/tmp/dev/c11_order'
DRV = '/tmp/dev/c11_order_drv.py'
Q = 'compat/libc/stdlib/qsort.c'
B = 'compat/libc/stdlib/bsearch.c'
A = 'compat/libc/stdlib/atol.c'

Q_HEAD = '''#include <stdlib.h>
#include <string.h>
#include <stdint.h>
#include <alloca.h>

int rand(void);
'''

# r1: byte-wise xor exchange, index-based partition with do/while scans
Q_XOR_INDEX = Q_HEAD + '''
static void exchange(char *a, char *b, size_t size) {
	size_t k;
	if (a == b)
		return;
	for (k = 0; k < size; k++) {
		a[k] ^= b[k];
		b[k] ^= a[k];
		a[k] ^= b[k];
	}
}

void qsort(void *vbase, size_t nmemb, size_t size,
		int(*compar)(const void *, const void *)) {
	char *base = vbase;
	if (nmemb < 2)
		return;
	if (nmemb == 2) {
		if (!(compar(base + size, base) >= 0))
			exchange(base, base + size, size);
		return;
	}
	if (nmemb == 3) {
		if (compar(base + size, base) < 0)
			exchange(base, base + size, size);
		if (compar(base + 2 * size, base + size) < 0) {
			exchange(base + size, base + 2 * size, size);
			if (compar(base + size, base) < 0)
				exchange(base, base + size, size);
		}
		return;
	}
	{
		char pivot[size];
		long lo = 0, hi = (long)nmemb - 1;
		memcpy(pivot, base + ((size_t)rand() % nmemb) * size, size);
		do {
			while (compar(base + lo * size, pivot) < 0)
				lo++;
			while (compar(pivot, base + hi * size) < 0)
				hi--;
			if (lo <= hi) {
				exchange(base + lo * size, base + hi * size, size);
				lo++;
				hi--;
			}
		} while (lo <= hi);
		if (hi > 0)
			qsort(base, hi + 1, size, compar);
		if (lo < (long)nmemb - 1)
			qsort(base + lo * size, nmemb - lo, size, compar);
	}
}
'''

# r2: explicit stack of ranges instead of recursion, swap through a byte temporary
Q_ITERATIVE = Q_HEAD + '''
static inline void swap(void *fst, void *snd, size_t size) {
	char *a = fst, *b = snd;
	while (size--) {
		char t = *a;
		*a++ = *b;
		*b++ = t;
	}
}

struct range { char *base; size_t n; };

void qsort(void *vbase, size_t nmemb, size_t size,
		int(*compar)(const void *, const void *)) {
	struct range stack[64];
	int top = 0;
	stack[top].base = vbase;
	stack[top].n = nmemb;
	top++;
	while (top > 0) {
		char *base;
		size_t n;
		top--;
		base = stack[top].base;
		n = stack[top].n;
		if (n < 4) {
			if (n >= 2 && compar(base + size, base) < 0)
				swap(base, base + size, size);
			if (n == 3 && compar(base + (size << 1), base + size) < 0) {
				swap(base + size, base + (size << 1), size);
				if (compar(base + size, base) < 0)
					swap(base, base + size, size);
			}
			continue;
		}
		{
			char *pos = (rand() % n) * size + base;
			char key[size];
			char *i = base, *j = base + (size * (n - 1));
			memcpy(key, pos, size);
			while (i <= j) {
				while (compar(i, key) < 0)
					i += size;
				while (compar(key, j) < 0)
					j -= size;
				if (i <= j) {
					swap(i, j, size);
					i += size;
					j -= size;
				}
			}
			if (j > base) {
				stack[top].base = base;
				stack[top].n = (j - base) / size + 1;
				top++;
			}
			if (i < base + (n - 1) * size) {
				stack[top].base = i;
				stack[top].n = n - (i - base) / size;
				top++;
			}
		}
	}
}
'''

# r3: word-wise swap when the size allows it, insertion sort for the small case, median pivot without rand()
Q_WORDS_INSERTION = Q_HEAD + '''
static void swap(char *a, char *b, size_t size) {
	if (size % sizeof(uint32_t) == 0) {
		uint32_t *x = (uint32_t *)a, *y = (uint32_t *)b;
		size_t k;
		for (k = 0; k < size / sizeof(uint32_t); k++) {
			uint32_t t = x[k];
			x[k] = y[k];
			y[k] = t;
		}
	} else {
		char tmp[size];
		memcpy(tmp, a, size);
		memcpy(a, b, size);
		memcpy(b, tmp, size);
	}
}

static void insertion(char *base, size_t n, size_t size, int(*compar)(const void *, const void *)) {
	size_t i, j;
	for (i = 1; i < n; i++)
		for (j = i; j > 0 && compar(base + j * size, base + (j - 1) * size) < 0; j--)
			swap(base + j * size, base + (j - 1) * size, size);
}

void qsort(void *vbase, size_t nmemb, size_t size,
		int(*compar)(const void *, const void *)) {
	char *base = (char *) vbase;

	if (nmemb < 4) {
		insertion(base, nmemb, size, compar);
	} else {
		char *pos = base + (nmemb / 2) * size;
		char key[size];
		char *i = base, *j = base + (size * (nmemb - 1));

		memcpy(key, pos, size);
		for (;;) {
			if (i > j)
				break;
			for (; compar(i, key) < 0; i += size)
				;
			for (; compar(key, j) < 0; j -= size)
				;
			if (j < i)
				continue;
			swap(i, j, size);
			i += size;
			j -= size;
		}
		if (j > base)
			qsort(base, (size_t)(j - base) / size + 1, size, compar);
		if (i < base + (nmemb - 1) * size)
			qsort(i, nmemb - (size_t)(i - base) / size, size, compar);
	}
}
'''

# r4: comparator result kept in a variable, helper that returns "less", Lomuto-free same Hoare partition with a do/while
Q_LESS_HELPER = Q_HEAD + '''
static inline void swap(void *fst, void *snd, size_t size) {
	char temp[size];
	memmove(temp, snd, size);
	memmove(snd, fst, size);
	memmove(fst, temp, size);
}

static int less(const void *a, const void *b, int(*compar)(const void *, const void *)) {
	int r = compar(a, b);
	return r < 0 ? 1 : 0;
}

static void sort3(char *a, char *b, char *c, size_t size, int(*compar)(const void *, const void *)) {
	if (less(b, a, compar))
		swap(a, b, size);
	if (c && less(c, b, compar)) {
		swap(b, c, size);
		if (less(b, a, compar))
			swap(a, b, size);
	}
}

void qsort(void *vbase, size_t nmemb, size_t size,
		int(*compar)(const void *, const void *)) {
	char *base = (char *) vbase;
	char *last = base + size * (nmemb - 1);

	switch (nmemb) {
	case 0:
	case 1:
		return;
	case 2:
		sort3(base, base + size, NULL, size, compar);
		return;
	case 3:
		sort3(base, base + size, base + 2 * size, size, compar);
		return;
	default:
		break;
	}
	char key[size];
	char *i = base, *j = last;
	memcpy(key, base + (rand() % nmemb) * size, size);
	while (!(i > j)) {
		while (less(i, key, compar))
			i += size;
		while (less(key, j, compar))
			j -= size;
		if (i > j)
			break;
		swap(i, j, size);
		i += size;
		j -= size;
	}
	if (j > base)
		qsort(base, (j - base) / size + 1, size, compar);
	if (i < last)
		qsort(i, nmemb - (i - base) / size, size, compar);
}
'''

B_HEAD = '''#include <stdlib.h>
#include <stddef.h>
'''

B_BOUNDS = '''
void *upper_bound(const void *key, const void *base,
              size_t nmemb, size_t size,
              int (*compar)(const void *, const void *)) {
	size_t lo = 0, hi = nmemb;
	while (lo != hi) {
		size_t mid = lo + (hi - lo) / 2;
		if (compar(key, (const char *)base + mid * size) >= 0)
			lo = mid + 1;
		else
			hi = mid;
	}
	return (char *)base + lo * size;
}

void *lower_bound(const void *key, const void *base,
              size_t nmemb, size_t size,
              int (*compar)(const void *, const void *)) {
	const char *p = base;
	size_t n = nmemb;
	while (n > 0) {
		size_t half = n >> 1;
		const char *mid = p + half * size;
		if (compar(key, mid) > 0) {
			p = mid + size;
			n -= half + 1;
		} else {
			n = half;
		}
	}
	return (void *)p;
}
'''

# r5: index based three-way bisection with early exit (glibc form), bounds by index / by halving
B_GLIBC = B_HEAD + B_BOUNDS + '''
void *bsearch(const void *key, const void *base,
              size_t nmemb, size_t size,
              int (*compar)(const void *, const void *)) {
	size_t l = 0, u = nmemb;
	while (l < u) {
		size_t idx = (l + u) / 2;
		const void *p = (const char *)base + idx * size;
		int c = (*compar)(key, p);
		if (c < 0)
			u = idx;
		else if (c > 0)
			l = idx + 1;
		else
			return (void *)p;
	}
	return NULL;
}
'''

# r6: bsearch through lower_bound + one comparison
B_VIA_LOWER = B_HEAD + B_BOUNDS + '''
void *bsearch(const void *key, const void *base,
              size_t nmemb, size_t size,
              int (*compar)(const void *, const void *)) {
	char *p = lower_bound(key, base, nmemb, size, compar);
	if (p == (char *)base + nmemb * size)
		return NULL;
	return compar(key, p) != 0 ? NULL : p;
}
'''


A_HEAD = '''#include <ctype.h>
#include <stdlib.h>
'''

# r8: musl form: index walk, explicit character tests, negative accumulation in a signed long
A_MUSL = A_HEAD + '''
long atol(const char *s) {
	long n = 0;
	int neg = 0;
	size_t i = 0;
	while (s[i] == ' ' || (s[i] >= '\\t' && s[i] <= '\\r'))
		i++;
	switch (s[i]) {
	case '-':
		neg = 1;
		/* fall through */
	case '+':
		i++;
	}
	/* compute n as a negative number to avoid overflow on LONG_MIN */
	while (s[i] >= '0' && s[i] <= '9')
		n = 10 * n - (s[i++] - '0');
	return neg ? n : -n;
}

int atoi(const char *s) {
	return (int) atol(s);
}
'''

# r9: atoi with its own loop, white space enumerated character by character, isdigit as unsigned subtraction
A_OWN_ATOI = A_HEAD + '''
static int is_space(int c) {
	return c == ' ' || c == '\\t' || c == '\\n' || c == '\\v' || c == '\\f' || c == '\\r';
}

long atol(const char *nptr) {
	const unsigned char *p = (const unsigned char *) nptr;
	unsigned long total = 0;
	int minus = 0;

	for (; is_space(*p); p++)
		;
	if (*p == '-') {
		minus = 1;
		p++;
	} else if (*p == '+') {
		p++;
	}
	for (; (unsigned)(*p - '0') < 10u; p++)
		total = (total << 3) + (total << 1) + (*p - '0');
	return minus ? (long) (0 - total) : (long) total;
}

int atoi(const char *nptr) {
	const char *p = nptr;
	int total = 0, minus;

	while (isspace((unsigned char)*p))
		p++;
	minus = *p == '-';
	if (*p == '-' || *p == '+')
		p++;
	while (isdigit((unsigned char)*p)) {
		total = total * 10 + (*p - '0');
		p++;
	}
	return minus ? -total : total;
}
'''

# r10: through strtol (another unit of the shim)
A_STRTOL = A_HEAD + '''
long atol(const char *nptr) {
	return strtol(nptr, NULL, 10);
}

int atoi(const char *nptr) {
	return (int) strtol(nptr, (char **) NULL, 10);
}
'''


def pointer_form(src):
    """r7: the file as it is, bsearch with a for loop, inverted test and conditional expression (refactors/C11/ref2)"""
    old = src[src.index('void *bsearch('):]
    new = '''void *bsearch(const void *key, const void *base,
              size_t nmemb, size_t size,
              int (*compar)(const void *, const void *)) {
	char *left, *right;

	if (nmemb == 0) {
		return NULL;
	}

	left = (char *)base;
	for (right = left + size * nmemb; left + size < right; ) {
		char *mid = left + ((right - left) / (size << 1) * size);
		if (compar(key, mid) >= 0) {
			left = mid;
		} else {
			right = mid;
		}
	}
	return compar(key, left) == 0 ? left : NULL;
}
'''
    return src.replace(old, new)


REW = [
    ('q-xor-exchange-index-partition', Q, Q_XOR_INDEX),
    ('q-iterative-explicit-stack', Q, Q_ITERATIVE),
    ('q-word-swap-insertion-median', Q, Q_WORDS_INSERTION),
    ('q-less-helper-switch-memmove', Q, Q_LESS_HELPER),
    ('b-glibc-index-form', B, B_GLIBC),
    ('b-bsearch-via-lower-bound', B, B_VIA_LOWER),
    ('b-for-loop-inverted-test', B, pointer_form),
    ('a-musl-index-negative-accumulation', A, A_MUSL),
    ('a-own-atoi-enumerated-spaces', A, A_OWN_ATOI),
    ('a-through-strtol', A, A_STRTOL),
]


def main():
    sel = sys.argv[1] if len(sys.argv) > 1 else ''
    env = dict(os.environ, VERIF_EVIDENCE_DIR='/tmp/dev/c11_order_ev')
    bad = 0
    n = 0
    for (name, rel, new) in REW:
        if sel not in name:
            continue
        n += 1
        p = os.path.join(WT, rel)
        src = open(p).read()
        try:
            open(p, 'w').write(new(src) if callable(new) else new)
            r = subprocess.run(['timeout', '-s', 'KILL', '600', sys.executable, DRV, WT], capture_output=True, text=True, env=env)
        finally:
            open(p, 'w').write(src)
        print('%-36s exit %d' % (name, r.returncode))
        if r.returncode != 0:
            bad += 1
            for l in (r.stdout + r.stderr).split('\n'):
                if l.startswith(('FAIL', 'ANALYSIS', 'Traceback', '  File')) or 'Error' in l:
                    print('      ' + l[:700])
    print('%d / %d silent' % (n - bad, n))
    return 1 if bad else 0


if __name__ == '__main__':
    sys.exit(main())
