#!/usr/bin/env python3
"""private driver: runs checks/c19_content.run_ext alone (no evidence files written)"""
import sys, time
sys.path.insert(0, '/verif/checks')
from report import Report
from irlib import AnalysisBroken
import c19_content
repo = sys.argv[1] if len(sys.argv) > 1 else '/tmp/dev/c19_content'
only = sys.argv[2:] 
rep = Report('C19', 'quick', repo)
t0 = time.time()
try:
    if only:
        for n in only:
            getattr(c19_content, n)(rep, repo)
    else:
        c19_content.run_ext(rep, repo, 'quick')
except AnalysisBroken as e:
    print('ANALYSIS-BROKEN', e); sys.exit(2)
merged = {}
for i in rep.instances:
    k = (i['rule'], i['function'], i['key'])
    m = merged.setdefault(k, dict(i))
    if not i['ok']:
        m['ok'] = False; m['detail'] = i['detail']
bad = [m for m in merged.values() if not m['ok']]
import os
for m in merged.values():
    if os.environ.get('V') or not m['ok']:
        print(('ok   ' if m['ok'] else 'FAIL ') + '%s|%s|%s %s' % (m['rule'], m['function'], m['key'], '' if m['ok'] else (m['detail'] or '')[:1500]))
broken = []
for rule, minimum in rep.floors:
    n = sum(1 for m in merged.values() if m['rule'] == rule or m['rule'].startswith(rule + ':'))
    if n < minimum:
        broken.append('rule %s matched %d instance(s), floor is %d' % (rule, n, minimum))
for b in broken: print('FLOOR', b)
for b in sorted(set(c19_content.BROKEN)): print('BROKEN-NOTE', b)
print('%d instances, %d failing, %.1fs' % (len(merged), len(bad), time.time() - t0))
sys.exit(1 if bad else (2 if broken else 0))
