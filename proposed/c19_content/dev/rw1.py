# rewrite 1: trim with index walk, helper predicate with switch
import re
p='/tmp/dev/c19_content/igris/util/string.h'
s=open(p).read()
a=s.index('    static inline std::string trim(const igris::buffer &view)')
b=s.index('    /*static inline igris::buffer trim_left')
new='''    static inline bool trim_is_space(char c)
    {
        switch (c)
        {
        case ' ':
        case '\\n':
        case '\\r':
        case '\\t':
            return true;
        default:
            return false;
        }
    }

    static inline std::string trim(const igris::buffer &view)
    {
        const char *data = view.data();
        size_t n = view.size();
        size_t first = 0;

        for (; first < n; ++first)
            if (!trim_is_space(data[first]))
                break;

        if (first == n)
            return "";

        size_t last = n;
        do
        {
            --last;
        } while (last > first && trim_is_space(data[last]));

        return std::string(data + first, last - first + 1);
    }

'''
open(p,'w').write(s[:a]+new+s[b:])
