# rewrite 6: trim works on a std::string copy with find_first_not_of / find_last_not_of
p='/tmp/dev/c19_content/igris/util/string.h'
s=open(p).read()
a=s.index('    static inline std::string trim(const igris::buffer &view)')
b=s.index('    /*static inline igris::buffer trim_left')
new='''    static inline std::string trim(const igris::buffer &view)
    {
        std::string s(view.data(), view.size());
        size_t strt = s.find_first_not_of(" \\n\\r\\t");
        if (strt == std::string::npos)
            return "";
        size_t fini = s.find_last_not_of(" \\n\\r\\t") + 1;
        return s.substr(strt, fini - strt);
    }

'''
open(p,'w').write(s[:a]+new+s[b:])
