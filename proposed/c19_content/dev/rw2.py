# rewrite 2: split(char) with index walk, push_back(std::string(ptr,len)); split(delims) with helper + De Morgan
p='/tmp/dev/c19_content/igris/util/string.cpp'
s=open(p).read()
a=s.index('    std::vector<std::string> split(const igris::buffer &str, char delim)')
b=s.index('    std::string join(const std::vector<std::string> &vec, char delim)')
new='''    std::vector<std::string> split(const igris::buffer &str, char delim)
    {
        std::vector<std::string> outvec;
        const char *data = str.data();
        size_t n = str.size();
        size_t i = 0;

        for (;;)
        {
            for (; i < n; ++i)
                if (data[i] != delim)
                    break;

            if (i >= n)
                return outvec;

            size_t strt = i;
            do
            {
                ++i;
            } while (!(i == n || data[i] == delim));

            outvec.push_back(std::string(data + strt, i - strt));
        }
    }

    static bool is_delim(const char *delims, char c)
    {
        return strchr(delims, c) != NULL;
    }

    std::vector<std::string> split(const igris::buffer &str, const char *delims)
    {
        std::vector<std::string> outvec;
        char *ptr = (char *)str.data();
        char *end = ptr + str.size();

        while (ptr != end)
        {
            if (is_delim(delims, *ptr))
            {
                ptr++;
                continue;
            }

            char *strt = ptr;
            while (!(ptr == end || is_delim(delims, *ptr)))
                ptr++;

            outvec.emplace_back(strt, ptr - strt);
        }

        return outvec;
    }

'''
open(p,'w').write(s[:a]+new+s[b:])
